#!/bin/bash
# usage: seeded_sweep.sh [pattern]   - runs the quick tier of each seeded change's own property check against the change
# (scratch worktree + scratch copy of /verif, see mutate_scratch.sh) and prints one line per change.
# A change whose patch no longer applies to /repo's HEAD (a later fix touched the same lines) is reported as such.
cd "$(dirname "$0")/.."
for d in seeded/${1:-*}/; do
  id=$(basename $d)
  prop=$(python3 -c "import json;print(json.load(open('$d/meta.json'))['property'])")
  extra=$(python3 -c "
import json,re
m=json.load(open('$d/meta.json'))
s=set(re.findall(r'\bC[0-9][0-9]\b',' '.join(m.get('detected_by',[]))))
s.discard(m['property'])
print(' '.join(sorted(s)))")
  if ! git -C /repo apply --check "$(pwd)/$d/patch.diff" 2>/dev/null; then
    echo "$id: patch does not apply to HEAD any more (superseded by a later fix to the same lines)"
    continue
  fi
  out=$(tools/mutate_scratch.sh $d/patch.diff $prop $extra 2>&1 | grep "^check" | sed -E 's/^check (C[0-9]+) vs patch.diff: rc=([0-9]+).*/\1:rc=\2/' | tr '\n' ' ')
  echo "$id: $out"
done
