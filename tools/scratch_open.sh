#!/bin/bash
# usage: scratch_open.sh <patch> <dir>  - scratch worktree of /repo with the patch + scratch copy of /verif pointing at it, under <dir>
# (remove with: git -C /repo worktree remove --force <dir>/repo; rm -rf <dir>)
set -u
PATCH=$(readlink -f "$1"); S=$2
mkdir -p $S
git -C /repo worktree add -q --detach $S/repo HEAD || exit 3
( cd $S/repo && git apply "$PATCH" ) || { echo "patch does not apply"; exit 3; }
rsync -a --exclude .build --exclude replays --exclude evidence --exclude .git --exclude seeded /verif/ $S/verif/
mkdir -p $S/verif/replays $S/verif/evidence
sed -i "s|=> /repo|=> $S/repo|" $S/verif/harness/go.mod
sed -i "s|open(\"/repo/go.sum\")|open(\"$S/repo/go.sum\")|" $S/verif/check
echo $S
