#!/usr/bin/env python3
"""Regenerates /verif/MANIFEST.json from checks_config.py (single source of truth)."""
import json, os, sys
ROOT = os.path.dirname(os.path.dirname(os.path.abspath(__file__)))
sys.path.insert(0, ROOT)
import checks_config as CC

ALL = [json.loads(l)["id"] for l in open(os.path.join(ROOT, "properties.jsonl")) if l.strip()]
checks = []
for pid in ALL:
    if pid not in CC.CHECKS or CC.CHECKS[pid].get("unclaimed"):
        continue
    c = CC.CHECKS[pid]
    checks.append({
        "property_id": pid,
        "quick_cmd": "./check %s --tier quick" % pid,
        "thorough_cmd": "./check %s --tier thorough" % pid,
        "evidence_file": "/verif/evidence/%s.json" % pid,
        "replay_cmd_template": "./check %s --replay {path}" % pid,
        "engine": c.get("engine", "rapid property tests over verif-tagged hooks"),
        "level_claimed": {"category": c["level"], "text": c.get("level_text", ""), "design_ref": c.get("design_ref", "DESIGN.md §3 " + pid)},
        "level_note": c.get("level_note", ""),
        "technique": c.get("technique", "property-based testing (pgregory.net/rapid) against an explicit oracle"),
    })
na = []
for pid in ALL:
    if pid not in CC.CHECKS or CC.CHECKS[pid].get("unclaimed"):
        na.append({"property_id": pid, "reason": CC.NOT_CLAIMED.get(pid, "check not built yet in this session; see DESIGN.md §3 for the plan")})
hooks = json.load(open(os.path.join(ROOT, "tools", "hooks.json")))
m = {
    "version": 1,
    "setup_cmd": "./setup.sh",
    "hooks": hooks,
    "engines": CC.ENGINES,
    "checks": checks,
    "notes": CC.NOTES,
    "not_applicable": na,
}
json.dump(m, open(os.path.join(ROOT, "MANIFEST.json"), "w"), indent=1)
print("MANIFEST.json: %d checks, %d not claimed" % (len(checks), len(na)))
