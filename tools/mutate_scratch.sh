#!/bin/bash
# usage: mutate_scratch.sh <patch> <ID> [<ID>...]   - like mutate.py --patch, but never touches /repo or /verif:
# a scratch worktree of /repo (patch applied) and a scratch copy of /verif whose harness module points at it,
# both under /tmp/mut.<pid>, removed afterwards. Environment: TIER (quick), PART (one part only). Safe to use while a background run rebuilds from /repo.
set -u
PATCH=$(readlink -f "$1"); shift
S=/tmp/mut.$$
mkdir -p $S
git -C /repo worktree add -q --detach $S/repo HEAD || exit 3
( cd $S/repo && git apply "$PATCH" ) || { git -C /repo worktree remove --force $S/repo; rm -rf $S; echo "patch does not apply"; exit 3; }
rsync -a --exclude .build --exclude replays --exclude evidence --exclude .git --exclude seeded /verif/ $S/verif/
mkdir -p $S/verif/replays $S/verif/evidence
sed -i "s|=> /repo|=> $S/repo|" $S/verif/harness/go.mod
sed -i "s|open(\"/repo/go.sum\")|open(\"$S/repo/go.sum\")|" $S/verif/check
for id in "$@"; do
  out=$($S/verif/check $id --tier ${TIER:-quick} --no-evidence ${PART:+--part $PART} 2>&1); rc=$?
  echo "check $id vs $(basename $PATCH): rc=$rc $(echo "$out" | grep -E "^C[0-9]+ (quick|thorough):" | cut -c1-200)"
  echo "$out" | grep "signature:" | cut -c1-260 | sort | uniq -c | sort -rn | head -3
done
git -C /repo worktree remove --force $S/repo; git -C /repo worktree prune
rm -rf $S
