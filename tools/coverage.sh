#!/bin/bash
# usage: tools/coverage.sh [tier] [ID...]  - statement coverage of /repo's non-test code reached by the checks (gap analysis only;
# never part of a registered command). Builds every props package with -cover -coverpkg=samaritan/..., runs the given tier,
# merges the shard profiles and prints per-function coverage for the packages the properties are anchored in.
cd "$(dirname "$0")/.."
tier=${1:-quick}; shift
ids=${@:-C01 C02 C03 C04 C05 C06 C07 C08 C09 C10 C11 C12 C13 C14 C15 C16 C17 C18 C19 C20}
export VERIF_COVER=/verif/.build/cover
rm -rf $VERIF_COVER; mkdir -p $VERIF_COVER
for id in $ids; do
  ./check $id --tier $tier --no-evidence 2>/dev/null | tail -1
done
python3 - <<'PY'
import glob,collections
blocks=collections.OrderedDict()
for f in glob.glob('/verif/.build/cover/*.cov'):
    for line in open(f):
        if line.startswith('mode:'): continue
        try:
            key,n,c=line.rsplit(' ',2)
        except ValueError: continue
        k=(key,n)
        blocks[k]=blocks.get(k,0)+int(c)
with open('/verif/.build/cover/merged.out','w') as o:
    o.write('mode: atomic\n')
    for (key,n),c in blocks.items():
        o.write('%s %s %d\n'%(key,n,c))
PY
export GOFLAGS=-mod=mod GOPROXY=off GOSUMDB=off GOTOOLCHAIN=local
(cd harness && go tool cover -func=/verif/.build/cover/merged.out > /verif/.build/cover/func.txt)
grep -v "_verif.go\|/pb/\|\.pb\.go\|/mock" /verif/.build/cover/func.txt | awk '$NF+0 < 100.0' | sort -t: -k1,1 | head -400
tail -1 /verif/.build/cover/func.txt
