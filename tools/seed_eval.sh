#!/bin/bash
# usage: seed_eval.sh <round dir, e.g. /tmp/seed5> <ID> [extra check IDs...]
# Confirms an agent's seeded change (tools/seedverify.sh) and runs the quick tier of the property's check (and extra ones) against it.
R=$1; ID=$2; shift 2
O=$R/$ID/out
pkg=$(sed -n 1p $O/meta.txt | tr -d ' \r'); pkg=${pkg#./}; pkg=${pkg%/}
cmd=$(sed -n 2p $O/meta.txt)
args=$(echo "${cmd#*-count=1}" | tr -d "'\"")
# patch must not contain test files
grep -q '^+++ b/.*_test.go' $O/patch.diff && echo "$ID: WARNING patch touches a test file"
cd /verif
tools/seedverify.sh $ID-eval $O/patch.diff $O/zz_demo_test.go $pkg/zz_demo_test.go $args
tools/mutate_scratch.sh $O/patch.diff $ID "$@"
