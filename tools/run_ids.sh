#!/bin/bash
# usage: run_ids.sh <tier> <seed> <ID>...   - like run_all.sh for the given checks, in the given order
tier=$1; seed=$2; shift 2
cd "$(dirname "$0")/.."
for id in "$@"; do
  s=$(date +%s)
  VERIF_SEED=$seed ./check $id --tier $tier --no-evidence > /tmp/runids.$$.log 2>&1; rc=$?
  e=$(date +%s)
  echo "rc=$rc $(grep -c '^VIOLATION' /tmp/runids.$$.log) viol $((e-s))s :: $(tail -1 /tmp/runids.$$.log | cut -c1-400)"
  grep '^VIOLATION\|signature:' /tmp/runids.$$.log | head -6
done
rm -f /tmp/runids.$$.log
