#!/bin/bash
# usage: seedverify.sh <ID> <patch> <demo file> <demo target path in repo> <go test args for the demo...>
# Confirms in a scratch worktree (outside /repo and /verif): the patch applies, builds, the existing suite passes,
# the demonstration fails with the patch and passes without it. The worktree is removed afterwards.
set -u
ID=$1; PATCH=$2; DEMO=$3; TARGET=$4; shift 4
export GOFLAGS=-mod=mod GOPROXY=off GOSUMDB=off GOTOOLCHAIN=local
WT=/tmp/sv/$ID
rm -rf $WT; mkdir -p /tmp/sv
git -C /repo worktree add -q --detach $WT HEAD || exit 3
cd $WT
res=""
git apply $PATCH && res="$res apply=ok" || res="$res apply=FAIL"
go build ./... && res="$res build=ok" || res="$res build=FAIL"
if go test -vet=off -count=1 $(go list ./... | grep -v test/integration) > /tmp/sv/$ID.suite.log 2>&1; then res="$res suite=pass"; else
  # a few tests of the existing suite are timing dependent and fail under load on the unchanged tree too: re-run the failed packages alone
  failed=$(grep '^FAIL' /tmp/sv/$ID.suite.log | awk '{print $2}' | grep / | sort -u)
  ok=1
  for p in $failed; do
    go test -vet=off -count=1 $p >> /tmp/sv/$ID.suite.log 2>&1 || go test -vet=off -count=1 $p >> /tmp/sv/$ID.suite.log 2>&1 || ok=0
  done
  [ $ok = 1 ] && [ -n "$failed" ] && res="$res suite=pass(after-rerun-of:$(echo $failed | tr ' ' ','))" || res="$res suite=FAIL"
fi
cp $DEMO $TARGET
timeout 300 go test -vet=off -count=1 "$@" > /tmp/sv/$ID.demo_with.log 2>&1 && res="$res demo_with_patch=PASS(unexpected)" || res="$res demo_with_patch=fails"
git apply -R $PATCH
timeout 300 go test -vet=off -count=1 "$@" > /tmp/sv/$ID.demo_without.log 2>&1 && res="$res demo_without_patch=passes" || res="$res demo_without_patch=FAILS(unexpected)"
cd /; git -C /repo worktree remove --force $WT
echo "$ID:$res"
