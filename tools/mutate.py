#!/usr/bin/env python3
"""Sensitivity test helper: apply one textual mutation (or a patch file) to /repo, run
a check, and always restore /repo.  usage:
   mutate.py <ID> --file proc/redis/util.go --old 'X' --new 'Y' [--tier quick] [--part p]
   mutate.py <ID> --patch some.diff
"""
import argparse, subprocess, sys, os
ap = argparse.ArgumentParser()
ap.add_argument("id"); ap.add_argument("--file"); ap.add_argument("--old"); ap.add_argument("--new")
ap.add_argument("--patch"); ap.add_argument("--tier", default="quick"); ap.add_argument("--part", action="append")
ap.add_argument("--count", type=int, default=1)
a = ap.parse_args()
dirty = subprocess.run(["git", "-C", "/repo", "status", "--porcelain"], capture_output=True, text=True).stdout.strip()
if dirty:
    print("refusing: /repo is dirty:\n" + dirty); sys.exit(3)
try:
    if a.patch:
        r = subprocess.run(["git", "-C", "/repo", "apply", os.path.abspath(a.patch)])
        if r.returncode: sys.exit(3)
    else:
        p = os.path.join("/repo", a.file)
        s = open(p).read()
        if s.count(a.old) != a.count:
            print("old string occurs %d times (expected %d)" % (s.count(a.old), a.count)); sys.exit(3)
        open(p, "w").write(s.replace(a.old, a.new))
    cmd = ["/verif/check", a.id, "--tier", a.tier, "--no-evidence"]
    for p in a.part or []: cmd += ["--part", p]
    env = dict(os.environ); env["VERIF_RUNTAG"] = "-mut"
    r = subprocess.run(cmd, env=env)
    print("MUTATION RESULT rc=%d (%s)" % (r.returncode, {0: "NOT DETECTED", 1: "detected", 2: "inconclusive"}.get(r.returncode, "?")))
finally:
    subprocess.run(["git", "-C", "/repo", "checkout", "--", "."])
    subprocess.run(["git", "-C", "/repo", "clean", "-fdq"])
    for f in os.listdir("/verif/replays"):
        if "-mut" in f: os.remove(os.path.join("/verif/replays", f))
