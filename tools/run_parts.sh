#!/bin/bash
# usage: run_parts.sh <tier> <seed> <ID:part>...   - runs single parts of checks, one summary line each
tier=$1; seed=$2; shift 2
cd "$(dirname "$0")/.."
for ip in "$@"; do
  id=${ip%%:*}; part=${ip#*:}
  s=$(date +%s)
  VERIF_SEED=$seed ./check $id --tier $tier --part $part --no-evidence > /tmp/runparts.$$.log 2>&1; rc=$?
  e=$(date +%s)
  echo "rc=$rc $(grep -c '^VIOLATION' /tmp/runparts.$$.log) viol $((e-s))s :: $ip :: $(tail -1 /tmp/runparts.$$.log | cut -c1-300)"
  grep 'signature:' /tmp/runparts.$$.log | cut -c1-300 | head -4
done
rm -f /tmp/runparts.$$.log
