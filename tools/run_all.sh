#!/bin/bash
# usage: run_all.sh <tier> [seed]   - runs every check once, prints one summary line per check
tier=${1:-quick}; seed=${2:-1}
cd "$(dirname "$0")/.."
for id in C12 C10 C19 C15 C18 C13 C17 C08 C16 C03 C01 C14 C07 C02 C04 C20 C09 C11 C05 C06; do
  s=$(date +%s)
  VERIF_SEED=$seed ./check $id --tier $tier --no-evidence > /tmp/runall.$$.log 2>&1; rc=$?
  e=$(date +%s)
  echo "rc=$rc $(grep -c '^VIOLATION' /tmp/runall.$$.log) viol $((e-s))s :: $(tail -1 /tmp/runall.$$.log | cut -c1-300)"
  grep '^VIOLATION\|signature:' /tmp/runall.$$.log | head -6
done
rm -f /tmp/runall.$$.log
