package ref

// CRC16 is a bit-serial CRC16/XMODEM (poly 0x1021, init 0, no reflection, no
// xor-out), written from the CRC definition, not from a table.
func CRC16(b []byte) uint16 {
	var crc uint16
	for _, c := range b {
		crc ^= uint16(c) << 8
		for i := 0; i < 8; i++ {
			if crc&0x8000 != 0 {
				crc = crc<<1 ^ 0x1021
			} else {
				crc <<= 1
			}
		}
	}
	return crc
}

// Tag is a direct port of the Redis Cluster specification's HASH_SLOT pseudo
// code: the part of key that is hashed.
func Tag(key []byte) []byte {
	s := -1
	for i, c := range key {
		if c == '{' {
			s = i
			break
		}
	}
	if s < 0 {
		return key
	}
	e := -1
	for i := s + 1; i < len(key); i++ {
		if key[i] == '}' {
			e = i
			break
		}
	}
	if e < 0 || e == s+1 {
		return key
	}
	return key[s+1 : e]
}

// Slot is HASH_SLOT(key) of the Redis Cluster specification.
func Slot(key []byte) int { return int(CRC16(Tag(key)) % 16384) }
