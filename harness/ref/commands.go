package ref

import "strings"

// Redis50 is the Redis 5.0 command table (name -> flags), transcribed from
// redis 5.0 src/server.c redisCommandTable. Only 'w' (write) and 'r' (readonly)
// matter here; other flags are kept for reference.
var Redis50 = map[string]string{
	"module": "as", "get": "rF", "set": "wm", "setnx": "wmF", "setex": "wm", "psetex": "wm", "append": "wm", "strlen": "rF",
	"del": "w", "unlink": "wF", "exists": "rF", "setbit": "wm", "getbit": "rF", "bitfield": "wm", "setrange": "wm", "getrange": "r",
	"substr": "r", "incr": "wmF", "decr": "wmF", "mget": "rF", "rpush": "wmF", "lpush": "wmF", "rpushx": "wmF", "lpushx": "wmF",
	"linsert": "wm", "rpop": "wF", "lpop": "wF", "brpop": "ws", "brpoplpush": "wms", "blpop": "ws", "llen": "rF", "lindex": "r",
	"lset": "wm", "lrange": "r", "ltrim": "w", "lrem": "w", "rpoplpush": "wm", "sadd": "wmF", "srem": "wF", "smove": "wF",
	"sismember": "rF", "scard": "rF", "spop": "wRF", "srandmember": "rR", "sinter": "rS", "sinterstore": "wm", "sunion": "rS",
	"sunionstore": "wm", "sdiff": "rS", "sdiffstore": "wm", "smembers": "rS", "sscan": "rR", "zadd": "wmF", "zincrby": "wmF",
	"zrem": "wF", "zremrangebyscore": "w", "zremrangebyrank": "w", "zremrangebylex": "w", "zunionstore": "wm", "zinterstore": "wm",
	"zrange": "r", "zrangebyscore": "r", "zrevrangebyscore": "r", "zrangebylex": "r", "zrevrangebylex": "r", "zcount": "rF",
	"zlexcount": "rF", "zrevrange": "r", "zcard": "rF", "zscore": "rF", "zrank": "rF", "zrevrank": "rF", "zscan": "rR",
	"zpopmin": "wF", "zpopmax": "wF", "bzpopmin": "wsF", "bzpopmax": "wsF", "hset": "wmF", "hsetnx": "wmF", "hget": "rF",
	"hmset": "wmF", "hmget": "rF", "hincrby": "wmF", "hincrbyfloat": "wmF", "hdel": "wF", "hlen": "rF", "hstrlen": "rF",
	"hkeys": "rS", "hvals": "rS", "hgetall": "rR", "hexists": "rF", "hscan": "rR", "incrby": "wmF", "decrby": "wmF",
	"incrbyfloat": "wmF", "getset": "wm", "mset": "wm", "msetnx": "wm", "randomkey": "rR", "select": "lF", "swapdb": "wF",
	"move": "wF", "rename": "w", "renamenx": "wF", "expire": "wF", "expireat": "wF", "pexpire": "wF", "pexpireat": "wF",
	"keys": "rS", "scan": "rR", "dbsize": "rF", "auth": "sltF", "ping": "tF", "echo": "F", "save": "as", "bgsave": "as",
	"bgrewriteaof": "as", "shutdown": "aslt", "lastsave": "RF", "type": "rF", "multi": "sF", "exec": "sM", "discard": "sF",
	"sync": "ars", "psync": "ars", "replconf": "aslt", "flushdb": "w", "flushall": "w", "sort": "wm", "info": "ltR",
	"monitor": "as", "ttl": "rFR", "touch": "rF", "pttl": "rFR", "persist": "wF", "slaveof": "ast", "replicaof": "ast",
	"role": "lst", "debug": "as", "config": "lat", "subscribe": "pslt", "unsubscribe": "pslt", "psubscribe": "pslt",
	"punsubscribe": "pslt", "publish": "pltF", "pubsub": "pltR", "watch": "sF", "unwatch": "sF", "cluster": "a", "restore": "wm",
	"restore-asking": "wmk", "migrate": "wR", "asking": "F", "readonly": "F", "readwrite": "F", "dump": "rR", "object": "rR",
	"memory": "rR", "client": "as", "eval": "s", "evalsha": "s", "slowlog": "aR", "script": "s", "time": "RF", "bitop": "wm",
	"bitcount": "r", "bitpos": "r", "wait": "s", "command": "ltR", "geoadd": "wm", "georadius": "w", "georadius_ro": "r",
	"georadiusbymember": "w", "georadiusbymember_ro": "r", "geohash": "r", "geopos": "r", "geodist": "r", "pfselftest": "a",
	"pfadd": "wmF", "pfcount": "r", "pfmerge": "wm", "pfdebug": "w", "xadd": "wmFR", "xrange": "r", "xrevrange": "r", "xlen": "rF",
	"xread": "rsb", "xreadgroup": "wsb", "xgroup": "wm", "xsetid": "wmF", "xack": "wF", "xpending": "r", "xclaim": "wRF",
	"xinfo": "rR", "xdel": "wF", "xtrim": "wFR", "post": "lt", "host:": "lt", "latency": "aslt", "lolwut": "r",
}

// IsWrite reports whether Redis 5.0 flags the command as a write. EVAL is treated as
// a write (a script may modify data; Redis has no read-only flag for it).
func IsWrite(cmd string) bool {
	cmd = strings.ToLower(cmd)
	if cmd == "eval" {
		return true
	}
	return strings.Contains(Redis50[cmd], "w")
}

// IsReadOnly reports whether Redis 5.0 flags the command read-only.
func IsReadOnly(cmd string) bool {
	cmd = strings.ToLower(cmd)
	f := Redis50[cmd]
	return strings.Contains(f, "r") && !strings.Contains(f, "w") && cmd != "eval"
}

// Forwarded is the documented set of commands the proxy forwards to backends
// (frozen from proc/redis/handler.go at the pinned commit and
// docs/src/arch/protocol/redis/redis.md), keyed commands only.
var Forwarded = strings.Fields(`
dump expire expireat persist pexpire pexpireat pttl restore sort ttl type
append bitcount bitpos decr decrby get getbit getrange getset incr incrby incrbyfloat psetex set setbit setex setnx setrange strlen
hdel hexists hget hgetall hincrby hincrbyfloat hkeys hlen hmget hmset hset hsetnx hstrlen hvals hscan
lindex linsert llen lpop lpush lpushx lrange lrem lset ltrim rpop rpoplpush rpush rpushx
sadd scard sdiff sdiffstore sinter sinterstore sismember smembers smove spop srandmember srem sunion sunionstore sscan
zadd zcard zcount zincrby zinterstore zlexcount zrange zrangebylex zrangebyscore zrank zrem zremrangebylex zremrangebyrank
zremrangebyscore zrevrange zrevrangebylex zrevrangebyscore zrevrank zscore zunionstore zscan pfadd pfcount pfmerge
geoadd geodist geohash geopos georadius georadiusbymember
del exists touch unlink eval mset mget scan`)

// Local is the set of commands the proxy answers itself.
var Local = []string{"ping", "quit", "select", "info", "time", "hotkey"}

// Supported reports whether name (any case) is in the documented supported set.
func Supported(name string) bool {
	// command names are ASCII: a name with any other byte is not a supported name, whatever Unicode case folding makes of it
	// (strings.ToLower maps the Kelvin sign U+212A to "k" and U+0130 to "i")
	for i := 0; i < len(name); i++ {
		if name[i] >= 0x80 {
			return false
		}
	}
	n := strings.ToLower(name)
	for _, c := range Forwarded {
		if c == n {
			return true
		}
	}
	for _, c := range Local {
		if c == n {
			return true
		}
	}
	return false
}

// DocumentedUnsupported is the "Unsupported" list of docs/src/arch/protocol/redis/redis.md
// (SCAN is listed there but implemented; it is excluded here).
var DocumentedUnsupported = strings.Fields(`
keys migrate move object randomkey rename renamenx wait bitop msetnx blpop brpop brpoplpush
psubscribe publish pubsub punsubscribe subscribe unsubscribe evalsha script discard exec multi unwatch watch
cluster echo bgrewriteaof bgsave client command config dbsize debug flushall flushdb lastsave monitor role save
shutdown slaveof sync slowlog`)
