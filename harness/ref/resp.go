// Package ref holds independent reference implementations used as oracles:
// a RESP encoder/parser, CRC16/XMODEM + the Redis Cluster HASH_SLOT rule, the
// Redis 5 command table and a small keyspace executor.
package ref

import (
	"bytes"
	"errors"
	"fmt"
	"strconv"
)

// Kind of a RESP value.
type Kind byte

const (
	Simple Kind = '+'
	Err    Kind = '-'
	Int    Kind = ':'
	Bulk   Kind = '$'
	Arr    Kind = '*'
)

// Value is a RESP value. Null distinguishes $-1 / *-1 from empty.
type Value struct {
	K    Kind
	N    int64
	S    []byte
	A    []Value
	Null bool
}

func SimpleV(s string) Value { return Value{K: Simple, S: []byte(s)} }
func ErrV(s string) Value    { return Value{K: Err, S: []byte(s)} }
func IntV(n int64) Value     { return Value{K: Int, N: n} }
func BulkV(b []byte) Value {
	if b == nil {
		b = []byte{}
	}
	return Value{K: Bulk, S: b}
}
func BulkS(s string) Value    { return Value{K: Bulk, S: []byte(s)} }
func NullBulk() Value         { return Value{K: Bulk, Null: true} }
func NullArr() Value          { return Value{K: Arr, Null: true} }
func ArrV(vs ...Value) Value  { return Value{K: Arr, A: append([]Value{}, vs...)} }
func (v Value) IsErr() bool   { return v.K == Err }
func OKV() Value              { return SimpleV("OK") }
func Cmd(args ...string) Value {
	vs := make([]Value, len(args))
	for i, a := range args {
		vs[i] = BulkS(a)
	}
	return ArrV(vs...)
}
func CmdB(args ...[]byte) Value {
	vs := make([]Value, len(args))
	for i, a := range args {
		vs[i] = BulkV(a)
	}
	return ArrV(vs...)
}

// Equal compares two values structurally (null != empty).
func Equal(a, b Value) bool {
	if a.K != b.K || a.Null != b.Null {
		return false
	}
	switch a.K {
	case Int:
		return a.N == b.N
	case Arr:
		if len(a.A) != len(b.A) {
			return false
		}
		for i := range a.A {
			if !Equal(a.A[i], b.A[i]) {
				return false
			}
		}
		return true
	default:
		return bytes.Equal(a.S, b.S)
	}
}

// Encode appends the canonical RESP encoding of v.
func Encode(dst []byte, v Value) []byte {
	dst = append(dst, byte(v.K))
	switch v.K {
	case Simple, Err:
		dst = append(dst, v.S...)
		dst = append(dst, '\r', '\n')
	case Int:
		dst = strconv.AppendInt(dst, v.N, 10)
		dst = append(dst, '\r', '\n')
	case Bulk:
		if v.Null {
			return append(dst, '-', '1', '\r', '\n')
		}
		dst = strconv.AppendInt(dst, int64(len(v.S)), 10)
		dst = append(dst, '\r', '\n')
		dst = append(dst, v.S...)
		dst = append(dst, '\r', '\n')
	case Arr:
		if v.Null {
			return append(dst, '-', '1', '\r', '\n')
		}
		dst = strconv.AppendInt(dst, int64(len(v.A)), 10)
		dst = append(dst, '\r', '\n')
		for _, e := range v.A {
			dst = Encode(dst, e)
		}
	}
	return dst
}

// Enc returns the canonical encoding of v.
func Enc(v Value) []byte { return Encode(nil, v) }

// ErrIncomplete is returned by Parse when b is a strict prefix of a message.
var ErrIncomplete = errors.New("incomplete")

// Parse parses one RESP value from the start of b and returns it and the number
// of bytes consumed. It is deliberately simple (recursive descent, strict).
func Parse(b []byte) (Value, int, error) {
	return parse(b, 0)
}

func line(b []byte) ([]byte, int, error) {
	i := bytes.IndexByte(b, '\n')
	if i < 0 {
		return nil, 0, ErrIncomplete
	}
	if i < 1 || b[i-1] != '\r' {
		return nil, 0, errors.New("bad line ending")
	}
	return b[:i-1], i + 1, nil
}

func parse(b []byte, depth int) (Value, int, error) {
	if len(b) == 0 {
		return Value{}, 0, ErrIncomplete
	}
	if depth > 1<<16 {
		return Value{}, 0, errors.New("too deep")
	}
	k := Kind(b[0])
	switch k {
	case Simple, Err:
		l, n, err := line(b[1:])
		if err != nil {
			return Value{}, 0, err
		}
		return Value{K: k, S: append([]byte{}, l...)}, 1 + n, nil
	case Int:
		l, n, err := line(b[1:])
		if err != nil {
			return Value{}, 0, err
		}
		x, err := strconv.ParseInt(string(l), 10, 64)
		if err != nil {
			return Value{}, 0, err
		}
		return Value{K: Int, N: x}, 1 + n, nil
	case Bulk:
		l, n, err := line(b[1:])
		if err != nil {
			return Value{}, 0, err
		}
		x, err := strconv.ParseInt(string(l), 10, 64)
		if err != nil {
			return Value{}, 0, err
		}
		if x == -1 {
			return NullBulk(), 1 + n, nil
		}
		if x < 0 {
			return Value{}, 0, errors.New("bad bulk len")
		}
		rest := b[1+n:]
		if x > int64(len(rest)) || int64(len(rest)) < x+2 {
			return Value{}, 0, ErrIncomplete
		}
		if rest[x] != '\r' || rest[x+1] != '\n' {
			return Value{}, 0, errors.New("bad bulk end")
		}
		return Value{K: Bulk, S: append([]byte{}, rest[:x]...)}, 1 + n + int(x) + 2, nil
	case Arr:
		l, n, err := line(b[1:])
		if err != nil {
			return Value{}, 0, err
		}
		x, err := strconv.ParseInt(string(l), 10, 64)
		if err != nil {
			return Value{}, 0, err
		}
		if x == -1 {
			return NullArr(), 1 + n, nil
		}
		if x < 0 {
			return Value{}, 0, errors.New("bad array len")
		}
		off := 1 + n
		v := Value{K: Arr, A: make([]Value, 0, min64(x, 1024))}
		for i := int64(0); i < x; i++ {
			e, m, err := parse(b[off:], depth+1)
			if err != nil {
				return Value{}, 0, err
			}
			v.A = append(v.A, e)
			off += m
		}
		return v, off, nil
	default:
		return Value{}, 0, fmt.Errorf("bad type byte %q", b[0])
	}
}

func min64(a, b int64) int64 {
	if a < b {
		return a
	}
	return b
}

// ParseAll parses a whole stream into values; rest is the unparsed tail (a strict prefix of a message, or empty).
func ParseAll(b []byte) (vs []Value, rest []byte, err error) {
	for len(b) > 0 {
		v, n, e := Parse(b)
		if e == ErrIncomplete {
			return vs, b, nil
		}
		if e != nil {
			return vs, b, e
		}
		vs = append(vs, v)
		b = b[n:]
	}
	return vs, nil, nil
}

// String renders a value for messages (truncated).
func (v Value) String() string {
	switch v.K {
	case Simple:
		return "+" + trunc(v.S)
	case Err:
		return "-" + trunc(v.S)
	case Int:
		return ":" + strconv.FormatInt(v.N, 10)
	case Bulk:
		if v.Null {
			return "$nil"
		}
		return "$" + trunc(v.S)
	case Arr:
		if v.Null {
			return "*nil"
		}
		s := "["
		for i, e := range v.A {
			if i > 0 {
				s += " "
			}
			if i >= 12 {
				s += fmt.Sprintf("...(%d)", len(v.A))
				break
			}
			s += e.String()
		}
		return s + "]"
	}
	return fmt.Sprintf("?%d", v.K)
}

func trunc(b []byte) string {
	if len(b) > 48 {
		return fmt.Sprintf("%q...(%d)", b[:48], len(b))
	}
	return fmt.Sprintf("%q", b)
}
