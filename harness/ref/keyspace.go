package ref

import (
	"bytes"
	"crypto/sha256"
	"encoding/hex"
	"sort"
	"strconv"
	"strings"
)

// Keyspace is a small deterministic executor for Redis commands. The same
// executor runs inside every simulated cluster node and, on one keyspace, as the
// single-server reference, so the differential tests the proxy (routing,
// splitting, re-assembly, ordering, redirection, byte fidelity), not this
// re-implementation of Redis data types.
type Keyspace struct {
	M map[string]*Obj
}

// Obj is one key's value.
type Obj struct {
	T    byte // 's' string, 'h' hash, 'l' list, 'S' set, 'z' zset, 'x' opaque (digest rule)
	Str  []byte
	HK   []string // hash field order
	H    map[string][]byte
	L    [][]byte
	Set  map[string]bool
	Z    map[string]float64
	Ver  int   // opaque version for the digest rule
	TTL  int64 // -1 none, else static seconds (no clock)
	PTTL bool
}

func NewKeyspace() *Keyspace { return &Keyspace{M: map[string]*Obj{}} }

var wrongType = ErrV("WRONGTYPE Operation against a key holding the wrong kind of value")

func errArgs(cmd string) Value {
	return ErrV("ERR wrong number of arguments for '" + cmd + "' command")
}

var errNotInt = ErrV("ERR value is not an integer or out of range")

func (ks *Keyspace) get(k []byte, t byte) (*Obj, bool, bool) { // obj, exists, typeOK
	o, ok := ks.M[string(k)]
	if !ok {
		return nil, false, true
	}
	return o, true, o.T == t
}

func (ks *Keyspace) ensure(k []byte, t byte) (*Obj, bool) {
	o, ok := ks.M[string(k)]
	if ok {
		return o, o.T == t
	}
	o = &Obj{T: t, TTL: -1}
	switch t {
	case 'h':
		o.H = map[string][]byte{}
	case 'S':
		o.Set = map[string]bool{}
	case 'z':
		o.Z = map[string]float64{}
	}
	ks.M[string(k)] = o
	return o, true
}

func (ks *Keyspace) dropIfEmpty(k []byte) {
	o, ok := ks.M[string(k)]
	if !ok {
		return
	}
	switch o.T {
	case 'h':
		if len(o.H) == 0 {
			delete(ks.M, string(k))
		}
	case 'l':
		if len(o.L) == 0 {
			delete(ks.M, string(k))
		}
	case 'S':
		if len(o.Set) == 0 {
			delete(ks.M, string(k))
		}
	case 'z':
		if len(o.Z) == 0 {
			delete(ks.M, string(k))
		}
	}
}

func cp(b []byte) []byte { return append([]byte{}, b...) }

// Exec executes one command (args[0] is the name, any letter case).
func (ks *Keyspace) Exec(args [][]byte) Value {
	if len(args) == 0 {
		return ErrV("ERR empty command")
	}
	cmd := strings.ToLower(string(args[0]))
	a := args[1:]
	switch cmd {
	case "get":
		if len(a) != 1 {
			return errArgs(cmd)
		}
		o, ex, ok := ks.get(a[0], 's')
		if !ex {
			return NullBulk()
		}
		if !ok {
			return wrongType
		}
		return BulkV(cp(o.Str))
	case "set":
		if len(a) < 2 {
			return errArgs(cmd)
		}
		nx, xx, get := false, false, false
		ttl := int64(-1)
		for i := 2; i < len(a); i++ {
			switch strings.ToLower(string(a[i])) {
			case "get": // Redis 6.2: answer with the old value (nil if there was none)
				get = true
			case "nx":
				nx = true
			case "xx":
				xx = true
			case "ex", "px":
				if i+1 >= len(a) {
					return ErrV("ERR syntax error")
				}
				n, err := strconv.ParseInt(string(a[i+1]), 10, 64)
				if err != nil || n <= 0 {
					return errNotInt
				}
				ttl = n
				i++
			default:
				return ErrV("ERR syntax error")
			}
		}
		oldObj, ex := ks.M[string(a[0])]
		if get && ex && oldObj.T != 's' {
			return wrongType
		}
		var oldVal Value = NullBulk()
		if get && ex {
			oldVal = BulkV(cp(oldObj.Str))
		}
		if (nx && ex) || (xx && !ex) {
			if get {
				return oldVal
			}
			return NullBulk()
		}
		ks.M[string(a[0])] = &Obj{T: 's', Str: cp(a[1]), TTL: ttl}
		if get {
			return oldVal
		}
		return OKV()
	case "setnx":
		if len(a) != 2 {
			return errArgs(cmd)
		}
		if _, ex := ks.M[string(a[0])]; ex {
			return IntV(0)
		}
		ks.M[string(a[0])] = &Obj{T: 's', Str: cp(a[1]), TTL: -1}
		return IntV(1)
	case "setex", "psetex":
		if len(a) != 3 {
			return errArgs(cmd)
		}
		n, err := strconv.ParseInt(string(a[1]), 10, 64)
		if err != nil || n <= 0 {
			return errNotInt
		}
		ks.M[string(a[0])] = &Obj{T: 's', Str: cp(a[2]), TTL: n}
		return OKV()
	case "getset":
		if len(a) != 2 {
			return errArgs(cmd)
		}
		o, ex, ok := ks.get(a[0], 's')
		if ex && !ok {
			return wrongType
		}
		old := NullBulk()
		if ex {
			old = BulkV(cp(o.Str))
		}
		ks.M[string(a[0])] = &Obj{T: 's', Str: cp(a[1]), TTL: -1}
		return old
	case "append":
		if len(a) != 2 {
			return errArgs(cmd)
		}
		o, ok := ks.ensure(a[0], 's')
		if !ok {
			return wrongType
		}
		o.Str = append(o.Str, a[1]...)
		return IntV(int64(len(o.Str)))
	case "strlen":
		if len(a) != 1 {
			return errArgs(cmd)
		}
		o, ex, ok := ks.get(a[0], 's')
		if !ex {
			return IntV(0)
		}
		if !ok {
			return wrongType
		}
		return IntV(int64(len(o.Str)))
	case "incr", "decr", "incrby", "decrby":
		var d int64 = 1
		if cmd == "incrby" || cmd == "decrby" {
			if len(a) != 2 {
				return errArgs(cmd)
			}
			n, err := strconv.ParseInt(string(a[1]), 10, 64)
			if err != nil {
				return errNotInt
			}
			d = n
		} else if len(a) != 1 {
			return errArgs(cmd)
		}
		if cmd == "decr" || cmd == "decrby" {
			d = -d
		}
		o, ex, ok := ks.get(a[0], 's')
		if ex && !ok {
			return wrongType
		}
		var cur int64
		if ex {
			n, err := strconv.ParseInt(string(o.Str), 10, 64)
			if err != nil {
				return errNotInt
			}
			cur = n
		}
		cur += d
		if !ex {
			o = &Obj{T: 's', TTL: -1}
			ks.M[string(a[0])] = o
		}
		o.Str = []byte(strconv.FormatInt(cur, 10))
		return IntV(cur)
	case "del", "unlink":
		if len(a) < 1 {
			return errArgs(cmd)
		}
		var n int64
		for _, k := range a {
			if _, ex := ks.M[string(k)]; ex {
				delete(ks.M, string(k))
				n++
			}
		}
		return IntV(n)
	case "exists", "touch":
		if len(a) < 1 {
			return errArgs(cmd)
		}
		var n int64
		for _, k := range a {
			if _, ex := ks.M[string(k)]; ex {
				n++
			}
		}
		return IntV(n)
	case "type":
		if len(a) != 1 {
			return errArgs(cmd)
		}
		o, ex := ks.M[string(a[0])]
		if !ex {
			return SimpleV("none")
		}
		return SimpleV(map[byte]string{'s': "string", 'h': "hash", 'l': "list", 'S': "set", 'z': "zset", 'x': "string"}[o.T])
	case "expire", "pexpire":
		if len(a) != 2 {
			return errArgs(cmd)
		}
		n, err := strconv.ParseInt(string(a[1]), 10, 64)
		if err != nil {
			return errNotInt
		}
		o, ex := ks.M[string(a[0])]
		if !ex {
			return IntV(0)
		}
		if n <= 0 {
			delete(ks.M, string(a[0]))
			return IntV(1)
		}
		o.TTL = n
		return IntV(1)
	case "persist":
		if len(a) != 1 {
			return errArgs(cmd)
		}
		o, ex := ks.M[string(a[0])]
		if !ex || o.TTL < 0 {
			return IntV(0)
		}
		o.TTL = -1
		return IntV(1)
	case "ttl", "pttl":
		if len(a) != 1 {
			return errArgs(cmd)
		}
		o, ex := ks.M[string(a[0])]
		if !ex {
			return IntV(-2)
		}
		return IntV(o.TTL)
	// ---- hashes
	case "hset", "hmset":
		if len(a) < 3 || len(a)%2 != 1 {
			return errArgs(cmd)
		}
		o, ok := ks.ensure(a[0], 'h')
		if !ok {
			return wrongType
		}
		var added int64
		for i := 1; i < len(a); i += 2 {
			f := string(a[i])
			if _, ex := o.H[f]; !ex {
				o.HK = append(o.HK, f)
				added++
			}
			o.H[f] = cp(a[i+1])
		}
		if cmd == "hmset" {
			return OKV()
		}
		return IntV(added)
	case "hsetnx":
		if len(a) != 3 {
			return errArgs(cmd)
		}
		o, ok := ks.ensure(a[0], 'h')
		if !ok {
			return wrongType
		}
		if _, ex := o.H[string(a[1])]; ex {
			return IntV(0)
		}
		o.HK = append(o.HK, string(a[1]))
		o.H[string(a[1])] = cp(a[2])
		return IntV(1)
	case "hget", "hexists", "hstrlen":
		if len(a) != 2 {
			return errArgs(cmd)
		}
		o, ex, ok := ks.get(a[0], 'h')
		if ex && !ok {
			return wrongType
		}
		var v []byte
		has := false
		if ex {
			v, has = o.H[string(a[1])]
		}
		switch cmd {
		case "hget":
			if !has {
				return NullBulk()
			}
			return BulkV(cp(v))
		case "hexists":
			if has {
				return IntV(1)
			}
			return IntV(0)
		default:
			return IntV(int64(len(v)))
		}
	case "hmget":
		if len(a) < 2 {
			return errArgs(cmd)
		}
		o, ex, ok := ks.get(a[0], 'h')
		if ex && !ok {
			return wrongType
		}
		out := make([]Value, 0, len(a)-1)
		for _, f := range a[1:] {
			if ex {
				if v, has := o.H[string(f)]; has {
					out = append(out, BulkV(cp(v)))
					continue
				}
			}
			out = append(out, NullBulk())
		}
		return ArrV(out...)
	case "hdel":
		if len(a) < 2 {
			return errArgs(cmd)
		}
		o, ex, ok := ks.get(a[0], 'h')
		if !ex {
			return IntV(0)
		}
		if !ok {
			return wrongType
		}
		var n int64
		for _, f := range a[1:] {
			if _, has := o.H[string(f)]; has {
				delete(o.H, string(f))
				for i, k := range o.HK {
					if k == string(f) {
						o.HK = append(o.HK[:i:i], o.HK[i+1:]...)
						break
					}
				}
				n++
			}
		}
		ks.dropIfEmpty(a[0])
		return IntV(n)
	case "hlen", "hgetall", "hkeys", "hvals":
		if len(a) != 1 {
			return errArgs(cmd)
		}
		o, ex, ok := ks.get(a[0], 'h')
		if ex && !ok {
			return wrongType
		}
		if cmd == "hlen" {
			if !ex {
				return IntV(0)
			}
			return IntV(int64(len(o.H)))
		}
		out := []Value{}
		if ex {
			for _, f := range o.HK {
				if cmd != "hvals" {
					out = append(out, BulkS(f))
				}
				if cmd != "hkeys" {
					out = append(out, BulkV(cp(o.H[f])))
				}
			}
		}
		return ArrV(out...)
	case "hscan":
		// HSCAN key cursor [MATCH p] [COUNT n]: a small hash is returned in one page, as Redis does for compact encodings
		if len(a) < 2 {
			return errArgs(cmd)
		}
		o, ex, ok := ks.get(a[0], 'h')
		if ex && !ok {
			return wrongType
		}
		out := []Value{}
		if ex && string(a[1]) == "0" {
			for _, f := range o.HK {
				out = append(out, BulkS(f), BulkV(cp(o.H[f])))
			}
		}
		return ArrV(BulkS("0"), ArrV(out...))
	case "hincrby":
		if len(a) != 3 {
			return errArgs(cmd)
		}
		d, err := strconv.ParseInt(string(a[2]), 10, 64)
		if err != nil {
			return errNotInt
		}
		o, ok := ks.ensure(a[0], 'h')
		if !ok {
			return wrongType
		}
		var cur int64
		if v, has := o.H[string(a[1])]; has {
			n, err := strconv.ParseInt(string(v), 10, 64)
			if err != nil {
				return ErrV("ERR hash value is not an integer")
			}
			cur = n
		} else {
			o.HK = append(o.HK, string(a[1]))
		}
		cur += d
		o.H[string(a[1])] = []byte(strconv.FormatInt(cur, 10))
		return IntV(cur)
	// ---- lists
	case "lpush", "rpush", "lpushx", "rpushx":
		if len(a) < 2 {
			return errArgs(cmd)
		}
		if strings.HasSuffix(cmd, "x") {
			if _, ex := ks.M[string(a[0])]; !ex {
				return IntV(0)
			}
		}
		o, ok := ks.ensure(a[0], 'l')
		if !ok {
			return wrongType
		}
		for _, v := range a[1:] {
			if cmd[0] == 'l' {
				o.L = append([][]byte{cp(v)}, o.L...)
			} else {
				o.L = append(o.L, cp(v))
			}
		}
		return IntV(int64(len(o.L)))
	case "lpop", "rpop":
		if len(a) != 1 {
			return errArgs(cmd)
		}
		o, ex, ok := ks.get(a[0], 'l')
		if !ex {
			return NullBulk()
		}
		if !ok {
			return wrongType
		}
		var v []byte
		if cmd == "lpop" {
			v, o.L = o.L[0], o.L[1:]
		} else {
			v, o.L = o.L[len(o.L)-1], o.L[:len(o.L)-1]
		}
		ks.dropIfEmpty(a[0])
		return BulkV(v)
	case "llen":
		if len(a) != 1 {
			return errArgs(cmd)
		}
		o, ex, ok := ks.get(a[0], 'l')
		if !ex {
			return IntV(0)
		}
		if !ok {
			return wrongType
		}
		return IntV(int64(len(o.L)))
	case "lrange":
		if len(a) != 3 {
			return errArgs(cmd)
		}
		s, e1 := strconv.Atoi(string(a[1]))
		e, e2 := strconv.Atoi(string(a[2]))
		if e1 != nil || e2 != nil {
			return errNotInt
		}
		o, ex, ok := ks.get(a[0], 'l')
		if ex && !ok {
			return wrongType
		}
		out := []Value{}
		if ex {
			n := len(o.L)
			if s < 0 {
				s += n
			}
			if e < 0 {
				e += n
			}
			if s < 0 {
				s = 0
			}
			if e >= n {
				e = n - 1
			}
			for i := s; i <= e; i++ {
				out = append(out, BulkV(cp(o.L[i])))
			}
		}
		return ArrV(out...)
	case "lindex":
		if len(a) != 2 {
			return errArgs(cmd)
		}
		i, err := strconv.Atoi(string(a[1]))
		if err != nil {
			return errNotInt
		}
		o, ex, ok := ks.get(a[0], 'l')
		if ex && !ok {
			return wrongType
		}
		if !ex {
			return NullBulk()
		}
		if i < 0 {
			i += len(o.L)
		}
		if i < 0 || i >= len(o.L) {
			return NullBulk()
		}
		return BulkV(cp(o.L[i]))
	case "rpoplpush":
		if len(a) != 2 {
			return errArgs(cmd)
		}
		o, ex, ok := ks.get(a[0], 'l')
		if !ex {
			return NullBulk()
		}
		if !ok {
			return wrongType
		}
		if d, dex, dok := ks.get(a[1], 'l'); dex && !dok {
			_ = d
			return wrongType
		}
		v := o.L[len(o.L)-1]
		o.L = o.L[:len(o.L)-1]
		ks.dropIfEmpty(a[0])
		d, _ := ks.ensure(a[1], 'l')
		d.L = append([][]byte{v}, d.L...)
		return BulkV(cp(v))
	// ---- sets
	case "sadd", "srem":
		if len(a) < 2 {
			return errArgs(cmd)
		}
		if cmd == "srem" {
			if _, ex := ks.M[string(a[0])]; !ex {
				return IntV(0)
			}
		}
		o, ok := ks.ensure(a[0], 'S')
		if !ok {
			return wrongType
		}
		var n int64
		for _, m := range a[1:] {
			if cmd == "sadd" && !o.Set[string(m)] {
				o.Set[string(m)] = true
				n++
			}
			if cmd == "srem" && o.Set[string(m)] {
				delete(o.Set, string(m))
				n++
			}
		}
		ks.dropIfEmpty(a[0])
		return IntV(n)
	case "scard", "smembers":
		if len(a) != 1 {
			return errArgs(cmd)
		}
		o, ex, ok := ks.get(a[0], 'S')
		if ex && !ok {
			return wrongType
		}
		if cmd == "scard" {
			if !ex {
				return IntV(0)
			}
			return IntV(int64(len(o.Set)))
		}
		if !ex {
			return ArrV()
		}
		return setArr(o.Set)
	case "sismember":
		if len(a) != 2 {
			return errArgs(cmd)
		}
		o, ex, ok := ks.get(a[0], 'S')
		if ex && !ok {
			return wrongType
		}
		if ex && o.Set[string(a[1])] {
			return IntV(1)
		}
		return IntV(0)
	case "sdiff", "sinter", "sunion":
		if len(a) < 1 {
			return errArgs(cmd)
		}
		res := map[string]bool{}
		for i, k := range a {
			o, ex, ok := ks.get(k, 'S')
			if ex && !ok {
				return wrongType
			}
			cur := map[string]bool{}
			if ex {
				cur = o.Set
			}
			switch {
			case i == 0:
				for m := range cur {
					res[m] = true
				}
			case cmd == "sdiff":
				for m := range cur {
					delete(res, m)
				}
			case cmd == "sinter":
				for m := range res {
					if !cur[m] {
						delete(res, m)
					}
				}
			default:
				for m := range cur {
					res[m] = true
				}
			}
		}
		return setArr(res)
	// ---- sorted sets (small subset)
	case "zadd":
		if len(a) < 3 || len(a)%2 != 1 {
			return errArgs(cmd)
		}
		for i := 1; i < len(a); i += 2 {
			if _, err := strconv.ParseFloat(string(a[i]), 64); err != nil {
				return ErrV("ERR value is not a valid float")
			}
		}
		o, ok := ks.ensure(a[0], 'z')
		if !ok {
			return wrongType
		}
		var n int64
		for i := 1; i < len(a); i += 2 {
			f, _ := strconv.ParseFloat(string(a[i]), 64)
			if _, ex := o.Z[string(a[i+1])]; !ex {
				n++
			}
			o.Z[string(a[i+1])] = f
		}
		return IntV(n)
	case "zcard":
		if len(a) != 1 {
			return errArgs(cmd)
		}
		o, ex, ok := ks.get(a[0], 'z')
		if ex && !ok {
			return wrongType
		}
		if !ex {
			return IntV(0)
		}
		return IntV(int64(len(o.Z)))
	case "zscore":
		if len(a) != 2 {
			return errArgs(cmd)
		}
		o, ex, ok := ks.get(a[0], 'z')
		if ex && !ok {
			return wrongType
		}
		if ex {
			if f, has := o.Z[string(a[1])]; has {
				return BulkS(strconv.FormatFloat(f, 'g', 17, 64))
			}
		}
		return NullBulk()
	case "zrem":
		if len(a) < 2 {
			return errArgs(cmd)
		}
		o, ex, ok := ks.get(a[0], 'z')
		if !ex {
			return IntV(0)
		}
		if !ok {
			return wrongType
		}
		var n int64
		for _, m := range a[1:] {
			if _, has := o.Z[string(m)]; has {
				delete(o.Z, string(m))
				n++
			}
		}
		ks.dropIfEmpty(a[0])
		return IntV(n)
	case "zrange":
		if len(a) < 3 {
			return errArgs(cmd)
		}
		s, e1 := strconv.Atoi(string(a[1]))
		e, e2 := strconv.Atoi(string(a[2]))
		if e1 != nil || e2 != nil {
			return errNotInt
		}
		o, ex, ok := ks.get(a[0], 'z')
		if ex && !ok {
			return wrongType
		}
		out := []Value{}
		if ex {
			ms := make([]string, 0, len(o.Z))
			for m := range o.Z {
				ms = append(ms, m)
			}
			sort.Slice(ms, func(i, j int) bool {
				if o.Z[ms[i]] != o.Z[ms[j]] {
					return o.Z[ms[i]] < o.Z[ms[j]]
				}
				return ms[i] < ms[j]
			})
			n := len(ms)
			if s < 0 {
				s += n
			}
			if e < 0 {
				e += n
			}
			if s < 0 {
				s = 0
			}
			if e >= n {
				e = n - 1
			}
			for i := s; i <= e; i++ {
				out = append(out, BulkS(ms[i]))
			}
		}
		return ArrV(out...)
	}
	return ks.digest(cmd, args)
}

func setArr(s map[string]bool) Value {
	ms := make([]string, 0, len(s))
	for m := range s {
		ms = append(ms, m)
	}
	sort.Strings(ms)
	out := make([]Value, len(ms))
	for i, m := range ms {
		out[i] = BulkS(m)
	}
	return ArrV(out...)
}

// digest is the generic rule for every other command name: the reply is a
// deterministic function of the exact argument bytes and a per-key version;
// commands Redis flags as writes bump the version. It checks transport and
// routing, not Redis semantics.
func (ks *Keyspace) digest(cmd string, args [][]byte) Value {
	if len(args) < 2 {
		return errArgs(cmd)
	}
	key := args[1]
	if cmd == "eval" && len(args) >= 4 {
		key = args[3]
	}
	o, ex := ks.M[string(key)]
	ver := 0
	if ex {
		ver = o.Ver
	}
	h := sha256.New()
	for _, a := range args {
		h.Write([]byte(strconv.Itoa(len(a))))
		h.Write([]byte{':'})
		h.Write(bytes.ToLower(a[:0]))
		h.Write(a)
	}
	h.Write([]byte(strconv.Itoa(ver)))
	if ex {
		h.Write([]byte{o.T})
	}
	if IsWrite(cmd) {
		if !ex {
			o = &Obj{T: 'x', TTL: -1}
			ks.M[string(key)] = o
		}
		o.Ver++
	}
	return BulkS("digest:" + hex.EncodeToString(h.Sum(nil)[:12]))
}

// Clone deep-copies a key's object (used when a simulated migration moves a key).
func (o *Obj) Clone() *Obj {
	c := *o
	c.Str = cp(o.Str)
	c.HK = append([]string{}, o.HK...)
	if o.H != nil {
		c.H = map[string][]byte{}
		for k, v := range o.H {
			c.H[k] = cp(v)
		}
	}
	c.L = nil
	for _, v := range o.L {
		c.L = append(c.L, cp(v))
	}
	if o.Set != nil {
		c.Set = map[string]bool{}
		for k := range o.Set {
			c.Set[k] = true
		}
	}
	if o.Z != nil {
		c.Z = map[string]float64{}
		for k, v := range o.Z {
			c.Z[k] = v
		}
	}
	return &c
}

// Dump renders a key's object canonically (for comparing final data).
func (o *Obj) Dump() string {
	var b strings.Builder
	b.WriteByte(o.T)
	b.WriteString(strconv.Itoa(o.Ver))
	b.WriteByte('|')
	b.Write(o.Str)
	for _, f := range o.HK {
		b.WriteString("|" + f + "=")
		b.Write(o.H[f])
	}
	for _, v := range o.L {
		b.WriteString("|")
		b.Write(v)
	}
	if o.Set != nil {
		ms := make([]string, 0, len(o.Set))
		for m := range o.Set {
			ms = append(ms, m)
		}
		sort.Strings(ms)
		b.WriteString("|" + strings.Join(ms, ","))
	}
	if o.Z != nil {
		ms := make([]string, 0, len(o.Z))
		for m, f := range o.Z {
			ms = append(ms, m+"="+strconv.FormatFloat(f, 'g', -1, 64))
		}
		sort.Strings(ms)
		b.WriteString("|" + strings.Join(ms, ","))
	}
	return b.String()
}
