// Package memnet provides in-memory listeners for the proxy's listener layer (through the verif hook
// proc.VerifSetListenFunc): connections whose peers can all vanish at exactly the same instant, thousands of times per
// second - a simultaneity that client sockets closed one after the other never reach. Addresses that were not registered
// are bound by the production function (SO_REUSEPORT listener).
package memnet

import (
	"errors"
	"io"
	"net"
	"sync"
	"time"

	reuseport "github.com/kavu/go_reuseport"
	"github.com/samaritan-proxy/samaritan/proc"
)

var (
	mu        sync.Mutex
	listeners = map[string]*Listener{}
	once      sync.Once
)

// Install makes the proxy's listeners look up their address here first. Idempotent.
func Install() {
	once.Do(func() {
		proc.VerifSetListenFunc(func(network, address string) (net.Listener, error) {
			mu.Lock()
			l := listeners[address]
			mu.Unlock()
			if l != nil {
				return l, nil
			}
			return reuseport.NewReusablePortListener(network, address)
		})
	})
}

// Listener is an in-memory net.Listener.
type Listener struct {
	addr   *net.TCPAddr
	conns  chan net.Conn
	closed chan struct{}
	once   sync.Once
}

// Register creates the listener that a proxy listener bound to ip:port will get.
func Register(ip string, port int) *Listener {
	l := &Listener{addr: &net.TCPAddr{IP: net.ParseIP(ip), Port: port}, conns: make(chan net.Conn, 1024), closed: make(chan struct{})}
	mu.Lock()
	listeners[l.addr.String()] = l
	mu.Unlock()
	return l
}

// Unregister forgets the listener.
func (l *Listener) Unregister() {
	mu.Lock()
	delete(listeners, l.addr.String())
	mu.Unlock()
}

func (l *Listener) Accept() (net.Conn, error) {
	select {
	case c := <-l.conns:
		return c, nil
	case <-l.closed:
		return nil, errors.New("memnet: listener closed")
	}
}

func (l *Listener) Close() error   { l.once.Do(func() { close(l.closed) }); return nil }
func (l *Listener) Addr() net.Addr { return l.addr }

// Closed reports whether the proxy closed the listener.
func (l *Listener) Closed() bool {
	select {
	case <-l.closed:
		return true
	default:
		return false
	}
}

// Conn is the proxy's end of an in-memory connection. It delivers Input once, then blocks until the peer goes away
// (the shared Gone channel is closed: every connection of the group sees EOF at the same instant) or the proxy closes it.
type Conn struct {
	Input    []byte
	Gone     <-chan struct{}
	closed   chan struct{}
	once     sync.Once
	mu       sync.Mutex
	off      int
	Written  int
	remote   *net.TCPAddr
	local    *net.TCPAddr
	ClosedBy chan struct{} // closed when the proxy closed the connection
}

// Dial hands a new connection to the listener's Accept.
func (l *Listener) Dial(input []byte, gone <-chan struct{}, id int) (*Conn, error) {
	c := &Conn{Input: input, Gone: gone, closed: make(chan struct{}), remote: &net.TCPAddr{IP: net.IPv4(127, 0, 0, 1), Port: 1 + id%65000}, local: l.addr}
	c.ClosedBy = c.closed
	select {
	case l.conns <- c:
		return c, nil
	case <-l.closed:
		return nil, errors.New("memnet: listener closed")
	}
}

func (c *Conn) Read(p []byte) (int, error) {
	c.mu.Lock()
	if c.off < len(c.Input) {
		n := copy(p, c.Input[c.off:])
		c.off += n
		c.mu.Unlock()
		return n, nil
	}
	c.mu.Unlock()
	select {
	case <-c.Gone:
		return 0, io.EOF
	case <-c.closed:
		return 0, net.ErrClosed
	}
}

func (c *Conn) Write(p []byte) (int, error) {
	select {
	case <-c.closed:
		return 0, net.ErrClosed
	case <-c.Gone:
		return 0, errors.New("memnet: broken pipe")
	default:
	}
	c.mu.Lock()
	c.Written += len(p)
	c.mu.Unlock()
	return len(p), nil
}

func (c *Conn) Close() error                       { c.once.Do(func() { close(c.closed) }); return nil }
func (c *Conn) LocalAddr() net.Addr                { return c.local }
func (c *Conn) RemoteAddr() net.Addr               { return c.remote }
func (c *Conn) SetDeadline(t time.Time) error      { return nil }
func (c *Conn) SetReadDeadline(t time.Time) error  { return nil }
func (c *Conn) SetWriteDeadline(t time.Time) error { return nil }

// BytesWritten returns how many bytes the proxy wrote to the connection.
func (c *Conn) BytesWritten() int {
	c.mu.Lock()
	defer c.mu.Unlock()
	return c.Written
}
