// Package discsim is an in-process gRPC discovery server (the service of
// pb/api/discovery.proto) for the end-to-end part of C16 / C08: the real
// dynamic source of samaritan (config.New with a DynamicSourceConfig) talks to it
// over a real gRPC connection on loopback.
//
// The server holds the truth (dependency set, configuration and endpoint list
// per service), pushes every change to the streams subscribed to it, answers
// every subscription with the full current state of the service (endpoints: the
// current list as "added" and every endpoint it ever removed as "removed", so a
// client that missed removals while its stream was down converges as well), and
// logs every request per stream. The harness can kill streams, stop and restart
// the whole server on the same (reserved) port.
package discsim

import (
	"sync/atomic"
	"fmt"
	"sort"
	"sync"

	"github.com/samaritan-proxy/samaritan/pb/api"
	"github.com/samaritan-proxy/samaritan/pb/config/service"
	"google.golang.org/grpc"
	"google.golang.org/grpc/codes"
	"google.golang.org/grpc/status"

	"verif/harness/portres"
)

// Scopes of streams.
const (
	Dep      = "dependency"
	Config   = "config"
	Endpoint = "endpoint"
)

// Req is one subscription request as received.
type Req struct {
	Sub   []string `json:"sub,omitempty"`
	Unsub []string `json:"unsub,omitempty"`
}

type stream struct {
	scope  string
	id     int
	kill   chan struct{}
	notify chan struct{}
	outbox []interface{}
	sent   int
	alive  bool
	log    []Req
	subs   map[string]bool
	ambig  map[string]bool // the last request mentioning the name had it in both lists
}

// View is a snapshot of one stream.
type View struct {
	ID     int
	Alive  bool
	Log    []Req
	Subs   map[string]bool
	Ambig  map[string]bool
	Queued int
	Sent   int
}

// Server is the simulated discovery server.
type Server struct {
	KillCode    uint32 // grpc code killed streams end with (see SetKillCode)
	killCodeSet uint32
	mu   sync.Mutex
	port *portres.Port
	Addr string
	gs   *grpc.Server
	up   bool

	deps    map[string]bool
	depTomb map[string]bool
	cfgs    map[string]*service.Config
	eps     map[string][]*service.Endpoint
	epTomb  map[string]map[string]*service.Endpoint

	streams []*stream
	nextID  int

	// ResyncAll: a subscription is answered with removed = every endpoint the service ever had (current ones included) and
	// added = the current list, instead of removed = the endpoints that are gone. The client applies removals first, so both
	// forms converge; only this one also repairs the type of an endpoint that was removed and re-added with another type while
	// the client's stream was down (the store compares endpoints by address).
	ResyncAll bool

	// counters
	Opened map[string]int
}

// New reserves a port; Start must be called to serve.
func New() (*Server, error) {
	p, err := portres.Reserve()
	if err != nil {
		return nil, err
	}
	return &Server{port: p, Addr: p.Addr, deps: map[string]bool{}, depTomb: map[string]bool{}, cfgs: map[string]*service.Config{},
		eps: map[string][]*service.Endpoint{}, epTomb: map[string]map[string]*service.Endpoint{}, Opened: map[string]int{}}, nil
}

// Start begins serving on the reserved port.
func (s *Server) Start() error {
	s.mu.Lock()
	defer s.mu.Unlock()
	if s.up {
		return nil
	}
	lis, err := s.port.Listen()
	if err != nil {
		return err
	}
	gs := grpc.NewServer()
	api.RegisterDiscoveryServiceServer(gs, (*handler)(s))
	s.gs, s.up = gs, true
	go gs.Serve(lis)
	return nil
}

// Stop closes the listener and every connection (streams fail on the client side).
func (s *Server) Stop() {
	s.mu.Lock()
	gs := s.gs
	s.gs, s.up = nil, false
	for _, st := range s.streams {
		st.alive = false
	}
	s.mu.Unlock()
	if gs != nil {
		gs.Stop()
	}
}

// Close stops the server and releases the port.
func (s *Server) Close() {
	s.Stop()
	s.port.Release()
}

// Up reports whether the server is serving.
func (s *Server) Up() bool {
	s.mu.Lock()
	defer s.mu.Unlock()
	return s.up
}

func epKey(e *service.Endpoint) string {
	return fmt.Sprintf("%s:%d", e.GetAddress().GetIp(), e.GetAddress().GetPort())
}

func (s *Server) enqueue(st *stream, m interface{}) {
	st.outbox = append(st.outbox, m)
	select {
	case st.notify <- struct{}{}:
	default:
	}
}

// SetDeps changes the dependency set and pushes the delta (exactly the given lists) to every dependency stream.
func (s *Server) SetDeps(add, rem []string) {
	s.mu.Lock()
	defer s.mu.Unlock()
	resp := &api.DependencyDiscoveryResponse{}
	for _, n := range add {
		s.deps[n] = true
		delete(s.depTomb, n)
		resp.Added = append(resp.Added, &service.Service{Name: n})
	}
	for _, n := range rem {
		if s.deps[n] {
			delete(s.deps, n)
			s.depTomb[n] = true
		}
		resp.Removed = append(resp.Removed, &service.Service{Name: n})
	}
	for _, st := range s.streams {
		if st.alive && st.scope == Dep {
			s.enqueue(st, resp)
		}
	}
}

// SetConfig sets the configuration of a service and pushes it to the streams subscribed to it.
func (s *Server) SetConfig(name string, cfg *service.Config) {
	s.mu.Lock()
	defer s.mu.Unlock()
	s.cfgs[name] = cfg
	for _, st := range s.streams {
		if st.alive && st.scope == Config && st.subs[name] {
			s.enqueue(st, &api.SvcConfigDiscoveryResponse{Updated: map[string]*service.Config{name: cfg}})
		}
	}
}

// UpdateEndpoints folds the delta into the truth (removals, then additions, by address; an address that is present is not
// added again) and pushes exactly the given lists to the streams subscribed to the service.
func (s *Server) UpdateEndpoints(name string, add, rem []*service.Endpoint) {
	s.mu.Lock()
	defer s.mu.Unlock()
	cur := s.eps[name]
	tomb := s.epTomb[name]
	if tomb == nil {
		tomb = map[string]*service.Endpoint{}
		s.epTomb[name] = tomb
	}
	for _, e := range rem {
		for i, x := range cur {
			if epKey(x) == epKey(e) {
				cur = append(cur[:i:i], cur[i+1:]...)
				tomb[epKey(e)] = e
				break
			}
		}
	}
	for _, e := range add {
		dup := false
		for _, x := range cur {
			if epKey(x) == epKey(e) {
				dup = true
			}
		}
		if !dup {
			cur = append(cur, e)
			delete(tomb, epKey(e))
		}
	}
	s.eps[name] = cur
	for _, st := range s.streams {
		if st.alive && st.scope == Endpoint && st.subs[name] {
			s.enqueue(st, &api.SvcEndpointDiscoveryResponse{SvcName: name, Added: add, Removed: rem})
		}
	}
}

// killErr is what the handler of a killed stream returns: the client sees that status (OK: a clean end of stream, io.EOF).
func (s *Server) killErr() error {
	c := codes.Code(atomic.LoadUint32(&s.KillCode))
	if c == codes.OK && atomic.LoadUint32(&s.killCodeSet) == 0 {
		c = codes.Unavailable
	}
	if c == codes.OK {
		return nil
	}
	return status.Error(c, "stream killed by the harness")
}

// SetKillCode chooses the status killed streams end with.
func (s *Server) SetKillCode(c codes.Code) {
	atomic.StoreUint32(&s.KillCode, uint32(c))
	atomic.StoreUint32(&s.killCodeSet, 1)
}

// Kill makes every live stream of the scope fail.
func (s *Server) Kill(scope string) int {
	s.mu.Lock()
	defer s.mu.Unlock()
	n := 0
	for _, st := range s.streams {
		if st.alive && st.scope == scope {
			select {
			case <-st.kill:
			default:
				close(st.kill)
				st.alive = false // from now on it does not count as a stream the client can rely on
				n++
			}
		}
	}
	return n
}

// Deps returns the current dependency set.
func (s *Server) Deps() map[string]bool {
	s.mu.Lock()
	defer s.mu.Unlock()
	r := map[string]bool{}
	for k := range s.deps {
		r[k] = true
	}
	return r
}

// Truth returns the configuration and endpoint list of a service.
func (s *Server) Truth(name string) (*service.Config, []*service.Endpoint) {
	s.mu.Lock()
	defer s.mu.Unlock()
	return s.cfgs[name], append([]*service.Endpoint(nil), s.eps[name]...)
}

// Live returns the views of the live streams of a scope (oldest first).
func (s *Server) Live(scope string) []View {
	s.mu.Lock()
	defer s.mu.Unlock()
	var r []View
	for _, st := range s.streams {
		if st.alive && st.scope == scope {
			r = append(r, s.view(st))
		}
	}
	return r
}

// All returns the views of all streams of a scope ever opened.
func (s *Server) All(scope string) []View {
	s.mu.Lock()
	defer s.mu.Unlock()
	var r []View
	for _, st := range s.streams {
		if st.scope == scope {
			r = append(r, s.view(st))
		}
	}
	return r
}

func (s *Server) view(st *stream) View {
	v := View{ID: st.id, Alive: st.alive, Log: append([]Req(nil), st.log...), Subs: map[string]bool{}, Ambig: map[string]bool{}, Queued: len(st.outbox), Sent: st.sent}
	for k := range st.subs {
		v.Subs[k] = true
	}
	for k := range st.ambig {
		v.Ambig[k] = true
	}
	return v
}

// Idle reports whether no live stream has anything left to send.
func (s *Server) Idle() bool {
	s.mu.Lock()
	defer s.mu.Unlock()
	for _, st := range s.streams {
		if st.alive && len(st.outbox) > 0 {
			return false
		}
	}
	return true
}

func (s *Server) open(scope string) *stream {
	s.mu.Lock()
	defer s.mu.Unlock()
	s.nextID++
	st := &stream{scope: scope, id: s.nextID, kill: make(chan struct{}), notify: make(chan struct{}, 1), alive: true, subs: map[string]bool{}, ambig: map[string]bool{}}
	s.streams = append(s.streams, st)
	s.Opened[scope]++
	if scope == Dep {
		resp := &api.DependencyDiscoveryResponse{}
		var names []string
		for n := range s.deps {
			names = append(names, n)
		}
		sort.Strings(names)
		for _, n := range names {
			resp.Added = append(resp.Added, &service.Service{Name: n})
		}
		names = names[:0]
		for n := range s.depTomb {
			names = append(names, n)
		}
		sort.Strings(names)
		for _, n := range names {
			resp.Removed = append(resp.Removed, &service.Service{Name: n})
		}
		if len(resp.Added)+len(resp.Removed) > 0 {
			s.enqueue(st, resp)
		}
	}
	return st
}

func (s *Server) closeStream(st *stream) {
	s.mu.Lock()
	st.alive = false
	s.mu.Unlock()
}

func (s *Server) pop(st *stream) interface{} {
	s.mu.Lock()
	defer s.mu.Unlock()
	if len(st.outbox) == 0 {
		return nil
	}
	return st.outbox[0]
}

func (s *Server) sentOne(st *stream) {
	s.mu.Lock()
	st.outbox = st.outbox[1:]
	st.sent++
	s.mu.Unlock()
}

// onRequest folds a subscription request and queues the full state of every subscribed name.
func (s *Server) onRequest(st *stream, sub, unsub []string) {
	s.mu.Lock()
	defer s.mu.Unlock()
	st.log = append(st.log, Req{Sub: append([]string(nil), sub...), Unsub: append([]string(nil), unsub...)})
	inSub, inUnsub := map[string]bool{}, map[string]bool{}
	for _, n := range sub {
		inSub[n] = true
	}
	for _, n := range unsub {
		inUnsub[n] = true
		delete(st.subs, n)
		st.ambig[n] = inSub[n]
	}
	var batch *api.SvcConfigDiscoveryResponse
	defer func() {
		if batch != nil {
			s.enqueue(st, batch)
		}
	}()
	for _, n := range sub {
		st.subs[n] = true // a name in both lists is taken as subscribed (the order inside one request is undefined)
		st.ambig[n] = inUnsub[n]
		switch st.scope {
		case Config:
			if c := s.cfgs[n]; c != nil {
				if batch == nil {
					batch = &api.SvcConfigDiscoveryResponse{Updated: map[string]*service.Config{}}
				}
				batch.Updated[n] = c // one response carries the configurations of all names of the request
			}
		case Endpoint:
			resp := &api.SvcEndpointDiscoveryResponse{SvcName: n, Added: append([]*service.Endpoint(nil), s.eps[n]...)}
			var keys []string
			for k := range s.epTomb[n] {
				keys = append(keys, k)
			}
			sort.Strings(keys)
			for _, k := range keys {
				resp.Removed = append(resp.Removed, s.epTomb[n][k])
			}
			if s.ResyncAll {
				resp.Removed = append(resp.Removed, s.eps[n]...)
			}
			if len(resp.Added)+len(resp.Removed) > 0 {
				s.enqueue(st, resp)
			}
		}
	}
}

type handler Server

func (h *handler) run(st *stream, done <-chan struct{}, send func(m interface{}) error) error {
	s := (*Server)(h)
	defer s.closeStream(st)
	for {
		for {
			m := s.pop(st)
			if m == nil {
				break
			}
			select {
			case <-st.kill:
				return s.killErr()
			default:
			}
			if err := send(m); err != nil {
				return err
			}
			s.sentOne(st)
		}
		select {
		case <-st.kill:
			return s.killErr()
		case <-done:
			return status.Error(codes.Canceled, "stream context done")
		case <-st.notify:
		}
	}
}

func (h *handler) StreamDependencies(req *api.DependencyDiscoveryRequest, srv api.DiscoveryService_StreamDependenciesServer) error {
	s := (*Server)(h)
	st := s.open(Dep)
	return h.run(st, srv.Context().Done(), func(m interface{}) error { return srv.Send(m.(*api.DependencyDiscoveryResponse)) })
}

func (h *handler) StreamSvcConfigs(srv api.DiscoveryService_StreamSvcConfigsServer) error {
	s := (*Server)(h)
	st := s.open(Config)
	go func() {
		for {
			req, err := srv.Recv()
			if err != nil {
				return
			}
			s.onRequest(st, req.SvcNamesSubscribe, req.SvcNamesUnsubscribe)
		}
	}()
	return h.run(st, srv.Context().Done(), func(m interface{}) error { return srv.Send(m.(*api.SvcConfigDiscoveryResponse)) })
}

func (h *handler) StreamSvcEndpoints(srv api.DiscoveryService_StreamSvcEndpointsServer) error {
	s := (*Server)(h)
	st := s.open(Endpoint)
	go func() {
		for {
			req, err := srv.Recv()
			if err != nil {
				return
			}
			s.onRequest(st, req.SvcNamesSubscribe, req.SvcNamesUnsubscribe)
		}
	}()
	return h.run(st, srv.Context().Done(), func(m interface{}) error { return srv.Send(m.(*api.SvcEndpointDiscoveryResponse)) })
}
