// Package portres keeps a TCP port reserved for one simulated server across
// stop/start cycles. Checks run as many concurrent processes; if a stopped
// server's port were simply released, the kernel could hand it to a listener of
// another process, and the proxy under test would "reach" a foreign backend.
// The reservation is a bound, never listening SO_REUSEPORT socket: connects are
// refused while no listener of the owner is open, and nobody else can bind it.
package portres

import (
	"context"
	"fmt"
	"math/rand"
	"net"
	"sync"
	"syscall"
	"time"
)

// Port is a reserved loopback port.
type Port struct {
	fd   int
	Port int
	Addr string
}

const soReusePort = 15 // SO_REUSEPORT on linux

func control(network, address string, c syscall.RawConn) error {
	var serr error
	err := c.Control(func(fd uintptr) {
		serr = syscall.SetsockoptInt(int(fd), syscall.SOL_SOCKET, soReusePort, 1)
	})
	if err != nil {
		return err
	}
	return serr
}

// Reserve picks a free loopback port and reserves it.
func Reserve() (*Port, error) {
	fd, err := syscall.Socket(syscall.AF_INET, syscall.SOCK_STREAM|syscall.SOCK_CLOEXEC, 0)
	if err != nil {
		return nil, err
	}
	if err := syscall.SetsockoptInt(fd, syscall.SOL_SOCKET, soReusePort, 1); err != nil {
		syscall.Close(fd)
		return nil, err
	}
	// SO_REUSEADDR as well: a plain net.Listen of the owner (which sets SO_REUSEADDR, not SO_REUSEPORT) can then bind the
	// port too, because the reservation never listens; the kernel still does not hand the port to anyone binding port 0.
	syscall.SetsockoptInt(fd, syscall.SOL_SOCKET, syscall.SO_REUSEADDR, 1)
	// The port comes from a block of ports that belongs to this process alone, below the kernel's ephemeral range
	// (32768-60999 here), and the block is walked round robin. A port the kernel hands out for port 0 - or one drawn from a
	// range all processes share - may have been, a moment ago, the listener of another process whose peers still knock: seen
	// were the health checkers and SCAN iterations of the repository's own tests run by someone else on the machine, and the
	// reconnecting backend clients of proxies that a deliberately broken tree had left unstoppable in another check's process,
	// reaching the simulated nodes of C12, the connection limit of C20 and a non-member backend of C06. Which port is drawn
	// never matters to a property, so this is not part of the seeded run.
	bound := false
	for try := 0; try < blockSize && !bound; try++ {
		p := nextBlockPort()
		if p == 0 {
			break
		}
		sa := &syscall.SockaddrInet4{Port: p, Addr: [4]byte{127, 0, 0, 1}}
		// an explicit port with SO_REUSEPORT is shared with an earlier reservation of this process: probe without options first
		probe, err := syscall.Socket(syscall.AF_INET, syscall.SOCK_STREAM|syscall.SOCK_CLOEXEC, 0)
		if err != nil {
			break
		}
		free := syscall.Bind(probe, sa) == nil
		syscall.Close(probe)
		if free {
			bound = syscall.Bind(fd, sa) == nil
		}
	}
	if !bound {
		sa := &syscall.SockaddrInet4{Port: 0, Addr: [4]byte{127, 0, 0, 1}}
		if err := syscall.Bind(fd, sa); err != nil {
			syscall.Close(fd)
			return nil, err
		}
	}
	got, err := syscall.Getsockname(fd)
	if err != nil {
		syscall.Close(fd)
		return nil, err
	}
	p := got.(*syscall.SockaddrInet4).Port
	return &Port{fd: fd, Port: p, Addr: fmt.Sprintf("127.0.0.1:%d", p)}, nil
}

// Listen opens a listener on the reserved port.
func (p *Port) Listen() (net.Listener, error) {
	lc := net.ListenConfig{Control: control}
	return lc.Listen(context.Background(), "tcp4", p.Addr)
}

// Release gives the port back.
func (p *Port) Release() {
	if p == nil {
		return
	}
	relMu.Lock()
	defer relMu.Unlock()
	if p.fd >= 0 {
		syscall.Close(p.fd)
		p.fd = -1
	}
}

var relMu sync.Mutex

// Blackhole makes connects to the reserved port hang instead of being refused: a listening socket with backlog 0 whose
// accept queue is kept full, so that further SYNs are dropped. The returned function ends it (connects are refused again).
func (p *Port) Blackhole() (func(), error) {
	fd, err := syscall.Socket(syscall.AF_INET, syscall.SOCK_STREAM|syscall.SOCK_CLOEXEC, 0)
	if err != nil {
		return nil, err
	}
	if err := syscall.SetsockoptInt(fd, syscall.SOL_SOCKET, soReusePort, 1); err != nil {
		syscall.Close(fd)
		return nil, err
	}
	if err := syscall.Bind(fd, &syscall.SockaddrInet4{Port: p.Port, Addr: [4]byte{127, 0, 0, 1}}); err != nil {
		syscall.Close(fd)
		return nil, err
	}
	if err := syscall.Listen(fd, 0); err != nil {
		syscall.Close(fd)
		return nil, err
	}
	var fill []net.Conn
	ok := false
	for i := 0; i < 8; i++ {
		c, err := net.DialTimeout("tcp4", p.Addr, 60*time.Millisecond)
		if err != nil {
			ok = true // the queue is full: this connect hung
			break
		}
		fill = append(fill, c)
	}
	end := func() {
		syscall.Close(fd)
		for _, c := range fill {
			c.Close()
		}
	}
	if !ok {
		end()
		return nil, fmt.Errorf("portres: connects to %s still succeed with a full accept queue", p.Addr)
	}
	return end, nil
}

// Port blocks: [blockBase + k*blockSize, +blockSize) for k < blockCount. A process owns a block while it holds the block's
// first port bound (no socket options: exclusive against every other bind); the other ports of the block are handed out
// round robin, so that a port is not used again before the whole block was walked.
const (
	blockBase  = 10240
	blockSize  = 256
	blockCount = 84 // up to 31744
)

var (
	blockMu   sync.Mutex
	blockLock = -1 // fd holding the block, kept for the life of the process
	blockLo   int
	blockNext int
)

func nextBlockPort() int {
	blockMu.Lock()
	defer blockMu.Unlock()
	if blockLock == -1 {
		start := rand.Intn(blockCount)
		for i := 0; i < blockCount && blockLock == -1; i++ {
			lo := blockBase + ((start+i)%blockCount)*blockSize
			fd, err := syscall.Socket(syscall.AF_INET, syscall.SOCK_STREAM|syscall.SOCK_CLOEXEC, 0)
			if err != nil {
				break
			}
			if syscall.Bind(fd, &syscall.SockaddrInet4{Port: lo, Addr: [4]byte{127, 0, 0, 1}}) == nil {
				blockLock, blockLo = fd, lo
			} else {
				syscall.Close(fd)
			}
		}
		if blockLock == -1 {
			blockLock = -2 // every block is taken: ports from the kernel
		}
	}
	if blockLock < 0 {
		return 0
	}
	blockNext = blockNext%(blockSize-1) + 1
	return blockLo + blockNext
}
