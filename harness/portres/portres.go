// Package portres keeps a TCP port reserved for one simulated server across
// stop/start cycles. Checks run as many concurrent processes; if a stopped
// server's port were simply released, the kernel could hand it to a listener of
// another process, and the proxy under test would "reach" a foreign backend.
// The reservation is a bound, never listening SO_REUSEPORT socket: connects are
// refused while no listener of the owner is open, and nobody else can bind it.
package portres

import (
	"context"
	"fmt"
	"net"
	"syscall"
)

// Port is a reserved loopback port.
type Port struct {
	fd   int
	Port int
	Addr string
}

const soReusePort = 15 // SO_REUSEPORT on linux

func control(network, address string, c syscall.RawConn) error {
	var serr error
	err := c.Control(func(fd uintptr) {
		serr = syscall.SetsockoptInt(int(fd), syscall.SOL_SOCKET, soReusePort, 1)
	})
	if err != nil {
		return err
	}
	return serr
}

// Reserve picks a free loopback port and reserves it.
func Reserve() (*Port, error) {
	fd, err := syscall.Socket(syscall.AF_INET, syscall.SOCK_STREAM|syscall.SOCK_CLOEXEC, 0)
	if err != nil {
		return nil, err
	}
	if err := syscall.SetsockoptInt(fd, syscall.SOL_SOCKET, soReusePort, 1); err != nil {
		syscall.Close(fd)
		return nil, err
	}
	sa := &syscall.SockaddrInet4{Port: 0, Addr: [4]byte{127, 0, 0, 1}}
	if err := syscall.Bind(fd, sa); err != nil {
		syscall.Close(fd)
		return nil, err
	}
	got, err := syscall.Getsockname(fd)
	if err != nil {
		syscall.Close(fd)
		return nil, err
	}
	p := got.(*syscall.SockaddrInet4).Port
	return &Port{fd: fd, Port: p, Addr: fmt.Sprintf("127.0.0.1:%d", p)}, nil
}

// Listen opens a listener on the reserved port.
func (p *Port) Listen() (net.Listener, error) {
	lc := net.ListenConfig{Control: control}
	return lc.Listen(context.Background(), "tcp4", p.Addr)
}

// Release gives the port back.
func (p *Port) Release() {
	if p.fd >= 0 {
		syscall.Close(p.fd)
		p.fd = -1
	}
}
