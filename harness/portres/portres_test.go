package portres

import (
	"net"
	"testing"
	"time"
)

func TestReserve(t *testing.T) {
	p, err := Reserve()
	if err != nil {
		t.Fatal(err)
	}
	defer p.Release()
	// refused while no listener
	if c, err := net.DialTimeout("tcp", p.Addr, time.Second); err == nil {
		c.Close()
		t.Fatal("connect succeeded on a reserved, not listening port")
	}
	// below the kernel's ephemeral range, and a second reservation never gets the same port
	if p.Port < 10000 || p.Port >= 32000 {
		t.Fatalf("port %d", p.Port)
	}
	seen := map[int]bool{p.Port: true}
	for i := 0; i < 200; i++ {
		q, err := Reserve()
		if err != nil {
			t.Fatal(err)
		}
		if seen[q.Port] {
			t.Fatalf("port %d reserved twice", q.Port)
		}
		seen[q.Port] = true
		if q.Port/256 != p.Port/256 {
			t.Fatalf("port %d is outside the block of port %d", q.Port, p.Port)
		}
		defer q.Release()
	}
	for i := 0; i < 3; i++ {
		l, err := p.Listen()
		if err != nil {
			t.Fatal(err)
		}
		done := make(chan struct{})
		go func() {
			c, err := l.Accept()
			if err == nil {
				c.Close()
			}
			close(done)
		}()
		c, err := net.DialTimeout("tcp", p.Addr, time.Second)
		if err != nil {
			t.Fatalf("round %d: %v", i, err)
		}
		c.Close()
		<-done
		l.Close()
		if c, err := net.DialTimeout("tcp", p.Addr, time.Second); err == nil {
			c.Close()
			t.Fatal("connect succeeded after the listener was closed")
		}
	}
}
