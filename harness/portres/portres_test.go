package portres

import (
	"net"
	"testing"
	"time"
)

func TestReserve(t *testing.T) {
	p, err := Reserve()
	if err != nil {
		t.Fatal(err)
	}
	defer p.Release()
	// refused while no listener
	if c, err := net.DialTimeout("tcp", p.Addr, time.Second); err == nil {
		c.Close()
		t.Fatal("connect succeeded on a reserved, not listening port")
	}
	// nobody else can listen on it
	if l, err := net.Listen("tcp", p.Addr); err == nil {
		l.Close()
		t.Fatal("a plain listener could bind the reserved port")
	}
	for i := 0; i < 3; i++ {
		l, err := p.Listen()
		if err != nil {
			t.Fatal(err)
		}
		done := make(chan struct{})
		go func() {
			c, err := l.Accept()
			if err == nil {
				c.Close()
			}
			close(done)
		}()
		c, err := net.DialTimeout("tcp", p.Addr, time.Second)
		if err != nil {
			t.Fatalf("round %d: %v", i, err)
		}
		c.Close()
		<-done
		l.Close()
		if c, err := net.DialTimeout("tcp", p.Addr, time.Second); err == nil {
			c.Close()
			t.Fatal("connect succeeded after the listener was closed")
		}
	}
}
