// Package statpurge releases the stats of stopped services. samaritan registers ~6 MB of per-command histograms under
// "service.<name>." for every processor and never deletes them; a check that starts thousands of services in one process
// would otherwise grow without bound. Scopes of a stopped service are deleted when the next service is started (not at
// the stop itself: checks read the final counters of a stopped service).
package statpurge

import (
	"strings"
	"sync"

	"github.com/samaritan-proxy/samaritan/stats"
)

var (
	mu      sync.Mutex
	stopped []string
)

// MarkStopped records that the service finished; its stats are released by the next Sweep.
func MarkStopped(name string) {
	mu.Lock()
	stopped = append(stopped, name)
	mu.Unlock()
}

// Sweep deletes the stats scopes of every service marked as stopped.
func Sweep() {
	mu.Lock()
	names := stopped
	stopped = nil
	mu.Unlock()
	if len(names) == 0 {
		return
	}
	forget(names)
	prefixes := make([]string, len(names))
	for i, n := range names {
		prefixes[i] = "service." + n + "."
	}
	store := stats.Store()
	for _, sc := range store.Scopes() {
		for _, p := range prefixes {
			if strings.HasPrefix(sc.Name(), p) {
				// scopes are reference counted (one per CreateScope call; the harness adds at most one per counter path
				// it reads): a delete of an already deleted scope is a no-op
				for i := 0; i < 64; i++ {
					store.DeleteScope(sc)
				}
				break
			}
		}
	}
}

// Live returns the number of scopes below "service.".
func Live() int {
	n := 0
	for _, sc := range stats.Store().Scopes() {
		if strings.HasPrefix(sc.Name(), "service.") {
			n++
		}
	}
	return n
}

var (
	cmu      sync.Mutex
	counters = map[string]*stats.Counter{}
	gauges   = map[string]*stats.Gauge{}
)

func split(svc, path string) (scope, name string) {
	scope, name = "service."+svc+".", path
	if i := strings.LastIndex(path, "."); i >= 0 {
		scope += path[:i+1]
		name = path[i+1:]
	}
	return
}

// Counter reads the counter "service.<svc>.<path>". The scope is looked up once per path (every lookup takes a reference).
func Counter(svc, path string) uint64 {
	cmu.Lock()
	c := counters[svc+"\x00"+path]
	if c == nil {
		scope, name := split(svc, path)
		c = stats.CreateScope(scope).Counter(name)
		counters[svc+"\x00"+path] = c
	}
	cmu.Unlock()
	return c.Value()
}

// Gauge reads the gauge "service.<svc>.<path>".
func Gauge(svc, path string) uint64 {
	cmu.Lock()
	g := gauges[svc+"\x00"+path]
	if g == nil {
		scope, name := split(svc, path)
		g = stats.CreateScope(scope).Gauge(name)
		gauges[svc+"\x00"+path] = g
	}
	cmu.Unlock()
	return g.Value()
}

func forget(names []string) {
	cmu.Lock()
	for _, n := range names {
		for k := range counters {
			if strings.HasPrefix(k, n+"\x00") {
				delete(counters, k)
			}
		}
		for k := range gauges {
			if strings.HasPrefix(k, n+"\x00") {
				delete(gauges, k)
			}
		}
	}
	cmu.Unlock()
}
