// Package gen holds rapid generators shared by several property packages.
package gen

import (
	"bytes"
	"io"
	"strconv"
	"strings"

	sut "github.com/samaritan-proxy/samaritan/proc/redis"
	"pgregory.net/rapid"

	"verif/harness/ref"
)

// Bytes generates a byte string of a length drawn from lengths biased to the
// decoder's allocator thresholds; long strings are built from a short generated
// block so that generation stays cheap.
func Bytes(t *rapid.T, label string, maxLen int, noLF bool) []byte {
	var n int
	switch rapid.IntRange(0, 19).Draw(t, label+".lenclass") {
	case 0:
		n = 0
	case 1:
		n = rapid.SampledFrom([]int{510, 511, 512, 513, 8190, 8191, 8192, 8193, 4094, 4095, 4096, 4097, 31, 32, 33}).Draw(t, label+".edge")
	case 2:
		n = rapid.IntRange(0, maxLen).Draw(t, label+".len")
	default:
		n = rapid.IntRange(0, 24).Draw(t, label+".len")
	}
	if n > maxLen {
		n = maxLen
	}
	var b []byte
	if n <= 32 {
		b = rapid.SliceOfN(rapid.Byte(), n, n).Draw(t, label+".b")
	} else {
		blk := rapid.SliceOfN(rapid.Byte(), 1, 23).Draw(t, label+".blk")
		b = bytes.Repeat(blk, n/len(blk)+1)[:n]
		// plant a few special bytes
		k := rapid.IntRange(0, 3).Draw(t, label+".plants")
		for i := 0; i < k; i++ {
			b[rapid.IntRange(0, n-1).Draw(t, label+".pos")] = rapid.SampledFrom([]byte{'\r', '\n', 0, '$', '*', ' '}).Draw(t, label+".ch")
		}
	}
	if noLF {
		for i := range b {
			if b[i] == '\n' {
				b[i] = 'n'
			}
		}
	}
	return b
}

// Int64 generates integers biased to the encoder's table edges and the 64-bit limits.
func Int64(t *rapid.T, label string) int64 {
	switch rapid.IntRange(0, 5).Draw(t, label+".class") {
	case 0:
		return rapid.Int64Range(-129, 32769).Draw(t, label)
	case 1:
		return rapid.SampledFrom([]int64{0, 1, -1, 9, 10, -9, -10, 99, 100, 32767, 32768, 32769, -128, -129, 999999999, 1000000000, -999999999,
			-1000000000, 9999999999, 1 << 31, 1<<31 - 1, -(1 << 31), 1<<63 - 1, -(1 << 63), 1<<63 - 2, -(1 << 63) + 1}).Draw(t, label)
	case 2:
		p := int64(1)
		k := rapid.IntRange(0, 18).Draw(t, label+".pow")
		for i := 0; i < k; i++ {
			p *= 10
		}
		return p*rapid.SampledFrom([]int64{1, -1}).Draw(t, label+".sign") + rapid.Int64Range(-1, 1).Draw(t, label+".d")
	default:
		return rapid.Int64().Draw(t, label)
	}
}

// Value generates a RESP value of nesting depth <= depth.
func Value(t *rapid.T, label string, depth, maxBulk, maxWidth int) ref.Value {
	hi := 6
	if depth <= 0 {
		hi = 4
	}
	switch rapid.IntRange(0, hi).Draw(t, label+".kind") {
	case 0:
		return ref.Value{K: ref.Simple, S: Bytes(t, label+".s", min(maxBulk, 9000), true)}
	case 1:
		return ref.Value{K: ref.Err, S: Bytes(t, label+".e", min(maxBulk, 9000), true)}
	case 2:
		return ref.IntV(Int64(t, label+".i"))
	case 3:
		if rapid.IntRange(0, 7).Draw(t, label+".null") == 0 {
			return ref.NullBulk()
		}
		return ref.BulkV(Bytes(t, label+".b", maxBulk, false))
	case 4:
		return ref.BulkV(Bytes(t, label+".b", maxBulk, false))
	default:
		switch rapid.IntRange(0, 9).Draw(t, label+".acls") {
		case 0:
			return ref.NullArr()
		case 1:
			return ref.ArrV()
		}
		w := rapid.IntRange(1, maxWidth).Draw(t, label+".w")
		if rapid.IntRange(0, 3).Draw(t, label+".narrow") != 0 && w > 4 {
			w = 1 + w%4
		}
		vs := make([]ref.Value, w)
		for i := range vs {
			vs[i] = Value(t, label+".a", depth-1, maxBulk/2+1, maxWidth/2+1)
		}
		return ref.ArrV(vs...)
	}
}

func min(a, b int) int {
	if a < b {
		return a
	}
	return b
}

// Depth returns the nesting depth of v (scalars 0, arrays 1+).
func Depth(v ref.Value) int {
	if v.K != ref.Arr {
		return 0
	}
	d := 0
	for _, e := range v.A {
		if x := Depth(e); x > d {
			d = x
		}
	}
	return d + 1
}

// ToSUT converts a reference value to the proxy's RespValue.
func ToSUT(v ref.Value) *sut.RespValue {
	r := &sut.RespValue{Type: sut.RespType(v.K)}
	switch v.K {
	case ref.Int:
		r.Int = v.N
	case ref.Arr:
		if !v.Null {
			r.Array = make([]sut.RespValue, len(v.A))
			for i := range v.A {
				r.Array[i] = *ToSUT(v.A[i])
			}
		}
	case ref.Bulk:
		if !v.Null {
			r.Text = append([]byte{}, v.S...)
		}
	default:
		r.Text = append([]byte{}, v.S...)
	}
	return r
}

// FromSUT converts the proxy's RespValue to a reference value (nil Text/Array of a
// bulk string/array mean null, as in the proxy's own encoder).
func FromSUT(r *sut.RespValue) ref.Value {
	if r == nil {
		return ref.Value{K: 0}
	}
	v := ref.Value{K: ref.Kind(r.Type)}
	switch v.K {
	case ref.Int:
		v.N = r.Int
	case ref.Arr:
		if r.Array == nil {
			v.Null = true
		} else {
			v.A = make([]ref.Value, len(r.Array))
			for i := range r.Array {
				v.A[i] = FromSUT(&r.Array[i])
			}
		}
	case ref.Bulk:
		if r.Text == nil {
			v.Null = true
		} else {
			v.S = append([]byte{}, r.Text...)
		}
	default:
		v.S = append([]byte{}, r.Text...)
	}
	return v
}

// Chunks generates a partition of n bytes into reads (each >= 1 byte), given the
// stream so cuts can be biased to inside CR LF pairs and length lines.
func Chunks(t *rapid.T, label string, stream []byte) []int {
	n := len(stream)
	if n == 0 {
		return nil
	}
	switch rapid.IntRange(0, 5).Draw(t, label+".mode") {
	case 0:
		return []int{n}
	case 1:
		if n <= 4096 {
			c := make([]int, n)
			for i := range c {
				c[i] = 1
			}
			return c
		}
		fallthrough
	case 2:
		// cut after every CR (splits every CRLF) plus a few random cuts
		var cuts []int
		for i, b := range stream {
			if b == '\r' && i+1 < n && len(cuts) < 4000 {
				cuts = append(cuts, i+1)
			}
		}
		return cutsToChunks(cuts, n)
	default:
		k := rapid.IntRange(1, 12).Draw(t, label+".k")
		cuts := make([]int, 0, k)
		for i := 0; i < k; i++ {
			if n > 1 {
				c := rapid.IntRange(1, n-1).Draw(t, label+".cut")
				// bias: snap to just after the nearest CR at or after c
				if rapid.Bool().Draw(t, label+".snap") {
					if j := bytes.IndexByte(stream[c:], '\r'); j >= 0 && c+j+1 < n {
						c = c + j + 1
					}
				}
				cuts = append(cuts, c)
			}
		}
		return cutsToChunks(cuts, n)
	}
}

func cutsToChunks(cuts []int, n int) []int {
	seen := map[int]bool{}
	var cs []int
	for _, c := range cuts {
		if c > 0 && c < n && !seen[c] {
			seen[c] = true
			cs = append(cs, c)
		}
	}
	// insertion sort (small)
	for i := 1; i < len(cs); i++ {
		for j := i; j > 0 && cs[j] < cs[j-1]; j-- {
			cs[j], cs[j-1] = cs[j-1], cs[j]
		}
	}
	var out []int
	prev := 0
	for _, c := range cs {
		out = append(out, c-prev)
		prev = c
	}
	out = append(out, n-prev)
	return out
}

// ChunkReader delivers data in the given chunk sizes, one chunk per Read (split
// further when the caller's buffer is smaller), then io.EOF by a separate Read —
// like a net.Conn, it never returns data together with EOF nor 0 bytes without error.
type ChunkReader struct {
	Data   []byte
	Chunks []int
	Reads  int
	off    int
	ci     int
	left   int
}

func (c *ChunkReader) Read(p []byte) (int, error) {
	if len(p) == 0 {
		return 0, nil
	}
	if c.left == 0 {
		if c.off >= len(c.Data) {
			return 0, io.EOF
		}
		if c.ci < len(c.Chunks) {
			c.left = c.Chunks[c.ci]
			c.ci++
		} else {
			c.left = len(c.Data) - c.off
		}
	}
	n := c.left
	if n > len(p) {
		n = len(p)
	}
	if n > len(c.Data)-c.off {
		n = len(c.Data) - c.off
	}
	copy(p, c.Data[c.off:c.off+n])
	c.off += n
	c.left -= n
	c.Reads++
	return n, nil
}

// HostileInt draws the decimal text of an integer a handler may parse: half of the draws sit within 3 of a limit of a 64-bit
// (or 63-, 48-, 32-, 31-, 16-bit) integer, the others are small, negative, signed-with-plus, over-long or not a number at all.
func HostileInt(t *rapid.T, label string) string {
	switch rapid.IntRange(0, 9).Draw(t, label+".cls") {
	case 0, 1, 2:
		// int64 limits
		base := rapid.SampledFrom([]string{"max", "min", "2^63", "2^64"}).Draw(t, label+".edge")
		d := uint64(rapid.IntRange(0, 3).Draw(t, label+".d"))
		switch base {
		case "max":
			return strconv.FormatUint(uint64(1<<63-1)-d, 10)
		case "min":
			return "-" + strconv.FormatUint(uint64(1<<63)-d, 10)
		case "2^63":
			return strconv.FormatUint(uint64(1<<63)+d, 10)
		default:
			if d == 0 {
				return "18446744073709551616"
			}
			return strconv.FormatUint(^uint64(0)-d+1, 10)
		}
	case 3, 4:
		bits := rapid.SampledFrom([]uint{15, 16, 31, 32, 47, 48, 62}).Draw(t, label+".bits")
		d := int64(rapid.IntRange(-3, 3).Draw(t, label+".d"))
		v := int64(1)<<bits + d
		if rapid.Bool().Draw(t, label+".neg") {
			v = -v
		}
		return strconv.FormatInt(v, 10)
	case 5, 6:
		return strconv.Itoa(rapid.IntRange(-3, 12).Draw(t, label+".small"))
	case 7:
		return rapid.SampledFrom([]string{"+1", "-0", "00", "1e3", "0x10", " 1", "1 ", "", "-", "+", "１"}).Draw(t, label+".odd")
	case 8:
		return strings.Repeat("9", rapid.IntRange(19, 40).Draw(t, label+".len"))
	default:
		return rapid.StringMatching(`-?[0-9]{1,19}`).Draw(t, label+".digits")
	}
}
