package gen

import (
	"bytes"
	"fmt"
	"strconv"
	"strings"

	"pgregory.net/rapid"

	"verif/harness/ref"
)

// KeyPool generates keys private to one connection.
type KeyPool struct {
	Conn int
	Keys [][]byte
}

// NewKeyPool draws n keys: plain, with hash tags, with control bytes, empty-ish.
func NewKeyPool(t *rapid.T, conn, n int, binary bool) *KeyPool {
	p := &KeyPool{Conn: conn}
	for i := 0; i < n; i++ {
		var k []byte
		switch rapid.IntRange(0, 7).Draw(t, "keycls") {
		case 0: // hash tag
			k = []byte(fmt.Sprintf("{c%dt%d}k%d", conn, rapid.IntRange(0, 2).Draw(t, "tag"), i))
		case 1:
			k = []byte(fmt.Sprintf("c%d:{}x{t%d}%d", conn, i, i))
		case 4:
			// arbitrary brace placements: '}' before the first '{', nested and unbalanced braces
			k = append([]byte(fmt.Sprintf("c%d:%d", conn, i)), []byte(rapid.StringMatching(`[{}ab]{1,8}`).Draw(t, "braces"))...)
		case 2:
			if binary {
				k = append([]byte(fmt.Sprintf("c%d:", conn)), rapid.SliceOfN(rapid.Byte(), 0, 12).Draw(t, "kb")...)
				k = append(k, byte('0'+i))
				break
			}
			fallthrough
		case 3:
			if binary {
				k = []byte(fmt.Sprintf("c%d:\r\n%d\x00}{", conn, i))
				break
			}
			fallthrough
		default:
			k = []byte(fmt.Sprintf("c%d:key%d", conn, rapid.IntRange(0, 9999).Draw(t, "kn")*100+i))
		}
		p.Keys = append(p.Keys, k)
	}
	return p
}

func (p *KeyPool) pick(t *rapid.T) []byte {
	return p.Keys[rapid.IntRange(0, len(p.Keys)-1).Draw(t, "ki")]
}

// sameTag returns n keys sharing one hash tag (for multi-key commands that are not split).
func (p *KeyPool) sameTag(t *rapid.T, n int) [][]byte {
	tag := fmt.Sprintf("{c%dm%d}", p.Conn, rapid.IntRange(0, 2).Draw(t, "mtag"))
	ks := make([][]byte, n)
	for i := range ks {
		ks[i] = []byte(tag + strconv.Itoa(rapid.IntRange(0, 3).Draw(t, "mk")))
	}
	return ks
}

// ValueBytes generates a value: small, or binary, or large.
func ValueBytes(t *rapid.T, maxLen int) []byte {
	switch rapid.IntRange(0, 11).Draw(t, "vcls") {
	case 0:
		return []byte{}
	case 1:
		return []byte(strconv.Itoa(rapid.IntRange(-1000, 1000).Draw(t, "vint")))
	case 2:
		return Bytes(t, "vbin", maxLen, false)
	case 3:
		return []byte("line1\r\nline2\x00{tag}$5\r\n")
	default:
		return []byte(rapid.StringMatching(`[a-z0-9]{1,12}`).Draw(t, "vs"))
	}
}

var digestNames = func() []string {
	implemented := map[string]bool{}
	for _, n := range strings.Fields(`get set setnx setex psetex getset append strlen incr decr incrby decrby del unlink exists touch type
	expire pexpire persist ttl pttl hset hmset hsetnx hget hexists hstrlen hmget hdel hlen hgetall hkeys hvals hincrby lpush rpush lpushx rpushx
	lpop rpop llen lrange lindex rpoplpush sadd srem scard smembers sismember sdiff sinter sunion zadd zcard zscore zrem zrange
	mget mset eval scan`) {
		implemented[n] = true
	}
	var r []string
	for _, n := range ref.Forwarded {
		if !implemented[n] {
			r = append(r, n)
		}
	}
	return r
}()

func caseMix(t *rapid.T, s string) []byte {
	switch rapid.IntRange(0, 3).Draw(t, "case") {
	case 0:
		return []byte(strings.ToUpper(s))
	case 1:
		b := []byte(s)
		for i := range b {
			if rapid.Bool().Draw(t, "up") {
				b[i] = bytes.ToUpper(b[i : i+1])[0]
			}
		}
		return b
	}
	return []byte(s)
}

// Command generates one client command over the pool. maxVal bounds value sizes.
func Command(t *rapid.T, p *KeyPool, maxVal int) [][]byte {
	b := func(s string) []byte { return []byte(s) }
	k := p.pick(t)
	v := func() []byte { return ValueBytes(t, maxVal) }
	n := func(lo, hi int) []byte { return b(strconv.Itoa(rapid.IntRange(lo, hi).Draw(t, "n"))) }
	var args [][]byte
	switch rapid.IntRange(0, 44).Draw(t, "cmd") {
	case 0, 1, 2:
		args = [][]byte{b("get"), k}
	case 3, 4, 5:
		args = [][]byte{b("set"), k, v()}
		switch rapid.IntRange(0, 5).Draw(t, "setopt") {
		case 0:
			args = append(args, b("EX"), n(1, 1000))
		case 1:
			args = append(args, b("NX"))
		case 2:
			args = append(args, b("XX"))
		}
	case 6:
		args = [][]byte{b("append"), k, v()}
	case 7:
		args = [][]byte{b(rapid.SampledFrom([]string{"incr", "decr"}).Draw(t, "id")), k}
	case 8:
		args = [][]byte{b(rapid.SampledFrom([]string{"incrby", "decrby"}).Draw(t, "idb")), k, n(-50, 50)}
	case 9:
		args = [][]byte{b(rapid.SampledFrom([]string{"strlen", "type", "ttl", "pttl", "persist", "llen", "scard", "zcard", "hlen", "hgetall", "hkeys", "hvals", "smembers", "lpop", "rpop"}).Draw(t, "un")), k}
	case 10, 11:
		cnt := rapid.IntRange(1, 8).Draw(t, "mgetn")
		args = [][]byte{b("mget")}
		for i := 0; i < cnt; i++ {
			args = append(args, p.pick(t))
		}
	case 12, 13:
		cnt := rapid.IntRange(1, 6).Draw(t, "msetn")
		args = [][]byte{b("mset")}
		for i := 0; i < cnt; i++ {
			args = append(args, p.pick(t), v())
		}
	case 14, 15:
		cnt := rapid.IntRange(1, 6).Draw(t, "sumn")
		args = [][]byte{b(rapid.SampledFrom([]string{"del", "exists", "touch", "unlink"}).Draw(t, "sum"))}
		for i := 0; i < cnt; i++ {
			args = append(args, p.pick(t))
		}
	case 16:
		args = [][]byte{b("getset"), k, v()}
	case 17:
		args = [][]byte{b("setnx"), k, v()}
	case 18:
		args = [][]byte{b(rapid.SampledFrom([]string{"setex", "psetex"}).Draw(t, "sx")), k, n(1, 5000), v()}
	case 19:
		args = [][]byte{b("expire"), k, n(1, 500)}
	case 20, 21:
		args = [][]byte{b("hset"), k, v(), v()}
	case 22:
		args = [][]byte{b("hmset"), k}
		for i, c := 0, rapid.IntRange(1, 4).Draw(t, "hm"); i < c; i++ {
			args = append(args, v(), v())
		}
	case 23:
		args = [][]byte{b(rapid.SampledFrom([]string{"hget", "hexists", "hstrlen", "hdel"}).Draw(t, "h1")), k, v()}
	case 24:
		args = [][]byte{b("hmget"), k, v(), v()}
	case 25:
		args = [][]byte{b("hincrby"), k, v(), n(-9, 9)}
	case 26, 27:
		args = [][]byte{b(rapid.SampledFrom([]string{"lpush", "rpush", "lpushx", "rpushx"}).Draw(t, "lp")), k, v()}
		if rapid.Bool().Draw(t, "two") {
			args = append(args, v())
		}
	case 28:
		args = [][]byte{b("lrange"), k, n(-5, 5), n(-5, 10)}
	case 29:
		args = [][]byte{b("lindex"), k, n(-5, 5)}
	case 30, 31:
		args = [][]byte{b(rapid.SampledFrom([]string{"sadd", "srem"}).Draw(t, "sa")), k, v()}
		if rapid.Bool().Draw(t, "two") {
			args = append(args, v())
		}
	case 32:
		args = [][]byte{b("sismember"), k, v()}
	case 33:
		ks := p.sameTag(t, rapid.IntRange(1, 3).Draw(t, "mkn"))
		args = append([][]byte{b(rapid.SampledFrom([]string{"sdiff", "sinter", "sunion"}).Draw(t, "sop"))}, ks...)
	case 34:
		ks := p.sameTag(t, 2)
		args = [][]byte{b("rpoplpush"), ks[0], ks[1]}
	case 35:
		args = [][]byte{b("zadd"), k, n(-100, 100), v()}
	case 36:
		args = [][]byte{b(rapid.SampledFrom([]string{"zscore", "zrem"}).Draw(t, "z1")), k, v()}
	case 37:
		args = [][]byte{b("zrange"), k, n(-3, 3), n(-3, 9)}
	case 38:
		// the multi-key same-slot writes of the executor
		ks := p.sameTag(t, 2)
		args = [][]byte{b("sadd"), ks[0], v()}
	case 39, 40, 41:
		// every other forwarded name through the digest rule
		name := rapid.SampledFrom(digestNames).Draw(t, "dname")
		args = [][]byte{b(name), k}
		for i, c := 0, rapid.IntRange(0, 3).Draw(t, "dargs"); i < c; i++ {
			args = append(args, v())
		}
	case 42:
		ks := p.sameTag(t, 2)
		args = [][]byte{b("eval"), b("return redis.call('get', KEYS[1])"), b("2"), ks[0], ks[1], v()}
	case 43:
		// wrong arity
		args = [][]byte{b(rapid.SampledFrom([]string{"get", "set", "mset", "hset", "incrby", "mget", "del", "eval", "lrange"}).Draw(t, "bad"))}
		for i, c := 0, rapid.IntRange(0, 3).Draw(t, "badn"); i < c; i++ {
			args = append(args, p.pick(t))
		}
	default:
		switch rapid.IntRange(0, 3).Draw(t, "local") {
		case 0:
			args = [][]byte{b("ping")}
		case 1:
			args = [][]byte{b("select"), b("0")}
		case 2:
			args = [][]byte{b("time")}
		default:
			args = [][]byte{b("info")}
		}
	}
	args[0] = caseMix(t, string(args[0]))
	return args
}
