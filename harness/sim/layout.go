package sim

import (
	"bytes"
	"fmt"
	"strings"

	"verif/harness/ref"
)

// Layout describes a generated slot-to-node layout.
type Layout struct {
	Masters  int    `json:"masters"`
	Replicas int    `json:"replicas"`
	Kind     string `json:"kind"` // even, striped, random, ranges
	Seed     uint64 `json:"seed"`
}

// Apply assigns the slots of w (whose first Masters nodes are the masters) per the layout.
func (l Layout) Apply(w *World) {
	m := l.Masters
	x := l.Seed | 1
	next := func() uint64 {
		x ^= x << 13
		x ^= x >> 7
		x ^= x << 17
		return x
	}
	switch l.Kind {
	case "striped":
		w.AssignFunc(func(s int) int { return s % m })
	case "random":
		w.AssignFunc(func(s int) int { return int(next() % uint64(m)) })
	case "ranges":
		// random cut points, every master gets at least one slot
		cur := 0
		owner := make([]int, NumSlots)
		for s := 0; s < NumSlots; s++ {
			if next()%997 == 0 {
				cur = int(next() % uint64(m))
			}
			owner[s] = cur
		}
		for i := 0; i < m; i++ {
			owner[int(next()%NumSlots)] = i
		}
		w.AssignFunc(func(s int) int { return owner[s] })
	default:
		ms := make([]int, m)
		for i := range ms {
			ms[i] = i
		}
		w.AssignEven(ms)
	}
	// every master owns at least one slot
	w.mu.Lock()
	have := map[int]bool{}
	for _, o := range w.owner {
		have[o] = true
	}
	for i := 0; i < m; i++ {
		if !have[i] {
			w.owner[i] = i
		}
	}
	w.mu.Unlock()
}

// NewLayoutWorld creates a world for the layout.
func NewLayoutWorld(l Layout) (*World, error) {
	w, err := NewWorld(l.Masters, l.Replicas)
	if err != nil {
		return nil, err
	}
	l.Apply(w)
	return w, nil
}

// SameReply compares a proxy reply with the reference reply: error replies are
// compared as being errors (the proxy words its own errors), everything else exactly.
func SameReply(got, want ref.Value) bool {
	if want.K == ref.Err || got.K == ref.Err {
		return want.K == ref.Err && got.K == ref.Err
	}
	if got.K != want.K || got.Null != want.Null {
		return false
	}
	switch got.K {
	case ref.Int:
		return got.N == want.N
	case ref.Arr:
		if len(got.A) != len(want.A) {
			return false
		}
		for i := range got.A {
			if !SameReply(got.A[i], want.A[i]) {
				return false
			}
		}
		return true
	default:
		return bytes.Equal(got.S, want.S)
	}
}

// BackendCmd is a command expected to arrive at a backend.
type BackendCmd struct {
	Args [][]byte
	Key  []byte
}

// Expect computes, for one client command, the reference reply (executing it on ks,
// with the split commands defined as their per-key commands combined in argument
// order) and the commands expected at backends. local reports commands the proxy
// answers itself (no reference reply: shape-checked by the caller).
func Expect(ks *ref.Keyspace, args [][]byte) (reply ref.Value, backend []BackendCmd, local bool) {
	if len(args) == 0 {
		return ref.ErrV("invalid request"), nil, false
	}
	cmd := strings.ToLower(string(args[0]))
	switch cmd {
	case "ping", "quit", "select", "info", "time", "hotkey":
		return ref.Value{}, nil, true
	}
	if !ref.Supported(cmd) {
		return ref.ErrV("unsupported"), nil, false
	}
	switch cmd {
	case "mget":
		if len(args) < 2 {
			return ref.ErrV("invalid request"), nil, false
		}
		out := make([]ref.Value, 0, len(args)-1)
		for _, k := range args[1:] {
			c := [][]byte{[]byte("get"), k}
			out = append(out, ks.Exec(c))
			backend = append(backend, BackendCmd{c, k})
		}
		return ref.ArrV(out...), backend, false
	case "mset":
		if len(args) == 1 || len(args)%2 != 1 {
			return ref.ErrV("invalid request"), nil, false
		}
		for i := 1; i < len(args); i += 2 {
			c := [][]byte{[]byte("set"), args[i], args[i+1]}
			ks.Exec(c)
			backend = append(backend, BackendCmd{c, args[i]})
		}
		return ref.OKV(), backend, false
	case "del", "exists", "touch", "unlink":
		if len(args) < 2 {
			return ref.ErrV("invalid request"), nil, false
		}
		var sum int64
		for _, k := range args[1:] {
			c := [][]byte{args[0], k}
			r := ks.Exec(c)
			sum += r.N
			backend = append(backend, BackendCmd{c, k})
		}
		return ref.IntV(sum), backend, false
	case "eval":
		if len(args) < 4 {
			return ref.ErrV("invalid request"), nil, false
		}
		return ks.Exec(args), []BackendCmd{{args, args[3]}}, false
	case "scan":
		return ref.Value{}, nil, true
	}
	if len(args) < 2 {
		return ref.ErrV("invalid request"), nil, false
	}
	return ks.Exec(args), []BackendCmd{{args, args[1]}}, false
}

// CheckLocal shape-checks the reply of a command the proxy answers itself.
func CheckLocal(args [][]byte, got ref.Value) string {
	switch strings.ToLower(string(args[0])) {
	case "ping":
		if !ref.Equal(got, ref.SimpleV("PONG")) {
			return fmt.Sprintf("PING answered %s", got)
		}
	case "quit", "select":
		if !ref.Equal(got, ref.OKV()) {
			return fmt.Sprintf("%s answered %s", args[0], got)
		}
	case "time":
		if got.K != ref.Arr || len(got.A) != 2 || got.A[0].K != ref.Bulk || got.A[1].K != ref.Bulk {
			return fmt.Sprintf("TIME answered %s", got)
		}
	case "info", "hotkey":
		if got.K != ref.Bulk || got.Null {
			return fmt.Sprintf("%s answered %s", args[0], got)
		}
	}
	return ""
}

// ArgsKey joins arguments unambiguously (for multiset comparison of logs).
func ArgsKey(node int, args [][]byte) string {
	var b strings.Builder
	fmt.Fprintf(&b, "%d", node)
	for _, a := range args {
		fmt.Fprintf(&b, "|%d:", len(a))
		b.Write(a)
	}
	return b.String()
}

// IsBackground reports log entries that are not client traffic.
func IsBackground(e *Entry) bool {
	if len(e.Args) == 0 {
		return true
	}
	switch strings.ToLower(string(e.Args[0])) {
	case "cluster", "readonly", "asking":
		return true
	}
	return false
}
