package sim

import (
	"errors"
	"fmt"
	"net"
	"sync/atomic"
	"time"

	"github.com/samaritan-proxy/samaritan/host"
	"github.com/samaritan-proxy/samaritan/pb/common"
	"github.com/samaritan-proxy/samaritan/pb/config/protocol"
	redispb "github.com/samaritan-proxy/samaritan/pb/config/protocol/redis"
	"github.com/samaritan-proxy/samaritan/pb/config/service"
	"github.com/samaritan-proxy/samaritan/proc"
	_ "github.com/samaritan-proxy/samaritan/proc/redis" // register the redis processor
	sutredis "github.com/samaritan-proxy/samaritan/proc/redis"

	"verif/harness/portres"
	"verif/harness/ref"
	"verif/harness/statpurge"
)

var svcCounter int64

// ProxyOpts configures the proxy under test.
type ProxyOpts struct {
	ReadStrategy   redispb.ReadStrategy
	Compression    *redispb.Compression
	ConnectTimeout time.Duration
	ConnLimit      uint32
	Seeds          []string // seed host addresses
	BackupSeeds    []string // further hosts of type Backup
	Name           string
}

// Proxy is a real samaritan redis processor created through the public API.
type Proxy struct {
	P    proc.Proc
	Name string
	Addr string
	Cfg  *service.Config
	res  *portres.Port
}

func init() {
	// table loading and retries take milliseconds instead of 5 s; the periodic refresh runs every 50 ms instead of 2 min
	sutredis.VerifSetSlotsRefreshTimers(50*time.Millisecond, 5*time.Millisecond)
}

// SetRefreshTimers overrides the proxy's slot refresh timers (period, minimum spacing).
func SetRefreshTimers(freq, minRate time.Duration) (time.Duration, time.Duration) {
	return sutredis.VerifSetSlotsRefreshTimers(freq, minRate)
}

// ProductionRefreshRate runs the periodic slot refresh at its production rate (2 min, spacing 5 s) until the returned function
// is called. For checks on a cluster whose layout never changes: a CLUSTER NODES request every 50 ms on a random backend
// connection flushes whatever an earlier request left behind there and would hide a stuck reply.
func ProductionRefreshRate() func() {
	of, om := SetRefreshTimers(2*time.Minute, 5*time.Second)
	return func() { SetRefreshTimers(of, om) }
}

// RedisConfig builds a service config for the redis processor.
func RedisConfig(o ProxyOpts) *service.Config {
	ct := o.ConnectTimeout
	if ct == 0 {
		ct = 5 * time.Second // generous: a connect to a live simulated node must not time out on a busy machine
	}
	cfg := &service.Config{
		Listener:       &service.Listener{Address: &common.Address{Ip: "127.0.0.1", Port: 0}, ConnectionLimit: o.ConnLimit},
		Protocol:       protocol.Redis,
		ConnectTimeout: &ct,
		ProtocolOptions: &service.Config_RedisOption{RedisOption: &protocol.RedisOption{
			ReadStrategy: o.ReadStrategy, Compression: o.Compression}},
	}
	return cfg
}

// StartProxy creates and starts a redis proxy in front of the given seed hosts and
// waits until it listens.
func StartProxy(o ProxyOpts) (*Proxy, error) {
	name := o.Name
	if name == "" {
		name = fmt.Sprintf("vsvc%d", atomic.AddInt64(&svcCounter, 1))
	}
	cfg := RedisConfig(o)
	// The listener port stays reserved for this proxy until it was stopped (the service binds with SO_REUSEPORT, see
	// package portres): after a drain or a stop no listener of a concurrently running check can get the port.
	res, _ := portres.Reserve()
	if res != nil {
		cfg.Listener.Address.Port = uint32(res.Port)
	}
	hosts := make([]*host.Host, len(o.Seeds))
	for i, a := range o.Seeds {
		hosts[i] = host.New(a)
	}
	for _, a := range o.BackupSeeds {
		hosts = append(hosts, host.NewWithType(a, host.TypeBackup))
	}
	statpurge.Sweep()
	p, err := proc.New(name, cfg, hosts)
	if err != nil {
		res.Release()
		return nil, err
	}
	if err := p.Start(); err != nil {
		statpurge.MarkStopped(name)
		res.Release()
		return nil, err
	}
	px := &Proxy{P: p, Name: name, Cfg: cfg, res: res}
	// generous: the machine may be shared with 15 other shards and whatever else is running
	for deadline := time.Now().Add(20 * time.Second); time.Now().Before(deadline); {
		if a := p.Address(); a != "" {
			px.Addr = a
			return px, nil
		}
		time.Sleep(200 * time.Microsecond)
	}
	go func() { p.Stop(); statpurge.MarkStopped(name); res.Release() }()
	return nil, errors.New("proxy did not start listening within 20s")
}

// Counter reads a counter of the proxy's stats by its name below "service.<name>.".
func (p *Proxy) Counter(path string) uint64 { return statpurge.Counter(p.Name, path) }

// Gauge reads a gauge of the proxy's stats.
func (p *Proxy) Gauge(path string) uint64 { return statpurge.Gauge(p.Name, path) }

// WaitTableLoaded waits until at least n slot refreshes succeeded.
func (p *Proxy) WaitTableLoaded(n uint64, d time.Duration) bool {
	deadline := time.Now().Add(d)
	for time.Now().Before(deadline) {
		if p.Counter("upstream.slots_refresh.success_total") >= n {
			return true
		}
		time.Sleep(200 * time.Microsecond)
	}
	return false
}

// Stop stops the proxy; it reports false when Stop does not return within d.
func (p *Proxy) Stop(d time.Duration) bool {
	done := make(chan struct{})
	go func() { p.P.Stop(); close(done) }()
	select {
	case <-done:
		statpurge.MarkStopped(p.Name)
		p.res.Release()
		return true
	case <-time.After(d):
		return false
	}
}

// Client is a raw RESP client connection to the proxy.
type Client struct {
	C   net.Conn
	buf []byte
}

// Dial connects to addr.
func Dial(addr string) (*Client, error) {
	c, err := net.DialTimeout("tcp", addr, 2*time.Second)
	if err != nil {
		return nil, err
	}
	if tc, ok := c.(*net.TCPConn); ok {
		tc.SetNoDelay(true)
	}
	return &Client{C: c}, nil
}

// Close closes the connection (linger 0 so loopback ports are not exhausted by TIME_WAIT).
func (c *Client) Close() {
	if tc, ok := c.C.(*net.TCPConn); ok {
		tc.SetLinger(0)
	}
	c.C.Close()
}

// Send writes raw bytes, cut at the given chunk sizes (nil: one write).
func (c *Client) Send(b []byte, chunks []int) error {
	if len(chunks) == 0 {
		_, err := c.C.Write(b)
		return err
	}
	off := 0
	for _, n := range chunks {
		if off >= len(b) {
			break
		}
		if n > len(b)-off {
			n = len(b) - off
		}
		if _, err := c.C.Write(b[off : off+n]); err != nil {
			return err
		}
		off += n
	}
	if off < len(b) {
		_, err := c.C.Write(b[off:])
		return err
	}
	return nil
}

// ErrTimeout is returned by Recv when no complete reply arrived in time.
var ErrTimeout = errors.New("timeout waiting for a reply")

// Recv reads one reply.
func (c *Client) Recv(d time.Duration) (ref.Value, error) {
	deadline := time.Now().Add(d)
	tmp := make([]byte, 65536)
	for {
		if len(c.buf) > 0 {
			v, n, err := ref.Parse(c.buf)
			if err == nil {
				c.buf = c.buf[n:]
				return v, nil
			}
			if err != ref.ErrIncomplete {
				return ref.Value{}, fmt.Errorf("malformed reply stream: %v (%q)", err, clip(c.buf))
			}
		}
		c.C.SetReadDeadline(deadline)
		n, err := c.C.Read(tmp)
		if n > 0 {
			c.buf = append(c.buf, tmp[:n]...)
			continue
		}
		if err != nil {
			if ne, ok := err.(net.Error); ok && ne.Timeout() {
				return ref.Value{}, ErrTimeout
			}
			return ref.Value{}, err
		}
	}
}

// Quiet reports whether nothing (more) arrives within d; it returns any surplus bytes.
func (c *Client) Quiet(d time.Duration) []byte {
	if len(c.buf) > 0 {
		return c.buf
	}
	c.C.SetReadDeadline(time.Now().Add(d))
	tmp := make([]byte, 4096)
	n, _ := c.C.Read(tmp)
	if n > 0 {
		return tmp[:n]
	}
	return nil
}

// Do sends one command and reads its reply.
func (c *Client) Do(d time.Duration, args ...string) (ref.Value, error) {
	if err := c.Send(ref.Enc(ref.Cmd(args...)), nil); err != nil {
		return ref.Value{}, err
	}
	return c.Recv(d)
}

// DoB is Do with byte arguments.
func (c *Client) DoB(d time.Duration, args ...[]byte) (ref.Value, error) {
	if err := c.Send(ref.Enc(ref.CmdB(args...)), nil); err != nil {
		return ref.Value{}, err
	}
	return c.Recv(d)
}

func clip(b []byte) []byte {
	if len(b) > 80 {
		return b[:80]
	}
	return b
}

// Release is for callers that stopped the processor themselves (p.P.Stop()): it gives back what Stop would have.
func (p *Proxy) Release() {
	statpurge.MarkStopped(p.Name)
	p.res.Release()
}
