// Package sim is a simulated Redis Cluster: nodes speak real RESP over loopback
// TCP and implement exactly the cluster rules the proxy depends on (MOVED, ASK,
// ASKING, READONLY, CLUSTER NODES, CLUSTERDOWN), on top of the deterministic
// executor ref.Keyspace. It logs what every node received and can inject faults.
package sim

import (
	"bytes"
	"fmt"
	"net"
	"sort"
	"strconv"
	"strings"
	"sync"
	"sync/atomic"
	"time"

	"verif/harness/portres"
	"verif/harness/ref"
)

const NumSlots = 16384

// Entry is one command received by a node.
type Entry struct {
	Seq      int64 // global arrival order
	ReplySeq int64 // global reply order (0: never answered)
	Node     int
	Conn     int
	Args     [][]byte
	Asking   bool
	Outcome  string // exec, moved, ask, special, hostile, down, dropped
}

type migration struct{ from, to int }

// World is a simulated cluster.
type World struct {
	mu    sync.Mutex
	Nodes []*Node
	owner [NumSlots]int
	mig   map[int]*migration
	seq   int64
	Log   []*Entry

	// Delay, if set, returns how long node n waits before answering its k-th command.
	// Suspected: nodes that every other node reports with the flag "fail?" (PFAIL, one node's unconfirmed suspicion) in
	// CLUSTER NODES; they are alive, reachable and own their slots
	Suspected map[int]bool
	Delay     func(node, k int) time.Duration
	// DelayCmd, if set, returns the reply delay for a specific command (overrides Delay).
	DelayCmd func(node int, args [][]byte) time.Duration
	// Hostile, if set and returning non-nil, replaces the reply to a command by raw bytes.
	Hostile func(n *Node, args [][]byte) []byte
	// ClusterDown makes every keyed command answer -CLUSTERDOWN.
	ClusterDown bool
	// AnnounceHost, if set, replaces the IP in the addresses the nodes announce (MOVED, ASK, CLUSTER NODES),
	// e.g. "localhost": the proxy then knows backends under a name that differs from the peer address.
	AnnounceHost string
	// ListFailed lists failed old masters in CLUSTER NODES (flag master,fail, no slots), as Redis does.
	ListFailed bool
	// SlotlessAsSlave hides nothing; kept for clarity.
	Version int

	connIDs int64
}

// Node is one simulated Redis node.
type Node struct {
	W      *World
	Idx    int
	ID     string
	Addr   string
	Master int // index of the master, -1 if this node is a master
	KS     *ref.Keyspace
	Failed bool // failed-over old master (listed as master,fail without slots)
	// Alone: a node that was started but has not met the cluster yet: it knows only itself (CLUSTER NODES lists one line, no
	// slots), serves no slot, and the other nodes do not list it
	Alone bool

	lmu   sync.Mutex
	res   *portres.Port
	black func() // ends the black hole (see Blackhole)
	ln    net.Listener
	conns map[*nodeConn]struct{}
	up    bool
	port  int

	// counters (guarded by W.mu)
	Moved, Ask, ClusterNodesServed, Accepts, Executed int
	cmdCount                                          int

	// faults (guarded by W.mu)
	killAfter    int // close the connection when this many more commands were read (0: off)
	killMidReply int // with killAfter: bytes of the reply to write before closing (-1: none)
	killRST      bool
	Silent       bool // read commands but never answer
	// SCAN script: pages[i] = (cursor to return, keys); indexed by the cursor received
	ScanPages map[string]ScanPage
}

// ScanPage is the scripted reply to SCAN with a given cursor.
type ScanPage struct {
	Next string
	Keys []string
}

type nodeConn struct {
	c        net.Conn
	id       int
	asking   bool
	readonly bool
}

// NewWorld creates masters (+replicasPer replicas each) listening on 127.0.0.1:0.
// No slots are assigned; use Assign*.
func NewWorld(masters, replicasPer int) (*World, error) {
	w := &World{mig: map[int]*migration{}}
	for i := range w.owner {
		w.owner[i] = -1
	}
	for i := 0; i < masters; i++ {
		if _, err := w.AddNode(-1); err != nil {
			w.Close()
			return nil, err
		}
	}
	for i := 0; i < masters; i++ {
		for r := 0; r < replicasPer; r++ {
			if _, err := w.AddNode(i); err != nil {
				w.Close()
				return nil, err
			}
		}
	}
	return w, nil
}

// AddNode adds a node (master if masterIdx < 0) and starts listening.
func (w *World) AddNode(masterIdx int) (*Node, error) {
	w.mu.Lock()
	idx := len(w.Nodes)
	n := &Node{W: w, Idx: idx, Master: masterIdx, conns: map[*nodeConn]struct{}{}, killMidReply: -1}
	n.ID = fmt.Sprintf("%040x", idx+1)
	if masterIdx < 0 {
		n.KS = ref.NewKeyspace()
	}
	w.Nodes = append(w.Nodes, n)
	w.mu.Unlock()
	if err := n.Start(); err != nil {
		return nil, err
	}
	return n, nil
}

// Close stops every node.
func (w *World) Close() {
	w.mu.Lock()
	nodes := append([]*Node{}, w.Nodes...)
	w.mu.Unlock()
	for _, n := range nodes {
		n.Stop()
		n.lmu.Lock()
		if n.black != nil {
			n.black()
			n.black = nil
		}
		if n.res != nil {
			n.res.Release()
			n.res = nil
		}
		n.lmu.Unlock()
	}
}

// Lock/Unlock expose the world mutex to harness code that inspects state.
func (w *World) Lock()   { w.mu.Lock() }
func (w *World) Unlock() { w.mu.Unlock() }

// AssignRange gives slots [lo,hi] to master m.
func (w *World) AssignRange(lo, hi, m int) {
	w.mu.Lock()
	for s := lo; s <= hi && s < NumSlots; s++ {
		w.owner[s] = m
	}
	w.Version++
	w.mu.Unlock()
}

// AssignFunc assigns every slot by f.
func (w *World) AssignFunc(f func(slot int) int) {
	w.mu.Lock()
	for s := 0; s < NumSlots; s++ {
		w.owner[s] = f(s)
	}
	w.Version++
	w.mu.Unlock()
}

// AssignEven splits the slot space contiguously over the given masters.
func (w *World) AssignEven(masters []int) {
	per := NumSlots / len(masters)
	w.AssignFunc(func(s int) int {
		i := s / per
		if i >= len(masters) {
			i = len(masters) - 1
		}
		return masters[i]
	})
}

// Owner returns the master owning a slot.
func (w *World) Owner(slot int) int {
	w.mu.Lock()
	defer w.mu.Unlock()
	return w.owner[slot]
}

// Masters returns the indices of live masters.
func (w *World) Masters() []int {
	w.mu.Lock()
	defer w.mu.Unlock()
	var r []int
	for _, n := range w.Nodes {
		if n.Master < 0 && !n.Failed {
			r = append(r, n.Idx)
		}
	}
	return r
}

// Replicas returns the replica indices of master m.
func (w *World) Replicas(m int) []int {
	w.mu.Lock()
	defer w.mu.Unlock()
	var r []int
	for _, n := range w.Nodes {
		if n.Master == m {
			r = append(r, n.Idx)
		}
	}
	return r
}

// Addrs returns the addresses of the given nodes.
func (w *World) Addrs(idx []int) []string {
	r := make([]string, len(idx))
	for i, x := range idx {
		r[i] = w.Nodes[x].Addr
	}
	return r
}

// NodeByAddr finds a node.
func (w *World) NodeByAddr(addr string) *Node {
	for _, n := range w.Nodes {
		if n.Addr == addr {
			return n
		}
	}
	return nil
}

// Flush empties every keyspace and the logs and counters.
func (w *World) Flush() {
	w.mu.Lock()
	for _, n := range w.Nodes {
		if n.KS != nil {
			n.KS = ref.NewKeyspace()
		}
		n.Moved, n.Ask, n.ClusterNodesServed, n.Executed = 0, 0, 0, 0
	}
	w.Log = nil
	w.mu.Unlock()
}

// ResetLog clears the log only.
func (w *World) ResetLog() {
	w.mu.Lock()
	w.Log = nil
	w.mu.Unlock()
}

// Snapshot returns a copy of the log.
func (w *World) Snapshot() []*Entry {
	w.mu.Lock()
	defer w.mu.Unlock()
	r := make([]*Entry, len(w.Log))
	for i, e := range w.Log {
		c := *e
		r[i] = &c
	}
	return r
}

// Redirects returns the total number of MOVED and ASK replies issued.
func (w *World) Redirects() (moved, ask int) {
	w.mu.Lock()
	defer w.mu.Unlock()
	for _, n := range w.Nodes {
		moved += n.Moved
		ask += n.Ask
	}
	return
}

// ClusterNodesServed returns how many CLUSTER NODES replies were served in total.
func (w *World) ClusterNodesServedTotal() int {
	w.mu.Lock()
	defer w.mu.Unlock()
	t := 0
	for _, n := range w.Nodes {
		t += n.ClusterNodesServed
	}
	return t
}

// ---- migration / failover

// BeginMigration marks slot as migrating from its owner to master `to`.
func (w *World) BeginMigration(slot, to int) bool {
	w.mu.Lock()
	defer w.mu.Unlock()
	from := w.owner[slot]
	if from < 0 || from == to || w.mig[slot] != nil {
		return false
	}
	w.mig[slot] = &migration{from, to}
	return true
}

// MigratingSlots returns the slots currently migrating.
func (w *World) MigratingSlots() []int {
	w.mu.Lock()
	defer w.mu.Unlock()
	var r []int
	for s := range w.mig {
		r = append(r, s)
	}
	sort.Ints(r)
	return r
}

// MoveKeys moves up to n keys of a migrating slot (n<0: all) from the source to the target; returns how many moved.
func (w *World) MoveKeys(slot, n int) int {
	w.mu.Lock()
	defer w.mu.Unlock()
	m := w.mig[slot]
	if m == nil {
		return 0
	}
	src, dst := w.Nodes[m.from].KS, w.Nodes[m.to].KS
	var keys []string
	for k := range src.M {
		if ref.Slot([]byte(k)) == slot {
			keys = append(keys, k)
		}
	}
	sort.Strings(keys)
	moved := 0
	for _, k := range keys {
		if n >= 0 && moved >= n {
			break
		}
		dst.M[k] = src.M[k]
		delete(src.M, k)
		moved++
	}
	return moved
}

// Finalise completes a migration: remaining keys move, ownership goes to the target.
func (w *World) Finalise(slot int) bool {
	w.mu.Lock()
	m := w.mig[slot]
	w.mu.Unlock()
	if m == nil {
		return false
	}
	w.MoveKeys(slot, -1)
	w.mu.Lock()
	w.owner[slot] = m.to
	delete(w.mig, slot)
	w.Version++
	w.mu.Unlock()
	return true
}

// Abort cancels a migration: keys already moved go back.
func (w *World) Abort(slot int) bool {
	w.mu.Lock()
	defer w.mu.Unlock()
	m := w.mig[slot]
	if m == nil {
		return false
	}
	src, dst := w.Nodes[m.from].KS, w.Nodes[m.to].KS
	for k, o := range dst.M {
		if ref.Slot([]byte(k)) == slot {
			src.M[k] = o
			delete(dst.M, k)
		}
	}
	delete(w.mig, slot)
	return true
}

// Failover stops master m and promotes its first live replica, which takes over the
// data and the slots. Returns the new master index or -1.
func (w *World) Failover(m int) int {
	w.mu.Lock()
	old := w.Nodes[m]
	var repl *Node
	for _, n := range w.Nodes {
		if n.Master == m {
			repl = n
			break
		}
	}
	if repl == nil || old.Master >= 0 {
		w.mu.Unlock()
		return -1
	}
	w.mu.Unlock()
	old.Stop()
	w.mu.Lock()
	repl.Master = -1
	repl.KS = old.KS
	old.KS = ref.NewKeyspace()
	old.Failed = true
	for s := range w.owner {
		if w.owner[s] == m {
			w.owner[s] = repl.Idx
		}
	}
	for s, mg := range w.mig {
		if mg.from == m || mg.to == m {
			delete(w.mig, s)
		}
	}
	for _, n := range w.Nodes {
		if n.Master == m {
			n.Master = repl.Idx
		}
	}
	w.Version++
	w.mu.Unlock()
	return repl.Idx
}

// ---- CLUSTER NODES

func (w *World) renderNodesLocked(self *Node) string {
	var b strings.Builder
	slotsOf := map[int][]int{}
	for s, o := range w.owner {
		if o >= 0 {
			slotsOf[o] = append(slotsOf[o], s)
		}
	}
	for _, n := range w.Nodes {
		flags := "master"
		master := "-"
		if n.Master >= 0 {
			flags = "slave"
			master = w.Nodes[n.Master].ID
		}
		if n != self && (n.Alone || (self != nil && self.Alone)) {
			continue
		}
		if n.Failed {
			if !w.ListFailed {
				continue
			}
			flags = "master,fail"
		}
		if n == self {
			flags = "myself," + flags
		} else if w.Suspected[n.Idx] && !n.Failed {
			flags += ",fail?" // PFAIL: the answering node has not heard from it lately; it is alive and keeps its slots
		}
		link := "connected"
		if n.Failed {
			link = "disconnected"
		}
		host, port, _ := net.SplitHostPort(n.Addr)
		if w.AnnounceHost != "" {
			host = w.AnnounceHost
		}
		p, _ := strconv.Atoi(port)
		fmt.Fprintf(&b, "%s %s:%d@%d %s %s 0 %d %d %s", n.ID, host, p, p+10000, flags, master, 1500000000000+int64(w.Version), n.Idx+1, link)
		if n.Master < 0 && !n.Failed {
			ss := slotsOf[n.Idx]
			for i := 0; i < len(ss); {
				j := i
				for j+1 < len(ss) && ss[j+1] == ss[j]+1 {
					j++
				}
				if i == j {
					fmt.Fprintf(&b, " %d", ss[i])
				} else {
					fmt.Fprintf(&b, " %d-%d", ss[i], ss[j])
				}
				i = j + 1
			}
			for s, m := range w.mig {
				if m.from == n.Idx {
					fmt.Fprintf(&b, " [%d->-%s]", s, w.Nodes[m.to].ID)
				}
				if m.to == n.Idx {
					fmt.Fprintf(&b, " [%d-<-%s]", s, w.Nodes[m.from].ID)
				}
			}
		}
		b.WriteString("\n")
	}
	return b.String()
}

// ---- node lifecycle

// Start (re)opens the listener on the node's port.
func (n *Node) Start() error {
	n.lmu.Lock()
	defer n.lmu.Unlock()
	if n.up {
		return nil
	}
	if n.black != nil {
		n.black()
		n.black = nil
	}
	if n.res == nil {
		// the port stays reserved for this node while it is stopped (see package portres)
		r, err := portres.Reserve()
		if err != nil {
			return err
		}
		n.res = r
	}
	var ln net.Listener
	var err error
	for i := 0; i < 200; i++ {
		ln, err = n.res.Listen()
		if err == nil {
			break
		}
		time.Sleep(5 * time.Millisecond)
	}
	if err != nil {
		return err
	}
	n.ln = ln
	n.up = true
	n.port = n.res.Port
	n.Addr = n.res.Addr
	go n.acceptLoop(ln)
	return nil
}

// Stop closes the listener and every connection.
func (n *Node) Stop() {
	n.lmu.Lock()
	if !n.up {
		n.lmu.Unlock()
		return
	}
	n.up = false
	n.ln.Close()
	conns := n.conns
	n.conns = map[*nodeConn]struct{}{}
	n.lmu.Unlock()
	for c := range conns {
		c.c.Close()
	}
}

// Blackhole stops the node and makes connects to its address hang (time out) instead of being refused, until Start.
func (n *Node) Blackhole() error {
	n.Stop()
	n.lmu.Lock()
	defer n.lmu.Unlock()
	if n.black != nil || n.res == nil {
		return nil
	}
	end, err := n.res.Blackhole()
	if err != nil {
		return err
	}
	n.black = end
	return nil
}

// Up reports whether the node listens.
func (n *Node) Up() bool {
	n.lmu.Lock()
	defer n.lmu.Unlock()
	return n.up
}

// DropConns closes every established connection (the listener stays).
func (n *Node) DropConns(rst bool) int {
	n.lmu.Lock()
	conns := n.conns
	n.conns = map[*nodeConn]struct{}{}
	n.lmu.Unlock()
	for c := range conns {
		if rst {
			if tc, ok := c.c.(*net.TCPConn); ok {
				tc.SetLinger(0)
			}
		}
		c.c.Close()
	}
	return len(conns)
}

// ConnCount returns the number of established connections.
func (n *Node) ConnCount() int {
	n.lmu.Lock()
	defer n.lmu.Unlock()
	return len(n.conns)
}

// KillAfter arms a fault: the connection that reads the k-th next command is closed
// instead of answering it (after writing midReply bytes of the reply if midReply >= 0).
func (n *Node) KillAfter(k, midReply int, rst bool) {
	n.W.mu.Lock()
	n.killAfter, n.killMidReply, n.killRST = k, midReply, rst
	n.W.mu.Unlock()
}

func (n *Node) acceptLoop(ln net.Listener) {
	for {
		c, err := ln.Accept()
		if err != nil {
			return
		}
		nc := &nodeConn{c: c, id: int(atomic.AddInt64(&n.W.connIDs, 1))}
		n.lmu.Lock()
		if !n.up {
			n.lmu.Unlock()
			c.Close()
			continue
		}
		n.conns[nc] = struct{}{}
		n.lmu.Unlock()
		n.W.mu.Lock()
		n.Accepts++
		n.W.mu.Unlock()
		go n.serve(nc)
	}
}

func (n *Node) serve(nc *nodeConn) {
	defer func() {
		nc.c.Close()
		n.lmu.Lock()
		delete(n.conns, nc)
		n.lmu.Unlock()
	}()
	buf := make([]byte, 0, 4096)
	tmp := make([]byte, 65536)
	for {
		// parse as many complete commands as available
		for {
			v, used, err := ref.Parse(buf)
			if err == ref.ErrIncomplete {
				break
			}
			if err != nil || v.K != ref.Arr || v.Null || len(v.A) == 0 {
				return // the proxy never sends this
			}
			buf = buf[used:]
			args := make([][]byte, len(v.A))
			for i, e := range v.A {
				args[i] = e.S
			}
			reply, closeAfter, delay, e := n.handle(nc, args)
			if delay > 0 {
				time.Sleep(delay)
			}
			if reply != nil && !closeAfter {
				n.W.mu.Lock()
				n.W.seq++
				e.ReplySeq = n.W.seq
				n.W.mu.Unlock()
			}
			if reply != nil {
				if _, err := nc.c.Write(reply); err != nil {
					return
				}
			}
			if closeAfter {
				return
			}
		}
		m, err := nc.c.Read(tmp)
		if err != nil {
			return
		}
		buf = append(buf, tmp[:m]...)
	}
}

func keyOf(cmd string, args [][]byte) []byte {
	if cmd == "eval" {
		if len(args) >= 4 {
			return args[3]
		}
		return nil
	}
	if len(args) >= 2 {
		return args[1]
	}
	return nil
}

// handle executes one command under the world lock and returns the reply bytes.
func (n *Node) handle(nc *nodeConn, args [][]byte) (reply []byte, closeAfter bool, delay time.Duration, ent *Entry) {
	w := n.W
	w.mu.Lock()
	defer w.mu.Unlock()
	w.seq++
	e := &Entry{Seq: w.seq, Node: n.Idx, Conn: nc.id, Args: args, Asking: nc.asking}
	w.Log = append(w.Log, e)
	n.cmdCount++
	if w.Delay != nil {
		delay = w.Delay(n.Idx, n.cmdCount)
	}
	if w.DelayCmd != nil {
		delay = w.DelayCmd(n.Idx, args)
	}
	finish := func(v ref.Value, outcome string) ([]byte, bool, time.Duration, *Entry) {
		e.Outcome = outcome
		out := ref.Enc(v)
		a, b, c := n.applyFaults(e, out, delay)
		return a, b, c, e
	}
	cmd := strings.ToLower(string(args[0]))
	asking := nc.asking
	if cmd != "asking" {
		nc.asking = false
	}
	if w.Hostile != nil {
		if raw := w.Hostile(n, args); raw != nil {
			e.Outcome = "hostile"
			a, b, c := n.applyFaults(e, raw, delay)
			return a, b, c, e
		}
	}
	switch cmd {
	case "cluster":
		if len(args) >= 2 && strings.EqualFold(string(args[1]), "nodes") {
			n.ClusterNodesServed++
			return finish(ref.BulkS(w.renderNodesLocked(n)), "special")
		}
		return finish(ref.ErrV("ERR unknown cluster subcommand"), "special")
	case "readonly":
		nc.readonly = true
		return finish(ref.OKV(), "special")
	case "readwrite":
		nc.readonly = false
		return finish(ref.OKV(), "special")
	case "asking":
		nc.asking = true
		return finish(ref.OKV(), "special")
	case "ping":
		return finish(ref.SimpleV("PONG"), "special")
	case "scan":
		if n.ScanPages != nil && len(args) >= 2 {
			pg, ok := n.ScanPages[string(args[1])]
			if !ok {
				return finish(ref.ErrV("ERR invalid cursor"), "special")
			}
			ks := make([]ref.Value, len(pg.Keys))
			for i, k := range pg.Keys {
				ks[i] = ref.BulkS(k)
			}
			return finish(ref.ArrV(ref.BulkS(pg.Next), ref.ArrV(ks...)), "special")
		}
		return finish(ref.ArrV(ref.BulkS("0"), ref.ArrV()), "special")
	}
	key := keyOf(cmd, args)
	if key == nil {
		return finish(ref.ErrV("ERR wrong number of arguments for '"+cmd+"' command"), "exec")
	}
	if w.ClusterDown {
		return finish(ref.ErrV("CLUSTERDOWN The cluster is down"), "down")
	}
	if n.Alone {
		return finish(ref.ErrV("CLUSTERDOWN Hash slot not served"), "down")
	}
	slot := ref.Slot(key)
	owner := w.owner[slot]
	me := n.Idx
	if n.Master >= 0 {
		me = n.Master
	}
	moved := func(to int) ([]byte, bool, time.Duration, *Entry) {
		n.Moved++
		if to < 0 {
			return finish(ref.ErrV("CLUSTERDOWN Hash slot not served"), "down")
		}
		return finish(ref.ErrV(fmt.Sprintf("MOVED %d %s", slot, w.announced(w.Nodes[to].Addr))), "moved")
	}
	mg := w.mig[slot]
	var ks *ref.Keyspace
	switch {
	case n.Failed:
		return moved(owner)
	case me == owner:
		if n.Master >= 0 {
			// replica: serves read-only commands of READONLY connections only
			if !(nc.readonly && ref.IsReadOnly(cmd)) {
				return moved(owner)
			}
		}
		ks = w.Nodes[owner].KS
		if mg != nil && mg.from == owner {
			if _, ex := ks.M[string(key)]; !ex {
				n.Ask++
				return finish(ref.ErrV(fmt.Sprintf("ASK %d %s", slot, w.announced(w.Nodes[mg.to].Addr))), "ask")
			}
		}
	case mg != nil && mg.to == me && n.Master < 0 && asking:
		ks = n.KS
	default:
		return moved(owner)
	}
	n.Executed++
	return finish(ks.Exec(args), "exec")
}

// applyFaults applies the armed connection-kill fault to an outgoing reply.
func (n *Node) applyFaults(e *Entry, out []byte, delay time.Duration) ([]byte, bool, time.Duration) {
	if n.Silent {
		e.Outcome += "+silent"
		return nil, false, 0
	}
	if n.killAfter > 0 {
		n.killAfter--
		if n.killAfter == 0 {
			e.Outcome += "+killed"
			if n.killMidReply >= 0 && n.killMidReply < len(out) {
				return out[:n.killMidReply], true, delay
			}
			if n.killMidReply >= len(out) {
				return out, true, delay // the whole reply, then close
			}
			return nil, true, delay
		}
	}
	return out, false, delay
}

// DataUnion returns key -> canonical dump over all masters, and the keys found on more than one node.
func (w *World) DataUnion() (map[string]string, []string) {
	w.mu.Lock()
	defer w.mu.Unlock()
	res := map[string]string{}
	var dups []string
	for _, n := range w.Nodes {
		if n.KS == nil || n.Master >= 0 {
			continue
		}
		for k, o := range n.KS.M {
			if _, ex := res[k]; ex {
				dups = append(dups, k)
			}
			res[k] = o.Dump()
		}
	}
	return res, dups
}

// KeyLocation returns the node indices currently holding key.
func (w *World) KeyLocation(key string) []int {
	w.mu.Lock()
	defer w.mu.Unlock()
	var r []int
	for _, n := range w.Nodes {
		if n.KS != nil && n.Master < 0 {
			if _, ok := n.KS.M[key]; ok {
				r = append(r, n.Idx)
			}
		}
	}
	return r
}

// ArgsString renders command arguments for messages.
func ArgsString(args [][]byte) string {
	var b bytes.Buffer
	for i, a := range args {
		if i > 0 {
			b.WriteByte(' ')
		}
		if len(a) > 24 {
			fmt.Fprintf(&b, "%q..(%d)", a[:24], len(a))
		} else {
			fmt.Fprintf(&b, "%q", a)
		}
	}
	return b.String()
}

// Rehome moves every key to the master that owns its slot (after a layout change
// performed by the operator with data migration).
func (w *World) Rehome() {
	w.mu.Lock()
	defer w.mu.Unlock()
	type kv struct {
		k string
		o *ref.Obj
	}
	var all []kv
	for _, n := range w.Nodes {
		if n.KS != nil && n.Master < 0 {
			for k, o := range n.KS.M {
				all = append(all, kv{k, o})
			}
			n.KS.M = map[string]*ref.Obj{}
		}
	}
	for _, e := range all {
		o := w.owner[ref.Slot([]byte(e.k))]
		if o >= 0 && w.Nodes[o].KS != nil {
			w.Nodes[o].KS.M[e.k] = e.o
		}
	}
}

// KeyFor returns a key with the given prefix whose slot is owned by master m (""
// if none is found quickly).
func (w *World) KeyFor(m int, prefix string) string {
	w.mu.Lock()
	defer w.mu.Unlock()
	for i := 0; i < 200000; i++ {
		k := prefix + strconv.Itoa(i)
		if w.owner[ref.Slot([]byte(k))] == m {
			return k
		}
	}
	return ""
}

// OwnerSnapshot copies the slot table.
func (w *World) OwnerSnapshot() []int {
	w.mu.Lock()
	defer w.mu.Unlock()
	r := make([]int, NumSlots)
	copy(r, w.owner[:])
	return r
}

// AcceptsOf returns the accept counter of node i.
func (w *World) AcceptsOf(i int) int {
	w.mu.Lock()
	defer w.mu.Unlock()
	return w.Nodes[i].Accepts
}

// AllAddrs returns the addresses of every node (masters and replicas): the endpoint
// list of the service as a discovery source would publish it.
func (w *World) AllAddrs() []string {
	w.mu.Lock()
	defer w.mu.Unlock()
	r := make([]string, 0, len(w.Nodes))
	for _, n := range w.Nodes {
		r = append(r, n.Addr)
	}
	return r
}

// KillAfterLocked is KillAfter for callers that already hold the world lock (Hostile/Delay callbacks).
func (n *Node) KillAfterLocked(k, midReply int, rst bool) {
	n.killAfter, n.killMidReply, n.killRST = k, midReply, rst
}

func (w *World) announced(addr string) string {
	if w.AnnounceHost == "" {
		return addr
	}
	_, port, _ := net.SplitHostPort(addr)
	return w.AnnounceHost + ":" + port
}
