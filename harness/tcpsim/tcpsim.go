// Package tcpsim holds helpers for the L4 (TCP) proxy properties: a real TCP
// processor created through proc.New, scripted backends with accept logs and
// pattern streams whose every byte is position dependent.
package tcpsim

import (
	"errors"
	"fmt"
	"net"
	"sync"
	"sync/atomic"
	"time"

	"github.com/samaritan-proxy/samaritan/host"
	"github.com/samaritan-proxy/samaritan/pb/common"
	hcpb "github.com/samaritan-proxy/samaritan/pb/config/hc"
	"github.com/samaritan-proxy/samaritan/pb/config/protocol"
	"github.com/samaritan-proxy/samaritan/pb/config/service"
	"github.com/samaritan-proxy/samaritan/proc"
	_ "github.com/samaritan-proxy/samaritan/proc/tcp" // register the tcp processor

	"verif/harness/portres"
	"verif/harness/statpurge"
)

var svcCounter int64

// Opts configures the TCP proxy under test.
type Opts struct {
	Policy      service.LoadBalancePolicy
	HealthCheck *hcpb.HealthCheck
	IdleTimeout time.Duration
	ConnLimit   uint32
	Hosts       []*host.Host
	Port        uint32
	Name        string
	// ConnectTimeout of the service (default 300 ms)
	ConnectTimeout time.Duration
}

// Proxy is a real samaritan TCP processor.
type Proxy struct {
	P    proc.Proc
	Name string
	Addr string
	res  *portres.Port
}

// Config builds the service config.
func Config(o Opts) *service.Config {
	ct := 300 * time.Millisecond
	if o.ConnectTimeout > 0 {
		ct = o.ConnectTimeout
	}
	idle := o.IdleTimeout
	if idle == 0 {
		idle = 10 * time.Minute
	}
	return &service.Config{
		Listener:       &service.Listener{Address: &common.Address{Ip: "127.0.0.1", Port: o.Port}, ConnectionLimit: o.ConnLimit},
		Protocol:       protocol.TCP,
		ConnectTimeout: &ct,
		IdleTimeout:    &idle,
		LbPolicy:       o.Policy,
		HealthCheck:    o.HealthCheck,
	}
}

// New creates the processor without starting it.
func New(o Opts) (*Proxy, error) {
	name := o.Name
	if name == "" {
		name = fmt.Sprintf("vtcp%d", atomic.AddInt64(&svcCounter, 1))
	}
	statpurge.Sweep()
	// the listener port stays reserved for this proxy until it was stopped (see sim.StartProxy)
	var res *portres.Port
	if o.Port == 0 {
		if res, _ = portres.Reserve(); res != nil {
			o.Port = uint32(res.Port)
		}
	}
	p, err := proc.New(name, Config(o), o.Hosts)
	if err != nil {
		res.Release()
		return nil, err
	}
	return &Proxy{P: p, Name: name, res: res}, nil
}

// Start creates and starts the processor and waits until it listens.
func Start(o Opts) (*Proxy, error) {
	px, err := New(o)
	if err != nil {
		return nil, err
	}
	if err := px.P.Start(); err != nil {
		statpurge.MarkStopped(px.Name)
		return nil, err
	}
	if !px.WaitListening(20 * time.Second) {
		go px.Stop(30 * time.Second)
		return nil, errors.New("tcp proxy did not start listening within 20s")
	}
	return px, nil
}

// WaitListening polls Address().
func (p *Proxy) WaitListening(d time.Duration) bool {
	deadline := time.Now().Add(d)
	for time.Now().Before(deadline) {
		if a := p.P.Address(); a != "" {
			p.Addr = a
			return true
		}
		time.Sleep(200 * time.Microsecond)
	}
	return false
}

// Stop stops the processor; false when Stop does not return within d.
func (p *Proxy) Stop(d time.Duration) bool {
	done := make(chan struct{})
	go func() { p.P.Stop(); close(done) }()
	select {
	case <-done:
		statpurge.MarkStopped(p.Name)
		p.res.Release()
		return true
	case <-time.After(d):
		return false
	}
}

// Pattern returns the byte at position pos of the stream of connection id in direction dir.
func Pattern(id, dir int, pos int) byte {
	x := uint32(pos)*2654435761 + uint32(id)*40503 + uint32(dir)*97
	return byte(x>>13) ^ byte(pos)
}

// Fill fills b with the pattern starting at position off.
func Fill(b []byte, id, dir, off int) {
	for i := range b {
		b[i] = Pattern(id, dir, off+i)
	}
}

// Backend is a scripted TCP backend with an accept log.
type Backend struct {
	mu      sync.Mutex
	res     *portres.Port
	ln      net.Listener
	Addr    string
	port    int
	up      bool
	Accepts int
	Conns   []net.Conn
	// Handler is called for every accepted connection (nil: hold the connection open and discard input).
	Handler func(c net.Conn, n int)
}

// NewBackend starts a backend on 127.0.0.1:0.
func NewBackend(h func(c net.Conn, n int)) (*Backend, error) {
	b := &Backend{Handler: h}
	if err := b.Start(); err != nil {
		return nil, err
	}
	return b, nil
}

// Start (re)opens the listener on the same port.
func (b *Backend) Start() error {
	b.mu.Lock()
	defer b.mu.Unlock()
	if b.up {
		return nil
	}
	if b.res == nil {
		// the port stays reserved for this backend while it is down (see package portres)
		r, err := portres.Reserve()
		if err != nil {
			return err
		}
		b.res = r
	}
	var ln net.Listener
	var err error
	for i := 0; i < 200; i++ {
		ln, err = b.res.Listen()
		if err == nil {
			break
		}
		time.Sleep(5 * time.Millisecond)
	}
	if err != nil {
		return err
	}
	b.ln, b.up = ln, true
	b.port = b.res.Port
	b.Addr = b.res.Addr
	go b.loop(ln)
	return nil
}

func (b *Backend) loop(ln net.Listener) {
	for {
		c, err := ln.Accept()
		if err != nil {
			return
		}
		b.mu.Lock()
		b.Accepts++
		n := b.Accepts
		b.Conns = append(b.Conns, c)
		h := b.Handler
		b.mu.Unlock()
		if h != nil {
			go h(c, n)
		} else {
			go func() {
				buf := make([]byte, 4096)
				for {
					if _, err := c.Read(buf); err != nil {
						return
					}
				}
			}()
		}
	}
}

// Blackhole stops the listener and makes connects to the backend's address hang instead of being refused (see
// portres.Port.Blackhole) until the returned function is called; established connections stay.
func (b *Backend) Blackhole() (func(), error) {
	b.Stop(false)
	b.mu.Lock()
	defer b.mu.Unlock()
	if b.res == nil {
		return nil, errors.New("tcpsim: backend without a reserved port")
	}
	return b.res.Blackhole()
}

// Stop closes the listener (established connections stay unless closeConns).
func (b *Backend) Stop(closeConns bool) {
	b.mu.Lock()
	defer b.mu.Unlock()
	if b.up {
		b.ln.Close()
		b.up = false
	}
	if closeConns {
		for _, c := range b.Conns {
			c.Close()
		}
		b.Conns = nil
	}
}

// AcceptCount returns the number of accepted connections.
func (b *Backend) AcceptCount() int {
	b.mu.Lock()
	defer b.mu.Unlock()
	return b.Accepts
}

// Close stops everything and releases the port.
func (b *Backend) Close() {
	b.Stop(true)
	b.mu.Lock()
	if b.res != nil {
		b.res.Release()
		b.res = nil
	}
	b.mu.Unlock()
}
