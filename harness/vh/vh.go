// Package vh is the small runtime shared by all property packages of the
// verification harness: evidence counters, non-trivial-case hashing, samples,
// replay files, failure reporting and the replay entry point.
package vh

import (
	"crypto/sha256"
	"encoding/binary"
	"encoding/hex"
	"encoding/json"
	"fmt"
	"os"
	"path/filepath"
	"runtime"
	"sort"
	"strconv"
	"strings"
	"sync"
	"testing"
	"time"

	"github.com/samaritan-proxy/samaritan/logger"
)

// Tier returns "quick" or "thorough".
func Tier() string {
	if os.Getenv("VERIF_TIER") == "thorough" {
		return "thorough"
	}
	return "quick"
}

// Thorough reports whether the thorough tier is selected.
func Thorough() bool { return Tier() == "thorough" }

// Seed returns VERIF_SEED (0 remapped to 1).
func Seed() int64 {
	n, err := strconv.ParseInt(os.Getenv("VERIF_SEED"), 10, 64)
	if err != nil || n == 0 {
		return 1
	}
	return n
}

// Shard returns (index, count) from VERIF_SHARD="i/n" (default 0/1).
func Shard() (int, int) {
	s := os.Getenv("VERIF_SHARD")
	parts := strings.Split(s, "/")
	if len(parts) != 2 {
		return 0, 1
	}
	i, e1 := strconv.Atoi(parts[0])
	n, e2 := strconv.Atoi(parts[1])
	if e1 != nil || e2 != nil || n <= 0 || i < 0 || i >= n {
		return 0, 1
	}
	return i, n
}

// EnvInt returns an integer environment variable or def.
func EnvInt(name string, def int) int {
	n, err := strconv.Atoi(os.Getenv(name))
	if err != nil {
		return def
	}
	return n
}

const maxHashes = 1 << 20
const maxSamples = 6

type partRec struct {
	Evaluations int64            `json:"evaluations"`
	Nontrivial  int64            `json:"nontrivial"`
	Classes     map[string]int64 `json:"classes"`
	Samples     []interface{}    `json:"samples"`
	Exhaustive  bool             `json:"exhaustive,omitempty"`
	Notes       []string         `json:"notes,omitempty"`
	hashes      map[uint64]struct{}
	overflow    bool
	ntSamples   int
}

// Recorder accumulates evidence for one test process.
type Recorder struct {
	mu    sync.Mutex
	parts map[string]*partRec
	start time.Time
}

var rec = &Recorder{parts: map[string]*partRec{}, start: time.Now()}

// Rec returns the process-wide recorder.
func Rec() *Recorder { return rec }

func (r *Recorder) part(name string) *partRec {
	p := r.parts[name]
	if p == nil {
		p = &partRec{Classes: map[string]int64{}, hashes: map[uint64]struct{}{}}
		r.parts[name] = p
	}
	return p
}

// Hash64 hashes a canonical description of a case.
func Hash64(key string) uint64 {
	h := sha256.Sum256([]byte(key))
	return binary.LittleEndian.Uint64(h[:8])
}

// Case counts one evaluated case of a part. If nt, key identifies the case for
// the distinct-non-trivial count.
func (r *Recorder) Case(part string, nt bool, key string) {
	r.mu.Lock()
	p := r.part(part)
	p.Evaluations++
	if nt {
		p.Nontrivial++
		if len(p.hashes) < maxHashes {
			p.hashes[Hash64(key)] = struct{}{}
		} else {
			p.overflow = true
		}
	}
	r.mu.Unlock()
}

// CaseN counts n evaluated cases of which ntDistinct are distinct and non-trivial by
// construction (enumerations, where distinctness is structural and not hashed).
func (r *Recorder) CaseN(part string, n, ntDistinct int64) {
	r.mu.Lock()
	p := r.part(part)
	p.Evaluations += n
	p.Nontrivial += ntDistinct
	p.Classes["_nt_by_construction"] += ntDistinct
	r.mu.Unlock()
}

// Class increments a histogram bucket of a part.
func (r *Recorder) Class(part, class string) { r.ClassN(part, class, 1) }

// ClassN adds n to a histogram bucket of a part.
func (r *Recorder) ClassN(part, class string, n int64) {
	r.mu.Lock()
	r.part(part).Classes[class] += n
	r.mu.Unlock()
}

// Sample keeps a few written-out cases per part (non-trivial ones are preferred).
func (r *Recorder) Sample(part string, nt bool, v func() interface{}) {
	r.mu.Lock()
	defer r.mu.Unlock()
	p := r.part(part)
	if nt && p.ntSamples < maxSamples/2 {
		p.ntSamples++
		p.Samples = append(p.Samples, v())
		return
	}
	if !nt && len(p.Samples)-p.ntSamples < maxSamples/2 && p.Evaluations%7 == 1 {
		p.Samples = append(p.Samples, v())
	}
}

// Exhaustive marks a part as having enumerated its finite space completely.
func (r *Recorder) Exhaustive(part string) {
	r.mu.Lock()
	r.part(part).Exhaustive = true
	r.mu.Unlock()
}

// Note attaches a free-text note to a part.
func (r *Recorder) Note(part, note string) {
	r.mu.Lock()
	p := r.part(part)
	if len(p.Notes) < 20 {
		p.Notes = append(p.Notes, note)
	}
	r.mu.Unlock()
}

// Flush writes the counters to $VERIF_OUT (JSON) and the hashes to $VERIF_OUT.hashes.
func (r *Recorder) Flush() {
	out := os.Getenv("VERIF_OUT")
	if out == "" {
		return
	}
	r.mu.Lock()
	defer r.mu.Unlock()
	type outT struct {
		Parts    map[string]*partRec `json:"parts"`
		WallS    float64             `json:"wall_s"`
		PeakKB   int64               `json:"peak_rss_kb"`
		Overflow []string            `json:"hash_overflow,omitempty"`
	}
	o := outT{Parts: r.parts, WallS: time.Since(r.start).Seconds(), PeakKB: peakRSS()}
	hf, err := os.Create(out + ".hashes")
	if err == nil {
		names := make([]string, 0, len(r.parts))
		for n := range r.parts {
			names = append(names, n)
		}
		sort.Strings(names)
		for _, n := range names {
			p := r.parts[n]
			if p.overflow {
				o.Overflow = append(o.Overflow, n)
			}
			for h := range p.hashes {
				fmt.Fprintf(hf, "%s %016x\n", n, h)
			}
		}
		hf.Close()
	}
	b, _ := json.Marshal(o)
	_ = os.WriteFile(out, b, 0o644)
}

// Main is the TestMain body of every property package.
// peakRSS reads the process's peak resident set size (VmHWM) in kB.
func peakRSS() int64 {
	b, err := os.ReadFile("/proc/self/status")
	if err != nil {
		return 0
	}
	for _, l := range strings.Split(string(b), "\n") {
		if strings.HasPrefix(l, "VmHWM:") {
			f := strings.Fields(l)
			if len(f) >= 2 {
				n, _ := strconv.ParseInt(f[1], 10, 64)
				return n
			}
		}
	}
	return 0
}

func Main(m *testing.M) {
	logger.SetLevel("FATAL")
	code := m.Run()
	rec.Flush()
	os.Exit(code)
}

// Failure describes a violation found by a property.
type Failure struct {
	Property  string      `json:"property"`
	Part      string      `json:"part"`
	Signature string      `json:"signature"`
	Message   string      `json:"message"`
	Case      interface{} `json:"case"`
	Extra     interface{} `json:"extra,omitempty"`
	Seed      int64       `json:"seed"`
	Tier      string      `json:"tier"`
}

// ReplayDir returns the directory replay files are written to.
func ReplayDir() string {
	d := os.Getenv("VERIF_REPLAY_DIR")
	if d == "" {
		d = "/verif/replays"
	}
	return d
}

// TB is the subset of testing.TB / rapid.T used by Fail.
type TB interface {
	Fatalf(format string, args ...interface{})
	Logf(format string, args ...interface{})
}

var failMu sync.Mutex

// WriteFailure writes the replay file for f and prints the VERIF-FAIL line
// (rapid calls the property again while shrinking; the file is overwritten so
// the last write is the minimal case). It returns the replay path.
func WriteFailure(f Failure) string {
	failMu.Lock()
	defer failMu.Unlock()
	f.Seed, f.Tier = Seed(), Tier()
	if os.Getenv("VERIF_REPLAYING") != "" {
		fmt.Printf("VERIF-REPLAY-FAIL property=%s part=%s sig=%s msg=%s\n", f.Property, f.Part, f.Signature, oneLine(f.Message))
		return os.Getenv("VERIF_REPLAY")
	}
	_ = os.MkdirAll(ReplayDir(), 0o755)
	sh, _ := Shard()
	tag := os.Getenv("VERIF_RUNTAG")
	name := fmt.Sprintf("%s-%s-seed%d-sh%d%s.json", f.Property, sanitize(f.Part), Seed(), sh, tag)
	path := filepath.Join(ReplayDir(), name)
	b, err := json.MarshalIndent(f, "", " ")
	if err != nil {
		b, _ = json.Marshal(map[string]string{"property": f.Property, "part": f.Part, "signature": f.Signature,
			"message": f.Message, "marshal_error": err.Error()})
	}
	_ = os.WriteFile(path, b, 0o644)
	fmt.Printf("VERIF-FAIL property=%s part=%s replay=%s sig=%s msg=%s\n", f.Property, f.Part, path, f.Signature, oneLine(f.Message))
	return path
}

// Fail records a violation and fails the test.
func Fail(t TB, f Failure) {
	WriteFailure(f)
	// rapid only shrinks failures whose error text is identical on re-execution, so the
	// fatal text is the (deterministic) signature; the full message is logged and saved.
	t.Logf("[%s/%s] %s", f.Property, f.Part, f.Message)
	t.Fatalf("[%s/%s] violation signature %s", f.Property, f.Part, f.Signature)
}

func oneLine(s string) string {
	s = strings.ReplaceAll(s, "\n", "\\n")
	if len(s) > 400 {
		s = s[:400] + "..."
	}
	return s
}

func sanitize(s string) string {
	b := []byte(s)
	for i, c := range b {
		if !(c >= 'a' && c <= 'z' || c >= 'A' && c <= 'Z' || c >= '0' && c <= '9' || c == '_' || c == '-') {
			b[i] = '_'
		}
	}
	return string(b)
}

// Known reports whether a failure signature is listed as a known finding
// ($VERIF_KNOWN holds the signatures of entries with status "known", one per line).
func Known(sig string) bool {
	knownOnce.Do(func() {
		known = map[string]bool{}
		for _, l := range strings.Split(os.Getenv("VERIF_KNOWN"), "\n") {
			l = strings.TrimSpace(l)
			if l != "" {
				known[l] = true
			}
		}
	})
	return known[sig]
}

var (
	knownOnce sync.Once
	known     map[string]bool
)

// ReportKnown prints the line the driver turns into a KNOWN-FINDING line.
func ReportKnown(property, sig, what string) {
	fmt.Printf("VERIF-KNOWN property=%s sig=%s what=%s\n", property, sig, oneLine(what))
}

// CurrentCase writes the case about to be executed to $VERIF_CUR so that a crash
// of the whole process can be attributed to it. No-op when unset.
func CurrentCase(property, part string, c interface{}) {
	cur := os.Getenv("VERIF_CUR")
	if cur == "" {
		return
	}
	b, err := json.Marshal(Failure{Property: property, Part: part, Signature: "process-crash", Message: "process died while executing this case", Case: c, Seed: Seed(), Tier: Tier()})
	if err != nil {
		return
	}
	_ = os.WriteFile(cur, b, 0o644)
}

// ClearCurrentCase removes $VERIF_CUR (called after a case finished).
func ClearCurrentCase() {
	if cur := os.Getenv("VERIF_CUR"); cur != "" {
		_ = os.Remove(cur)
	}
}

// Replayers maps part names to functions re-executing a case from raw JSON.
var replayers = map[string]func(t *testing.T, raw json.RawMessage){}

// RegisterReplay registers the replay function of a part.
func RegisterReplay(part string, f func(t *testing.T, raw json.RawMessage)) { replayers[part] = f }

// RunReplay is the body of TestReplay in each property package.
func RunReplay(t *testing.T) {
	path := os.Getenv("VERIF_REPLAY")
	if path == "" {
		t.Skip("no VERIF_REPLAY")
	}
	os.Setenv("VERIF_REPLAYING", "1")
	b, err := os.ReadFile(path)
	if err != nil {
		t.Fatalf("read replay: %v", err)
	}
	var f struct {
		Part string          `json:"part"`
		Case json.RawMessage `json:"case"`
	}
	if err := json.Unmarshal(b, &f); err != nil {
		t.Fatalf("parse replay: %v", err)
	}
	fn, ok := replayers[f.Part]
	if !ok {
		t.Fatalf("no replayer for part %q", f.Part)
	}
	fn(t, f.Case)
}

// JSON renders v compactly (for hashing / keys).
func JSON(v interface{}) string {
	b, err := json.Marshal(v)
	if err != nil {
		return fmt.Sprintf("%#v", v)
	}
	return string(b)
}

// HexTrunc renders bytes as hex, truncated for samples.
func HexTrunc(b []byte, n int) string {
	if len(b) <= n {
		return hex.EncodeToString(b)
	}
	return hex.EncodeToString(b[:n]) + fmt.Sprintf("...(+%d bytes)", len(b)-n)
}

// Stacks returns all goroutine stacks.
func Stacks() string {
	buf := make([]byte, 1<<20)
	for {
		n := runtime.Stack(buf, true)
		if n < len(buf) {
			return string(buf[:n])
		}
		buf = make([]byte, 2*len(buf))
	}
}
