// Package c03 decides property C03: on a stable cluster the proxy behaves like a
// single Redis server.
package c03

import (
	"bytes"
	"encoding/json"
	"fmt"
	"strings"
	"sync"
	"testing"
	"time"

	"pgregory.net/rapid"

	"verif/harness/gen"
	"verif/harness/ref"
	"verif/harness/sim"
	"verif/harness/vh"
)

const prop = "C03"

func TestMain(m *testing.M) { vh.Main(m) }

type verdict struct{ sig, msg string }

type progCase struct {
	Layout    sim.Layout   `json:"layout"`
	Conns     [][][][]byte `json:"conns"` // per connection: list of commands (args)
	Pipelined []bool       `json:"pipelined"`
	// RefreshUs: the periodic slot refresh runs every RefreshUs microseconds while the programs run (0: production rate, no
	// refresh during the case). The layout does not change: every refresh reads the same table, and routing must not notice.
	RefreshUs int `json:"refresh_us,omitempty"`
}

type progInfo struct {
	splitSpans, special, bigValue, refreshing bool
}

const replyTimeout = 20 * time.Second

func checkProg(c progCase) (inf progInfo, v *verdict) {
	w, err := sim.NewLayoutWorld(c.Layout)
	if err != nil {
		return inf, nil
	}
	defer w.Close()
	if c.RefreshUs > 0 {
		// the timers are read when the refresh loop arms them: set before the proxy starts
		of, om := sim.SetRefreshTimers(time.Duration(c.RefreshUs)*time.Microsecond, time.Duration(c.RefreshUs)*time.Microsecond/2)
		defer sim.SetRefreshTimers(of, om)
		inf.refreshing = true
	} else {
		defer sim.ProductionRefreshRate()() // stable layout: see the function
	}
	px, err := sim.StartProxy(sim.ProxyOpts{Seeds: w.Addrs(w.Masters())})
	if err != nil {
		return inf, &verdict{"proxy-start", err.Error()}
	}
	defer px.Stop(20 * time.Second)
	if !px.WaitTableLoaded(1, 10*time.Second) {
		return inf, &verdict{"table-not-loaded", "the routing table was not loaded within 10s on a healthy cluster"}
	}
	w.ResetLog()
	m0, a0 := w.Redirects()

	// reference run: connections use disjoint key pools, so one keyspace serves all
	ks := ref.NewKeyspace()
	type exp struct {
		reply   ref.Value
		local   bool
		backend []sim.BackendCmd
	}
	exps := make([][]exp, len(c.Conns))
	expectedBackend := map[string]int{}
	for ci, prog := range c.Conns {
		for _, args := range prog {
			r, be, local := sim.Expect(ks, args)
			exps[ci] = append(exps[ci], exp{r, local, be})
			nodes := map[int]bool{}
			for _, b := range be {
				node := w.Owner(ref.Slot(b.Key))
				nodes[node] = true
				expectedBackend[sim.ArgsKey(node, b.Args)]++
				if bytes.ContainsAny(b.Key, "\r\n\x00{}") {
					inf.special = true
				}
				for _, a := range b.Args {
					if len(a) >= 8192 {
						inf.bigValue = true
					}
					if bytes.ContainsAny(a, "\r\n\x00") {
						inf.special = true
					}
				}
			}
			if len(nodes) >= 2 {
				inf.splitSpans = true
			}
		}
	}

	var wg sync.WaitGroup
	res := make([]*verdict, len(c.Conns))
	for ci := range c.Conns {
		wg.Add(1)
		go func(ci int) {
			defer wg.Done()
			cl, err := sim.Dial(px.Addr)
			if err != nil {
				res[ci] = &verdict{"client-dial", err.Error()}
				return
			}
			defer cl.Close()
			prog := c.Conns[ci]
			check := func(i int, got ref.Value) *verdict {
				e := exps[ci][i]
				if e.local {
					if msg := sim.CheckLocal(prog[i], got); msg != "" {
						return &verdict{"local-reply-shape", fmt.Sprintf("conn %d cmd %d: %s", ci, i, msg)}
					}
					return nil
				}
				if !sim.SameReply(got, e.reply) {
					return &verdict{"reply-differs", fmt.Sprintf("conn %d cmd %d (%s): proxy answered %s, a single server answers %s", ci, i, sim.ArgsString(prog[i]), got, e.reply)}
				}
				return nil
			}
			if ci < len(c.Pipelined) && c.Pipelined[ci] {
				var all []byte
				for _, args := range prog {
					all = ref.Encode(all, ref.CmdB(args...))
				}
				go cl.Send(all, nil)
				for i := range prog {
					got, err := cl.Recv(replyTimeout)
					if err != nil {
						res[ci] = &verdict{"no-reply", fmt.Sprintf("conn %d cmd %d (%s): %v", ci, i, sim.ArgsString(prog[i]), err)}
						return
					}
					if v := check(i, got); v != nil {
						res[ci] = v
						return
					}
				}
				return
			}
			for i, args := range prog {
				got, err := cl.DoB(replyTimeout, args...)
				if err != nil {
					res[ci] = &verdict{"no-reply", fmt.Sprintf("conn %d cmd %d (%s): %v", ci, i, sim.ArgsString(args), err)}
					return
				}
				if v := check(i, got); v != nil {
					res[ci] = v
					return
				}
			}
		}(ci)
	}
	wg.Wait()
	for _, r := range res {
		if r != nil {
			return inf, r
		}
	}
	// routing and byte fidelity: the backends received exactly the expected commands, each at the owner of its key's slot
	got := map[string]int{}
	var sample *sim.Entry
	for _, e := range w.Snapshot() {
		if sim.IsBackground(e) {
			continue
		}
		got[sim.ArgsKey(e.Node, e.Args)]++
		sample = e
	}
	for k, n := range expectedBackend {
		if got[k] != n {
			return inf, &verdict{"backend-commands-differ", fmt.Sprintf("expected %d arrival(s) of %q at its slot owner, saw %d", n, clipS(k), got[k])}
		}
	}
	for k, n := range got {
		if expectedBackend[k] != n {
			_ = sample
			return inf, &verdict{"backend-commands-differ", fmt.Sprintf("backend received %d unexpected arrival(s) of %q", n-expectedBackend[k], clipS(k))}
		}
	}
	if m1, a1 := w.Redirects(); m1 != m0 || a1 != a0 {
		return inf, &verdict{"redirected-on-stable-cluster", fmt.Sprintf("%d MOVED and %d ASK replies were issued although the routing table was loaded", m1-m0, a1-a0)}
	}
	return inf, nil
}

func clipS(s string) string {
	if len(s) > 160 {
		return s[:160] + "..."
	}
	return s
}

func genLayout(t *rapid.T) sim.Layout {
	return sim.Layout{Masters: rapid.IntRange(1, 6).Draw(t, "masters"), Replicas: rapid.SampledFrom([]int{0, 0, 0, 1, 2}).Draw(t, "replicas"),
		Kind: rapid.SampledFrom([]string{"even", "striped", "random", "ranges"}).Draw(t, "kind"), Seed: rapid.Uint64().Draw(t, "lseed")}
}

func genProg(t *rapid.T) progCase {
	c := progCase{Layout: genLayout(t)}
	nc := rapid.SampledFrom([]int{1, 1, 2, 3, 4}).Draw(t, "conns")
	maxVal := 600
	if rapid.IntRange(0, 5).Draw(t, "bigvals") == 0 {
		maxVal = 65536
	}
	if vh.Thorough() && rapid.IntRange(0, 60).Draw(t, "huge") == 0 {
		maxVal = 3 << 20
	}
	if rapid.IntRange(0, 2).Draw(t, "refreshing") == 0 {
		c.RefreshUs = rapid.SampledFrom([]int{300, 1000, 5000}).Draw(t, "refresh_us")
	}
	for ci := 0; ci < nc; ci++ {
		pool := gen.NewKeyPool(t, ci, rapid.IntRange(2, 7).Draw(t, "pool"), true)
		n := rapid.IntRange(1, 60).Draw(t, "n")
		if rapid.Bool().Draw(t, "short") {
			n = 1 + n%12
		}
		var prog [][][]byte
		for i := 0; i < n; i++ {
			prog = append(prog, gen.Command(t, pool, maxVal))
		}
		c.Conns = append(c.Conns, prog)
		c.Pipelined = append(c.Pipelined, rapid.IntRange(0, 2).Draw(t, "pipelined") == 0)
	}
	return c
}

func describe(c progCase) interface{} {
	var progs []interface{}
	for ci, p := range c.Conns {
		var cmds []string
		for i, a := range p {
			if i >= 8 {
				cmds = append(cmds, fmt.Sprintf("...(%d commands)", len(p)))
				break
			}
			cmds = append(cmds, sim.ArgsString(a))
		}
		progs = append(progs, map[string]interface{}{"conn": ci, "pipelined": c.Pipelined[ci], "commands": cmds})
	}
	return map[string]interface{}{"layout": c.Layout, "programs": progs}
}

func TestStable(t *testing.T) {
	rapid.Check(t, func(t *rapid.T) {
		c := genProg(t)
		vh.CurrentCase(prop, "stable", c)
		inf, v := checkProg(c)
		vh.ClearCurrentCase()
		if v != nil {
			vh.Fail(t, vh.Failure{Property: prop, Part: "stable", Signature: v.sig, Message: v.msg, Case: c})
		}
		nt := inf.splitSpans || inf.special || inf.bigValue || len(c.Conns) >= 2
		vh.Rec().Case("stable", nt, vh.JSON(c))
		if inf.splitSpans {
			vh.Rec().Class("stable", "split_command_spans>=2_nodes")
		}
		if inf.special {
			vh.Rec().Class("stable", "key_or_value_with_CR_LF_NUL_braces")
		}
		if inf.bigValue {
			vh.Rec().Class("stable", "value>=8KiB")
		}
		if len(c.Conns) >= 2 {
			vh.Rec().Class("stable", ">=2_connections")
		}
		if inf.refreshing {
			vh.Rec().Class("stable", "table_refreshed_every_0.3..5ms_while_the_programs_run")
		}
		vh.Rec().Class("stable", "layout_"+c.Layout.Kind)
		vh.Rec().Sample("stable", nt, func() interface{} { return describe(c) })
	})
}

func init() {
	vh.RegisterReplay("stable", func(t *testing.T, raw json.RawMessage) {
		var c progCase
		if err := json.Unmarshal(raw, &c); err != nil {
			t.Fatal(err)
		}
		if _, v := checkProg(c); v != nil {
			vh.Fail(t, vh.Failure{Property: prop, Part: "stable", Signature: v.sig, Message: v.msg, Case: c})
		}
	})
	_ = strings.ToLower
}

func TestReplay(t *testing.T) { vh.RunReplay(t) }

// ---- wide split commands under concurrency: the combined reply must not depend on how the nodes' answers interleave

type wideCase struct {
	Layout sim.Layout `json:"layout"`
	Keys   int        `json:"keys"`
	Conns  int        `json:"conns"`
	Rounds int        `json:"rounds"`
	// RefreshUs: see progCase
	RefreshUs int `json:"refresh_us,omitempty"`
}

func checkWide(c wideCase) *verdict {
	w, err := sim.NewLayoutWorld(c.Layout)
	if err != nil {
		return nil
	}
	defer w.Close()
	if c.RefreshUs > 0 {
		of, om := sim.SetRefreshTimers(time.Duration(c.RefreshUs)*time.Microsecond, time.Duration(c.RefreshUs)*time.Microsecond/2)
		defer sim.SetRefreshTimers(of, om)
	} else {
		defer sim.ProductionRefreshRate()() // stable layout: see the function
	}
	px, err := sim.StartProxy(sim.ProxyOpts{Seeds: w.Addrs(w.Masters())})
	if err != nil {
		return &verdict{"proxy-start", err.Error()}
	}
	defer px.Stop(20 * time.Second)
	if !px.WaitTableLoaded(1, 10*time.Second) {
		return &verdict{"table-not-loaded", "routing table not loaded"}
	}
	m0, a0 := w.Redirects()
	var wg sync.WaitGroup
	res := make([]*verdict, c.Conns)
	for ci := 0; ci < c.Conns; ci++ {
		wg.Add(1)
		go func(ci int) {
			defer wg.Done()
			cl, err := sim.Dial(px.Addr)
			if err != nil {
				return
			}
			defer cl.Close()
			keys := make([]string, c.Keys)
			mset := []string{"MSET"}
			for i := range keys {
				keys[i] = fmt.Sprintf("w%d:%d", ci, i)
				mset = append(mset, keys[i], "v"+keys[i])
			}
			if r, err := cl.Do(replyTimeout, mset...); err != nil || !ref.Equal(r, ref.OKV()) {
				res[ci] = &verdict{"reply-differs", fmt.Sprintf("MSET of %d keys answered %s (%v)", c.Keys, r, err)}
				return
			}
			wantArr := make([]ref.Value, len(keys))
			for i, k := range keys {
				wantArr[i] = ref.BulkS("v" + k)
			}
			for r := 0; r < c.Rounds; r++ {
				for _, cmd := range []string{"EXISTS", "TOUCH", "MGET"} {
					got, err := cl.Do(replyTimeout, append([]string{cmd}, keys...)...)
					if err != nil {
						res[ci] = &verdict{"no-reply", fmt.Sprintf("%s of %d keys: %v", cmd, c.Keys, err)}
						return
					}
					want := ref.IntV(int64(c.Keys))
					if cmd == "MGET" {
						want = ref.ArrV(wantArr...)
					}
					if !ref.Equal(got, want) {
						res[ci] = &verdict{"reply-differs", fmt.Sprintf("round %d: %s of %d existing keys spread over %d nodes answered %s, a single server answers %s", r, cmd, c.Keys, c.Layout.Masters, got, want)}
						return
					}
				}
			}
			if got, err := cl.Do(replyTimeout, append([]string{"DEL"}, keys...)...); err != nil || !ref.Equal(got, ref.IntV(int64(c.Keys))) {
				res[ci] = &verdict{"reply-differs", fmt.Sprintf("DEL of %d existing keys answered %s (%v)", c.Keys, got, err)}
			}
		}(ci)
	}
	wg.Wait()
	for _, r := range res {
		if r != nil {
			return r
		}
	}
	if m1, a1 := w.Redirects(); m1 != m0 || a1 != a0 {
		return &verdict{"redirected-on-stable-cluster", fmt.Sprintf("%d MOVED and %d ASK replies were issued although the layout never changed and the routing table was loaded (table refreshed every %d us while the commands ran)", m1-m0, a1-a0, c.RefreshUs)}
	}
	return nil
}

func TestWideSplit(t *testing.T) {
	rapid.Check(t, func(t *rapid.T) {
		c := wideCase{Layout: sim.Layout{Masters: rapid.IntRange(2, 6).Draw(t, "masters"), Kind: rapid.SampledFrom([]string{"even", "striped", "random"}).Draw(t, "kind"), Seed: rapid.Uint64().Draw(t, "lseed")},
			Keys: rapid.SampledFrom([]int{2, 8, 32, 128, 256}).Draw(t, "keys"), Conns: rapid.IntRange(1, 4).Draw(t, "conns"), Rounds: rapid.IntRange(5, 60).Draw(t, "rounds"),
			RefreshUs: rapid.SampledFrom([]int{0, 0, 300, 2000}).Draw(t, "refresh_us")}
		vh.CurrentCase(prop, "wide", c)
		v := checkWide(c)
		vh.ClearCurrentCase()
		if v != nil {
			vh.Fail(t, vh.Failure{Property: prop, Part: "wide", Signature: v.sig, Message: v.msg, Case: c})
		}
		vh.Rec().Case("wide", true, vh.JSON(c))
		vh.Rec().ClassN("wide", "wide_split_commands", int64(c.Conns*c.Rounds*3))
		vh.Rec().Sample("wide", true, func() interface{} { return c })
	})
}

func init() {
	vh.RegisterReplay("wide", func(t *testing.T, raw json.RawMessage) {
		var c wideCase
		json.Unmarshal(raw, &c)
		for i := 0; i < 5; i++ {
			if v := checkWide(c); v != nil {
				vh.Fail(t, vh.Failure{Property: prop, Part: "wide", Signature: v.sig, Message: v.msg, Case: c})
			}
		}
	})
}
