// Package c09 decides property C09: stop and drain always complete and release
// what they hold; the connection limit is respected.
package c09

import (
	"encoding/json"
	"fmt"
	hcpb "github.com/samaritan-proxy/samaritan/pb/config/hc"
	"net"
	"strings"
	"sync"
	"sync/atomic"
	"testing"
	"time"

	"github.com/samaritan-proxy/samaritan/host"
	"github.com/samaritan-proxy/samaritan/proc"
	"github.com/samaritan-proxy/samaritan/utils/verifpoint"
	"pgregory.net/rapid"

	"verif/harness/portres"
	"verif/harness/ref"
	"verif/harness/sim"
	"verif/harness/statpurge"
	"verif/harness/tcpsim"
	"verif/harness/vh"
)

const prop = "C09"

func TestMain(m *testing.M) { vh.Main(m) }

type verdict struct{ sig, msg string }

type stopCase struct {
	Kind       string `json:"kind"`     // tcp, redis
	Occupied   int    `json:"occupied"` // the port is held by another listener for about this many bind retries (0: free)
	Backend    string `json:"backend"`  // responsive, silent, closed, chatty
	Conns      int    `json:"conns"`    // client connections established before the stop (0 if the stop comes earlier)
	InFlight   int    `json:"in_flight"`
	StopAt     string `json:"stop_at"` // immediately, before-start, before-bind, retry-sleep, after-bind, before-accept, serving
	DrainFirst bool   `json:"drain_first"`
	DrainOnly  bool   `json:"drain_only"` // only StopListen is called at the point; Stop follows after the port was probed
	HoldMs     int    `json:"hold_ms"`
	// CfgUpdates: configuration updates delivered to a TCP service while it serves, before the stop (from the same goroutine,
	// as the controller does): each sets the health check to 0 none, 1 a TCP checker, 2 a Redis checker, 3 a MySQL checker
	CfgUpdates []int `json:"cfg_updates,omitempty"`
}

const stopDeadline = 10 * time.Second

func procGoroutines() (int, string) {
	n := 0
	var sample []string
	for _, g := range strings.Split(vh.Stacks(), "\n\n") {
		if !(strings.Contains(g, "samaritan/proc.(*listener)") || strings.Contains(g, "samaritan/proc/redis.") || strings.Contains(g, "samaritan/proc/tcp.") || strings.Contains(g, "proc/internal/hc.(*Monitor)")) {
			continue
		}
		// the harness's own frames are not the service's
		if strings.Contains(g, "props/c09.") && !strings.Contains(g, "samaritan/proc.(*listener).Serve") && !strings.Contains(g, "samaritan/proc/redis.(*") && !strings.Contains(g, "samaritan/proc/tcp.(*") {
			continue
		}
		n++
		if len(sample) < 4 {
			lines := strings.Split(g, "\n")
			if len(lines) > 7 {
				lines = lines[:7]
			}
			sample = append(sample, strings.Join(lines, "\n"))
		}
	}
	return n, strings.Join(sample, "\n--\n")
}

func checkStop(c stopCase) (nt bool, v *verdict) {
	base, _ := procGoroutines()
	// backend
	var backendAddr string
	var w *sim.World
	var tb *tcpsim.Backend
	var backendConns func() int
	if c.Kind == "redis" {
		var err error
		w, err = sim.NewWorld(1, 0)
		if err != nil {
			return false, nil
		}
		defer w.Close()
		w.AssignEven(w.Masters())
		backendAddr = w.Nodes[0].Addr
		switch c.Backend {
		case "silent":
			w.Lock()
			w.Nodes[0].Silent = true
			w.Unlock()
		case "closed":
			w.Nodes[0].Stop()
		case "chatty":
			w.Lock()
			w.Hostile = func(n *sim.Node, args [][]byte) []byte {
				if strings.EqualFold(string(args[0]), "get") {
					return []byte("$1\r\na\r\n+SURPLUS\r\n:1\r\n") // more replies than requests
				}
				return nil
			}
			w.Unlock()
		}
		backendConns = func() int { return w.Nodes[0].ConnCount() }
	} else {
		var err error
		var open int32
		tb, err = tcpsim.NewBackend(func(bc net.Conn, n int) {
			atomic.AddInt32(&open, 1)
			defer atomic.AddInt32(&open, -1)
			defer bc.Close()
			buf := make([]byte, 4096)
			for {
				k, err := bc.Read(buf)
				if err != nil {
					return
				}
				if c.Backend == "responsive" {
					bc.Write(buf[:k])
				}
				if c.Backend == "chatty" {
					bc.Write(append(buf[:k], "unsolicited"...))
				}
			}
		})
		if err != nil {
			return false, nil
		}
		defer tb.Close()
		backendAddr = tb.Addr
		if c.Backend == "closed" {
			tb.Stop(true)
		}
		backendConns = func() int { return int(atomic.LoadInt32(&open)) }
	}
	// port: occupied by a plain (non reuseport) listener for the first retries
	var port uint32
	var occupier net.Listener
	if c.Occupied == 0 {
		// a known port, so the listener can be probed even if it never reports its address. The port stays reserved for
		// this case (the service binds with SO_REUSEPORT, see package portres): while the service does not listen a
		// connect is refused, and no listener of a concurrently running check can get the port and answer a probe.
		if r, err := portres.Reserve(); err == nil {
			port = uint32(r.Port)
			defer r.Release()
		}
	}
	if c.Occupied > 0 {
		l, err := net.Listen("tcp", "127.0.0.1:0")
		if err != nil {
			return false, nil
		}
		occupier = l
		port = uint32(l.Addr().(*net.TCPAddr).Port)
		defer func() {
			if occupier != nil {
				occupier.Close()
			}
		}()
	}
	var p proc.Proc
	var svcName string
	if c.Kind == "redis" {
		cfg := sim.RedisConfig(sim.ProxyOpts{ConnectTimeout: 100 * time.Millisecond})
		cfg.Listener.Address.Port = port
		name := fmt.Sprintf("c09r%d", atomic.AddInt64(&nameCtr, 1))
		statpurge.Sweep()
		pp, err := proc.New(name, cfg, []*host.Host{host.New(backendAddr)})
		if err != nil {
			return false, &verdict{"proc-construct", err.Error()}
		}
		p = pp
		svcName = name
	} else {
		px, err := tcpsim.New(tcpsim.Opts{Hosts: []*host.Host{host.New(backendAddr)}, IdleTimeout: time.Second, Port: port})
		if err != nil {
			return false, &verdict{"proc-construct", err.Error()}
		}
		p = px.P
		svcName = px.Name
	}
	// schedule: stop at a pause point
	stopCalled := make(chan struct{})
	stopReturned := make(chan struct{})
	var once sync.Once
	probeAddr := ""
	if port != 0 {
		probeAddr = fmt.Sprintf("127.0.0.1:%d", port)
	}
	var drainVerdict *verdict
	doStop := func() {
		once.Do(func() {
			close(stopCalled)
			go func() {
				if c.DrainFirst || c.DrainOnly {
					p.StopListen()
				}
				if c.DrainOnly && probeAddr != "" && c.Occupied == 0 {
					// after StopListen returned the service must not accept any more, however the drain was timed
					// relative to the bind: probe for a while (the bind may complete after the drain)
					deadline := time.Now().Add(700 * time.Millisecond)
					for time.Now().Before(deadline) && drainVerdict == nil {
						if cl, err := net.DialTimeout("tcp", probeAddr, 200*time.Millisecond); err == nil {
							served := false
							cl.SetDeadline(time.Now().Add(300 * time.Millisecond))
							if c.Kind == "redis" {
								cl.Write([]byte("PING\r\n"))
								b := make([]byte, 8)
								n, _ := cl.Read(b)
								served = n > 0
							} else if c.Backend == "responsive" {
								cl.Write([]byte("x"))
								b := make([]byte, 8)
								n, _ := cl.Read(b)
								served = n > 0
							}
							cl.Close()
							if served {
								drainVerdict = &verdict{"accepts-after-drain", fmt.Sprintf("StopListen was called %s (and returned), yet a new connection to %s was served afterwards", c.StopAt, probeAddr)}
							}
						}
						time.Sleep(20 * time.Millisecond)
					}
				}
				p.Stop()
				statpurge.MarkStopped(svcName)
				close(stopReturned)
			}()
		})
	}
	point := map[string]string{"before-bind": "listener.serve.before-bind", "retry-sleep": "listener.serve.retry-sleep",
		"after-bind": "listener.serve.after-bind", "before-accept": "listener.serve.before-accept"}[c.StopAt]
	var fired int32
	verifpoint.SetHandler(func(name string, arg interface{}) {
		if point == "" || name != point || !atomic.CompareAndSwapInt32(&fired, 0, 1) {
			return
		}
		doStop()
		time.Sleep(time.Duration(c.HoldMs) * time.Millisecond) // let Stop run while Serve is parked here
	})
	defer verifpoint.SetHandler(nil)

	if c.StopAt == "before-start" {
		doStop()
		time.Sleep(time.Duration(c.HoldMs) * time.Millisecond)
	}
	if err := p.Start(); err != nil {
		return false, &verdict{"proc-start", err.Error()}
	}
	if c.StopAt == "immediately" {
		doStop()
	}
	if c.Occupied > 0 {
		go func() {
			time.Sleep(time.Duration(c.Occupied)*500*time.Millisecond - 200*time.Millisecond)
			occupier.Close()
		}()
	}
	var clients []net.Conn
	defer func() {
		for _, cl := range clients {
			cl.Close()
		}
	}()
	addr := ""
	if c.StopAt == "serving" {
		deadline := time.Now().Add(time.Duration(c.Occupied)*600*time.Millisecond + 3*time.Second)
		for addr == "" && time.Now().Before(deadline) {
			addr = p.Address()
			time.Sleep(time.Millisecond)
		}
		if addr == "" {
			doStop()
			<-waitOr(stopReturned, stopDeadline)
			return false, &verdict{"never-listening", "the service did not start listening"}
		}
		for i := 0; i < c.Conns; i++ {
			cl, err := net.DialTimeout("tcp", addr, 2*time.Second)
			if err != nil {
				break
			}
			clients = append(clients, cl)
			for k := 0; k < c.InFlight; k++ {
				if c.Kind == "redis" {
					cl.Write(ref.Enc(ref.Cmd("GET", fmt.Sprintf("k%d", k))))
				} else {
					cl.Write([]byte("ping"))
				}
			}
		}
		time.Sleep(time.Duration(c.HoldMs) * time.Millisecond)
		if c.Kind == "tcp" {
			for _, u := range c.CfgUpdates {
				var nhc *hcpb.HealthCheck
				if u > 0 {
					nhc = &hcpb.HealthCheck{Interval: 20 * time.Millisecond, Timeout: 100 * time.Millisecond, FallThreshold: 1, RiseThreshold: 1}
					switch u {
					case 1:
						nhc.Checker = &hcpb.HealthCheck_TcpChecker{TcpChecker: &hcpb.TCPChecker{}}
					case 2:
						nhc.Checker = &hcpb.HealthCheck_RedisChecker{RedisChecker: &hcpb.RedisChecker{}}
					default:
						nhc.Checker = &hcpb.HealthCheck_MysqlChecker{MysqlChecker: &hcpb.MySQLChecker{}}
					}
				}
				ncfg := tcpsim.Config(tcpsim.Opts{HealthCheck: nhc, IdleTimeout: time.Second})
				ncfg.Listener = p.Config().Listener
				func() {
					defer func() { recover() }() // a panic here is C06's subject (config op of its e2e part)
					p.OnSvcConfigUpdate(ncfg)
				}()
				time.Sleep(30 * time.Millisecond) // a check round or two
			}
		}
		doStop()
	}
	nt = c.StopAt != "serving" || c.Conns > 0 || c.Backend != "responsive" || len(c.CfgUpdates) > 0
	select {
	case <-stopCalled:
	case <-time.After(5 * time.Second):
		// the pause point was never reached (e.g. retry-sleep on a free port): stop now
		doStop()
	}
	select {
	case <-stopReturned:
	case <-time.After(stopDeadline):
		d1 := vh.Stacks()
		time.Sleep(time.Second)
		_, where := procGoroutines()
		_ = d1
		return nt, &verdict{"stop-never-returns", fmt.Sprintf("Stop (drain first: %v) called %s did not return within %v; service goroutines still parked:\n%s", c.DrainFirst, c.StopAt, stopDeadline, where)}
	}
	if drainVerdict != nil {
		return nt, drainVerdict
	}
	// the port is closed
	if addr == "" {
		addr = p.Address()
	}
	if addr != "" {
		if cl, err := net.DialTimeout("tcp", addr, time.Second); err == nil {
			// a listener may still be there only if it is the occupier's
			cl.SetReadDeadline(time.Now().Add(2 * time.Second))
			b := make([]byte, 1)
			_, rerr := cl.Read(b)
			cl.Close()
			if ne, ok := rerr.(net.Error); ok && ne.Timeout() && occupier == nil {
				return nt, &verdict{"port-still-open", fmt.Sprintf("after Stop a connection to %s is still accepted and held", addr)}
			}
		}
	}
	// every client connection is closed (see heldOpen for why a probe is written first)
	probe := []byte("x")
	if c.Kind == "redis" {
		probe = []byte("PING\r\n")
	}
	for i, cl := range clients {
		if heldOpen(cl, probe, 5*time.Second) {
			return nt, &verdict{"downstream-connection-left-open", fmt.Sprintf("client connection %d is still open 5s after Stop returned", i)}
		}
	}
	// every backend connection is closed, no goroutine of the service remains
	deadline := time.Now().Add(5 * time.Second)
	for {
		bc := backendConns()
		n, where := procGoroutines()
		if bc == 0 && n <= base {
			break
		}
		if time.Now().After(deadline) {
			if bc != 0 {
				return nt, &verdict{"upstream-connection-left-open", fmt.Sprintf("%d backend connection(s) still open 5s after Stop returned", bc)}
			}
			return nt, &verdict{"goroutines-left", fmt.Sprintf("%d service goroutine(s) (baseline %d) remain 5s after Stop returned:\n%s", n, base, where)}
		}
		time.Sleep(5 * time.Millisecond)
	}
	return nt, nil
}

var nameCtr int64

// heldOpen reports whether the peer still holds the connection open d after the call: neither EOF nor a reset arrives.
// The probe is written first so that a connection without a peer socket (never accepted by the service, its reset lost or
// never sent) is answered with a reset instead of looking idle; the kernel retransmits the probe until it is.
func heldOpen(cl net.Conn, probe []byte, d time.Duration) bool {
	deadline := time.Now().Add(d)
	cl.SetDeadline(deadline)
	cl.Write(probe)
	buf := make([]byte, 4096)
	for {
		_, err := cl.Read(buf)
		if err == nil {
			continue
		}
		ne, ok := err.(net.Error)
		return ok && ne.Timeout()
	}
}

func waitOr(ch chan struct{}, d time.Duration) chan struct{} {
	out := make(chan struct{})
	go func() {
		select {
		case <-ch:
		case <-time.After(d):
		}
		close(out)
	}()
	return out
}

func genStop(t *rapid.T) stopCase {
	c := stopCase{Kind: rapid.SampledFrom([]string{"tcp", "redis"}).Draw(t, "kind"),
		Backend:    rapid.SampledFrom([]string{"responsive", "responsive", "silent", "closed", "chatty"}).Draw(t, "backend"),
		StopAt:     rapid.SampledFrom([]string{"immediately", "before-start", "before-bind", "retry-sleep", "after-bind", "before-accept", "serving", "serving", "serving"}).Draw(t, "stopat"),
		DrainFirst: rapid.IntRange(0, 2).Draw(t, "drain") == 0, HoldMs: rapid.SampledFrom([]int{0, 1, 5, 30}).Draw(t, "hold")}
	if c.StopAt == "retry-sleep" || rapid.IntRange(0, 5).Draw(t, "occ") == 0 {
		c.Occupied = 1
	}
	if c.StopAt != "before-start" && rapid.IntRange(0, 2).Draw(t, "drainonly") == 0 {
		c.DrainOnly = true
	}
	if c.StopAt == "serving" {
		c.Conns = rapid.IntRange(0, 5).Draw(t, "conns")
		c.InFlight = rapid.IntRange(0, 5).Draw(t, "inflight")
		if c.Kind == "tcp" && rapid.IntRange(0, 2).Draw(t, "cfgupd") == 0 {
			c.CfgUpdates = rapid.SliceOfN(rapid.IntRange(0, 3), 1, 4).Draw(t, "cfgupdates")
		}
		// more requests in flight than a session's queue (32) holds: its reader is parked, not reading; and, rarely, more over all
		// sessions than the two queues of a backend connection (2 x 1024) hold: the readers are parked inside the backend client's Send
		switch rapid.IntRange(0, 11).Draw(t, "deep") {
		case 0, 1:
			c.InFlight = rapid.SampledFrom([]int{32, 33, 34, 40, 100, 400}).Draw(t, "inflight2")
		case 2:
			if vh.Thorough() || rapid.IntRange(0, 3).Draw(t, "rare") == 0 {
				c.Conns, c.InFlight = rapid.IntRange(64, 90).Draw(t, "conns2"), 40
			}
		}
	}
	return c
}

func TestStop(t *testing.T) {
	rapid.Check(t, func(t *rapid.T) {
		c := genStop(t)
		vh.CurrentCase(prop, "stop", c)
		nt, v := checkStop(c)
		vh.ClearCurrentCase()
		if v != nil {
			vh.Fail(t, vh.Failure{Property: prop, Part: "stop", Signature: v.sig, Message: v.msg, Case: c})
		}
		vh.Rec().Case("stop", nt, vh.JSON(c))
		vh.Rec().Class("stop", c.Kind+"_stop_"+c.StopAt)
		vh.Rec().Class("stop", c.Kind+"_backend_"+c.Backend)
		vh.Rec().Sample("stop", nt, func() interface{} { return c })
	})
}

// ---- drain and connection limit

type limCase struct {
	Kind  string `json:"kind"`
	Limit int    `json:"limit"`
	Ops   []int  `json:"ops"` // >0: open that many connections at once; <0: close one (index -op-1 mod open); 0: drain (once)
}

func checkLimit(c limCase) (nt bool, v *verdict) {
	var addr string
	var stop func()
	serve := func(cl net.Conn) bool { // is this connection served? (echo / PONG)
		cl.SetDeadline(time.Now().Add(3 * time.Second))
		if c.Kind == "redis" {
			cl.Write([]byte("PING\r\n"))
		} else {
			cl.Write([]byte("x"))
		}
		b := make([]byte, 16)
		n, _ := cl.Read(b)
		return n > 0
	}
	var pp proc.Proc
	if c.Kind == "redis" {
		w, err := sim.NewWorld(1, 0)
		if err != nil {
			return false, nil
		}
		defer w.Close()
		w.AssignEven(w.Masters())
		px, err := sim.StartProxy(sim.ProxyOpts{Seeds: w.AllAddrs(), ConnLimit: uint32(c.Limit)})
		if err != nil {
			return false, &verdict{"proxy-start", err.Error()}
		}
		addr, pp = px.Addr, px.P
		stop = func() { px.Stop(20 * time.Second) }
	} else {
		tb, err := tcpsim.NewBackend(func(bc net.Conn, n int) {
			defer bc.Close()
			buf := make([]byte, 64)
			for {
				k, err := bc.Read(buf)
				if err != nil {
					return
				}
				bc.Write(buf[:k])
			}
		})
		if err != nil {
			return false, nil
		}
		defer tb.Close()
		px, err := tcpsim.Start(tcpsim.Opts{Hosts: []*host.Host{host.New(tb.Addr)}, ConnLimit: uint32(c.Limit)})
		if err != nil {
			return false, &verdict{"proxy-start", err.Error()}
		}
		addr, pp = px.Addr, px.P
		stop = func() { px.Stop(20 * time.Second) }
	}
	defer stop()
	var open []net.Conn
	defer func() {
		for _, cl := range open {
			cl.Close()
		}
	}()
	drained := false
	for i, o := range c.Ops {
		where := fmt.Sprintf("step %d (%d)", i, o)
		switch {
		case o == 0:
			if drained {
				continue
			}
			pp.StopListen()
			drained = true
			nt = true
			// new connections are refused, established ones keep working
			time.Sleep(5 * time.Millisecond)
			if cl, err := net.DialTimeout("tcp", addr, time.Second); err == nil {
				ok := serve(cl)
				cl.Close()
				if ok {
					return nt, &verdict{"accepts-while-draining", fmt.Sprintf("%s: a new connection was served after StopListen", where)}
				}
			}
			for k, cl := range open {
				if !serve(cl) {
					return nt, &verdict{"drain-broke-established-connection", fmt.Sprintf("%s: established connection %d is no longer served after StopListen", where, k)}
				}
			}
		case o < 0:
			if len(open) == 0 {
				continue
			}
			k := (-o - 1) % len(open)
			open[k].Close()
			open = append(open[:k], open[k+1:]...)
		default:
			if drained {
				continue
			}
			// open o connections at once
			type res struct {
				cl net.Conn
				ok bool
			}
			out := make(chan res, o)
			for k := 0; k < o; k++ {
				go func() {
					cl, err := net.DialTimeout("tcp", addr, 2*time.Second)
					if err != nil {
						out <- res{nil, false}
						return
					}
					out <- res{cl, serve(cl)}
				}()
			}
			served := 0
			var got []net.Conn
			for k := 0; k < o; k++ {
				r := <-out
				if r.ok {
					served++
					got = append(got, r.cl)
				} else if r.cl != nil {
					r.cl.Close()
				}
			}
			before := len(open)
			open = append(open, got...)
			if c.Limit > 0 && len(open) > c.Limit {
				return nt, &verdict{"limit-exceeded", fmt.Sprintf("%s: %d connections are served concurrently, the limit is %d", where, len(open), c.Limit)}
			}
			if c.Limit > 0 && before+o > c.Limit {
				nt = true
			}
			// connections under the limit are served: the proxy notices a client close asynchronously, so retry until the deadline
			want := o
			if c.Limit > 0 && before+o > c.Limit {
				want = c.Limit - before
			}
			deadline := time.Now().Add(5 * time.Second)
			for served < want {
				if time.Now().After(deadline) {
					return nt, &verdict{"under-limit-not-served", fmt.Sprintf("%s: only %d of %d connections under the limit %d were served (had %d open)", where, served, want, c.Limit, before)}
				}
				cl, err := net.DialTimeout("tcp", addr, 2*time.Second)
				if err == nil {
					if serve(cl) {
						served++
						open = append(open, cl)
						continue
					}
					cl.Close()
				}
				time.Sleep(5 * time.Millisecond)
			}
		}
	}
	return nt, nil
}

func TestLimitAndDrain(t *testing.T) {
	rapid.Check(t, func(t *rapid.T) {
		c := limCase{Kind: rapid.SampledFrom([]string{"tcp", "redis"}).Draw(t, "kind"), Limit: rapid.SampledFrom([]int{0, 1, 2, 3, 5, 8}).Draw(t, "limit")}
		for i, n := 0, rapid.IntRange(1, 10).Draw(t, "n"); i < n; i++ {
			switch rapid.IntRange(0, 9).Draw(t, "op") {
			case 0:
				c.Ops = append(c.Ops, 0)
			case 1, 2, 3:
				c.Ops = append(c.Ops, -rapid.IntRange(1, 8).Draw(t, "close"))
			default:
				c.Ops = append(c.Ops, rapid.IntRange(1, 6).Draw(t, "open"))
			}
		}
		vh.CurrentCase(prop, "limit", c)
		nt, v := checkLimit(c)
		vh.ClearCurrentCase()
		if v != nil {
			vh.Fail(t, vh.Failure{Property: prop, Part: "limit", Signature: v.sig, Message: v.msg, Case: c})
		}
		vh.Rec().Case("limit", nt, vh.JSON(c))
		vh.Rec().Sample("limit", nt, func() interface{} { return c })
	})
}

func init() {
	vh.RegisterReplay("stop", func(t *testing.T, raw json.RawMessage) {
		var c stopCase
		json.Unmarshal(raw, &c)
		for i := 0; i < 3; i++ {
			if _, v := checkStop(c); v != nil {
				vh.Fail(t, vh.Failure{Property: prop, Part: "stop", Signature: v.sig, Message: v.msg, Case: c})
			}
		}
	})
	vh.RegisterReplay("limit", func(t *testing.T, raw json.RawMessage) {
		var c limCase
		json.Unmarshal(raw, &c)
		if _, v := checkLimit(c); v != nil {
			vh.Fail(t, vh.Failure{Property: prop, Part: "limit", Signature: v.sig, Message: v.msg, Case: c})
		}
	})
}

func TestReplay(t *testing.T) { vh.RunReplay(t) }
