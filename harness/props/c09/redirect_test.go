package c09

import (
	"encoding/json"
	"fmt"
	"net"
	"sync"
	"sync/atomic"
	"testing"
	"time"

	"github.com/samaritan-proxy/samaritan/host"
	"github.com/samaritan-proxy/samaritan/utils/verifpoint"
	"pgregory.net/rapid"

	"verif/harness/ref"
	"verif/harness/sim"
	"verif/harness/vh"
)

// part redirect: Stop arrives while a request is on its way to a node the proxy has no connection to yet - the backend
// reader that received MOVED/ASK (or the session, once the table knows the new owner) has passed the upstream's quit check
// and is about to look up / create the connection. Optionally the new node accepts slowly, so that the connect is still
// pending while Stop sweeps the connections.

type redirCase struct {
	Ask        bool `json:"ask,omitempty"`         // the slot is half migrated (ASK) instead of moved (MOVED)
	Requests   int  `json:"requests"`              // pipelined requests for the moved slot on each connection
	Conns      int  `json:"conns"`                 // client connections
	HoldMs     int  `json:"hold_ms"`               // how long the first request for the new node is held at the pause point after Stop was called
	StopAfter  int  `json:"stop_after_us"`         // Stop is called this long after the point was hit (microseconds)
	SlowAccept bool `json:"slow_accept,omitempty"` // the new node's accept queue is full: the connect completes only on a SYN retransmit (~1 s)
	NoHook     bool `json:"no_hook,omitempty"`     // no pause point: Stop is called StopAfter after the requests were written
	// Before: a host-set update delivered right before Stop, while the redirected request is on its way: "remove" (the node that
	// answered the redirection is removed), "replace-target" (all hosts replaced by the new node), "replace-same" (replaced by an equal list)
	Before      string `json:"before,omitempty"`
	BeforeGapUs int    `json:"before_gap_us,omitempty"` // Stop follows the return of the update call this much later
}

func checkRedirectStop(c redirCase) (nt bool, v *verdict) {
	base, _ := procGoroutines()
	w, err := sim.NewWorld(2, 0)
	if err != nil {
		return false, nil
	}
	defer w.Close()
	// everything on node 0; the proxy only knows node 0
	w.AssignRange(0, sim.NumSlots-1, 0)
	px, err := sim.StartProxy(sim.ProxyOpts{Seeds: []string{w.Nodes[0].Addr}, ConnectTimeout: 3 * time.Second})
	if err != nil {
		return false, &verdict{"proxy-start", err.Error()}
	}
	var stopped bool
	defer func() {
		if !stopped {
			px.Stop(20 * time.Second)
		}
	}()
	px.WaitTableLoaded(1, 10*time.Second)
	// keep the table as it is: the periodic refresh would tell the proxy about node 1 and connect to it
	of, om := sim.SetRefreshTimers(2*time.Minute, 5*time.Second)
	defer sim.SetRefreshTimers(of, om)
	time.Sleep(10 * time.Millisecond)

	key := "{redir}k"
	slot := ref.Slot([]byte(key))
	target := w.Nodes[1].Addr
	var clients []*sim.Client
	defer func() {
		for _, cl := range clients {
			cl.Close()
		}
	}()
	for i := 0; i < c.Conns; i++ {
		cl, err := sim.Dial(px.Addr)
		if err != nil {
			return false, &verdict{"client-dial", err.Error()}
		}
		clients = append(clients, cl)
		if r, err := cl.Do(10*time.Second, "SET", key, "v"); err != nil || r.IsErr() {
			return false, nil
		}
	}
	if w.Nodes[1].ConnCount() != 0 {
		return false, nil // the proxy already knows node 1: not the situation this part is about
	}
	var endBlackhole func()
	if c.SlowAccept {
		w.Nodes[1].Stop()
		if err := w.Nodes[1].Blackhole(); err != nil {
			return false, nil
		}
		endBlackhole = func() { w.Nodes[1].Start() }
	}
	if c.Ask {
		w.BeginMigration(slot, 1)
		w.MoveKeys(slot, 100)
	} else {
		w.AssignRange(slot, slot, 1)
	}

	stopReturned := make(chan struct{})
	var once sync.Once
	// The controller delivers host updates and Stop from one goroutine, one after the other: Stop is only called after the
	// update has returned. An update that does not return within the deadline has the controller's loop stuck; Stop is then
	// called all the same, and only a Stop that does not return either is a verdict.
	updateHung := false
	doStop := func() {
		once.Do(func() {
			stopped = true // never a second Stop, whatever becomes of this one
			go func() {
				if c.Before != "" {
					updateReturned := make(chan struct{})
					go func() {
						switch c.Before {
						case "remove":
							px.P.OnSvcHostRemove([]*host.Host{host.New(w.Nodes[0].Addr)})
						case "replace-target":
							px.P.OnSvcAllHostReplace([]*host.Host{host.New(target)})
						default:
							px.P.OnSvcAllHostReplace([]*host.Host{host.New(w.Nodes[0].Addr)})
						}
						close(updateReturned)
					}()
					select {
					case <-updateReturned:
					case <-time.After(stopDeadline):
						updateHung = true
					}
					time.Sleep(time.Duration(c.BeforeGapUs) * time.Microsecond)
				}
				px.P.Stop()
				close(stopReturned)
			}()
		})
	}
	var fired int32
	hit := make(chan struct{})
	if !c.NoHook {
		verifpoint.SetHandler(func(name string, arg interface{}) {
			if name != "redis.upstream.request.after-quit-check" {
				return
			}
			if a, ok := arg.(string); !ok || a != target {
				return
			}
			if !atomic.CompareAndSwapInt32(&fired, 0, 1) {
				return
			}
			close(hit)
			time.Sleep(time.Duration(c.StopAfter) * time.Microsecond)
			doStop()
			time.Sleep(time.Duration(c.HoldMs) * time.Millisecond) // Stop runs while this request is parked here
		})
		defer verifpoint.SetHandler(nil)
	}
	for _, cl := range clients {
		var b []byte
		for k := 0; k < c.Requests; k++ {
			b = append(b, ref.Enc(ref.Cmd("GET", key))...)
		}
		cl.Send(b, nil)
	}
	if c.NoHook {
		time.Sleep(time.Duration(c.StopAfter) * time.Microsecond)
		doStop()
	} else {
		select {
		case <-hit:
			nt = true
		case <-time.After(5 * time.Second):
			doStop() // no request went to the new node
		}
	}
	if endBlackhole != nil {
		// the new node starts accepting a little later: a connect begun before completes after Stop swept the connections
		time.AfterFunc(300*time.Millisecond, endBlackhole)
		nt = true
	}
	select {
	case <-stopReturned:
	case <-time.After(stopDeadline + map[bool]time.Duration{true: stopDeadline + time.Second}[c.Before != ""]):
		d1 := vh.Stacks()
		time.Sleep(time.Second)
		_, where := procGoroutines()
		_ = d1
		extra := ""
		if updateHung {
			extra = fmt.Sprintf(" (the host update %q delivered before it had not returned after %v either)", c.Before, stopDeadline)
		}
		return nt, &verdict{"stop-never-returns", fmt.Sprintf("Stop called while a redirected request was on its way to a node without a connection did not return within %v%s; service goroutines still parked:\n%s", stopDeadline, extra, where)}
	}
	px.Release()
	for i, cl := range clients {
		if heldOpen(cl.C, []byte("PING\r\n"), 5*time.Second) {
			return nt, &verdict{"downstream-connection-left-open", fmt.Sprintf("client connection %d is still open 5s after Stop returned", i)}
		}
	}
	// every backend connection is closed and no goroutine of the service remains; a connect that was pending during Stop
	// may complete up to ~1.3 s later (SYN retransmit), so the state is judged for a while after that
	deadline := time.Now().Add(6 * time.Second)
	settled := time.Now().Add(1800 * time.Millisecond)
	for {
		bc := w.Nodes[0].ConnCount() + w.Nodes[1].ConnCount()
		n, where := procGoroutines()
		if bc == 0 && n <= base && (!c.SlowAccept || time.Now().After(settled)) {
			break
		}
		if time.Now().After(deadline) {
			if bc != 0 {
				return nt, &verdict{"upstream-connection-left-open", fmt.Sprintf("%d backend connection(s) still open 6s after Stop returned (node 0: %d, new node: %d)", bc, w.Nodes[0].ConnCount(), w.Nodes[1].ConnCount())}
			}
			return nt, &verdict{"goroutines-left", fmt.Sprintf("%d service goroutine(s) (baseline %d) remain 6s after Stop returned:\n%s", n, base, where)}
		}
		time.Sleep(5 * time.Millisecond)
	}
	return nt, nil
}

var _ = net.Dial

func TestStopDuringRedirect(t *testing.T) {
	rapid.Check(t, func(t *rapid.T) {
		c := redirCase{
			Ask:       rapid.IntRange(0, 3).Draw(t, "ask") == 0,
			Requests:  rapid.IntRange(1, 8).Draw(t, "requests"),
			Conns:     rapid.IntRange(1, 3).Draw(t, "conns"),
			HoldMs:    rapid.SampledFrom([]int{0, 1, 5, 20, 60}).Draw(t, "hold"),
			StopAfter: rapid.SampledFrom([]int{0, 50, 300, 2000}).Draw(t, "stopafter"),
			Before:    rapid.SampledFrom([]string{"", "", "remove", "remove", "replace-target", "replace-same"}).Draw(t, "before"),
		}
		if c.Before != "" {
			c.BeforeGapUs = rapid.SampledFrom([]int{0, 100, 1000, 20000}).Draw(t, "beforegap")
		}
		switch rapid.IntRange(0, 5).Draw(t, "mode") {
		case 0:
			c.SlowAccept = true
		case 1:
			c.NoHook = true
		case 2:
			c.NoHook, c.SlowAccept = true, true
		}
		vh.CurrentCase(prop, "redirect", c)
		nt, v := checkRedirectStop(c)
		vh.ClearCurrentCase()
		if v != nil {
			vh.Fail(t, vh.Failure{Property: prop, Part: "redirect", Signature: v.sig, Message: v.msg, Case: c})
		}
		vh.Rec().Case("redirect", nt, vh.JSON(c))
		if c.SlowAccept {
			vh.Rec().Class("redirect", "connect_pending_during_stop")
		}
		if c.Before != "" {
			vh.Rec().Class("redirect", "host_update_"+c.Before+"_right_before_stop")
		}
		vh.Rec().Sample("redirect", nt, func() interface{} { return c })
	})
}

func init() {
	vh.RegisterReplay("redirect", func(t *testing.T, raw json.RawMessage) {
		var c redirCase
		if err := json.Unmarshal(raw, &c); err != nil {
			t.Fatal(err)
		}
		for i := 0; i < 3; i++ {
			if _, v := checkRedirectStop(c); v != nil {
				vh.Fail(t, vh.Failure{Property: prop, Part: "redirect", Signature: v.sig, Message: v.msg, Case: c})
			}
		}
	})
}
