package c09

import (
	"encoding/json"
	"fmt"
	"net"
	"sync"
	"sync/atomic"
	"testing"
	"time"

	"github.com/samaritan-proxy/samaritan/host"
	"pgregory.net/rapid"

	"verif/harness/sim"
	"verif/harness/tcpsim"
	"verif/harness/vh"
)

// Stop while new connections keep arriving: every connection that was ever accepted is closed and Stop returns.

type arrCase struct {
	Kind    string `json:"kind"`
	Idle    int    `json:"idle"`    // connections established (and left idle) before the arrivals start
	Dialers int    `json:"dialers"` // goroutines that keep connecting and leave the connection idle
	DelayUs int    `json:"delay_us"`
	Trials  int    `json:"trials"`
}

func arrTrial(c arrCase, trial int) *verdict {
	var addr string
	var stop func(time.Duration) bool
	if c.Kind == "redis" {
		w, err := sim.NewWorld(1, 0)
		if err != nil {
			return nil
		}
		defer w.Close()
		w.AssignEven(w.Masters())
		px, err := sim.StartProxy(sim.ProxyOpts{Seeds: w.AllAddrs()})
		if err != nil {
			return &verdict{"proxy-start", err.Error()}
		}
		addr, stop = px.Addr, px.Stop
	} else {
		tb, err := tcpsim.NewBackend(func(bc net.Conn, n int) {
			defer bc.Close()
			buf := make([]byte, 64)
			for {
				if _, err := bc.Read(buf); err != nil {
					return
				}
			}
		})
		if err != nil {
			return nil
		}
		defer tb.Close()
		px, err := tcpsim.Start(tcpsim.Opts{Hosts: []*host.Host{host.New(tb.Addr)}, IdleTimeout: 10 * time.Minute})
		if err != nil {
			return &verdict{"proxy-start", err.Error()}
		}
		addr, stop = px.Addr, px.Stop
	}
	var mu sync.Mutex
	var conns []net.Conn
	defer func() {
		mu.Lock()
		for _, cl := range conns {
			cl.Close()
		}
		mu.Unlock()
	}()
	for i := 0; i < c.Idle; i++ {
		if cl, err := net.DialTimeout("tcp", addr, 2*time.Second); err == nil {
			conns = append(conns, cl)
		}
	}
	var quit int32
	var wg sync.WaitGroup
	for d := 0; d < c.Dialers; d++ {
		wg.Add(1)
		go func() {
			defer wg.Done()
			for atomic.LoadInt32(&quit) == 0 {
				cl, err := net.DialTimeout("tcp", addr, time.Second)
				if err != nil {
					return
				}
				mu.Lock()
				conns = append(conns, cl)
				n := len(conns)
				mu.Unlock()
				if n > 4000 {
					return
				}
			}
		}()
	}
	time.Sleep(time.Duration(c.DelayUs) * time.Microsecond)
	ok := stop(stopDeadline)
	atomic.StoreInt32(&quit, 1)
	wg.Wait()
	if !ok {
		_, where := procGoroutines()
		return &verdict{"stop-never-returns-under-arrivals", fmt.Sprintf("trial %d: Stop called while %d dialers kept connecting (%d idle connections before) did not return within %v; service goroutines still parked:\n%s", trial, c.Dialers, c.Idle, stopDeadline, where)}
	}
	mu.Lock()
	all := append([]net.Conn{}, conns...)
	mu.Unlock()
	// A connection the service never accepted (still in the kernel's accept queue, or whose final handshake segment was
	// dropped when the queue overflowed) can look established to the client although no socket exists on the other side:
	// only the client's kernel state is left, nothing the service holds. A probe write tells the two apart: it is answered
	// with a reset when there is no peer socket, and accepted when the service still holds the connection.
	probe := []byte("x")
	if c.Kind == "redis" {
		probe = []byte("PING\r\n")
	}
	for i, cl := range all {
		if heldOpen(cl, probe, 5*time.Second) {
			return &verdict{"downstream-connection-left-open-under-arrivals", fmt.Sprintf("trial %d: client connection %d of %d is still held open 5s after Stop returned (a probe write was accepted and neither EOF nor a reset followed)", trial, i, len(all))}
		}
	}
	return nil
}

func checkArrivals(c arrCase) *verdict {
	for i := 0; i < c.Trials; i++ {
		if v := arrTrial(c, i); v != nil {
			return v
		}
	}
	return nil
}

func TestStopUnderArrivals(t *testing.T) {
	rapid.Check(t, func(t *rapid.T) {
		c := arrCase{Kind: rapid.SampledFrom([]string{"tcp", "tcp", "redis"}).Draw(t, "kind"), Idle: rapid.IntRange(0, 30).Draw(t, "idle"),
			Dialers: rapid.IntRange(1, 8).Draw(t, "dialers"), DelayUs: rapid.IntRange(0, 3000).Draw(t, "delay"), Trials: rapid.IntRange(5, 25).Draw(t, "trials")}
		vh.CurrentCase(prop, "arrivals", c)
		v := checkArrivals(c)
		vh.ClearCurrentCase()
		if v != nil {
			vh.Fail(t, vh.Failure{Property: prop, Part: "arrivals", Signature: v.sig, Message: v.msg, Case: c})
		}
		vh.Rec().Case("arrivals", true, vh.JSON(c))
		vh.Rec().ClassN("arrivals", "trials", int64(c.Trials))
		vh.Rec().Class("arrivals", c.Kind)
		vh.Rec().Sample("arrivals", true, func() interface{} { return c })
	})
}

func init() {
	vh.RegisterReplay("arrivals", func(t *testing.T, raw json.RawMessage) {
		var c arrCase
		json.Unmarshal(raw, &c)
		c.Trials *= 4
		if v := checkArrivals(c); v != nil {
			vh.Fail(t, vh.Failure{Property: prop, Part: "arrivals", Signature: v.sig, Message: v.msg, Case: c})
		}
	})
}
