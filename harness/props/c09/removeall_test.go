package c09

import (
	"encoding/json"
	"fmt"
	"sync"
	"sync/atomic"
	"testing"
	"time"

	"github.com/samaritan-proxy/samaritan/host"
	"pgregory.net/rapid"

	"verif/harness/ref"
	"verif/harness/sim"
	"verif/harness/vh"
)

// part removeall: one endpoint update removes several (or all) hosts of a Redis service while clients keep pipelining
// requests for keys of every node (the slot table still routes to the removed nodes, so connections to them are re-created
// on demand), then the service is stopped - from the same goroutine, as the controller does. Afterwards nothing of the
// service may remain: no client connection, no backend connection, no goroutine.

type raCase struct {
	Masters int  `json:"masters"`
	Conns   int  `json:"conns"`
	Remove  int  `json:"remove"`  // how many hosts the update removes (clipped to the number of hosts)
	WarmMs  int  `json:"warm_ms"` // traffic runs this long before the update
	GapUs   int  `json:"gap_us"`  // Stop follows the return of the update this much later
	Replace bool `json:"replace"` // OnSvcAllHostReplace with the remaining hosts instead of OnSvcHostRemove
	Window  int  `json:"window"`  // requests each client keeps in flight
}

func checkRemoveAll(c raCase) *verdict {
	base, _ := procGoroutines()
	w, err := sim.NewWorld(c.Masters, 0)
	if err != nil {
		return nil
	}
	defer w.Close()
	w.AssignEven(w.Masters())
	px, err := sim.StartProxy(sim.ProxyOpts{Seeds: w.AllAddrs(), ConnectTimeout: 2 * time.Second})
	if err != nil {
		return &verdict{"proxy-start", err.Error()}
	}
	stopped := false
	defer func() {
		if !stopped {
			px.Stop(20 * time.Second)
		}
	}()
	px.WaitTableLoaded(1, 10*time.Second)
	ms := w.Masters()
	var clients []*sim.Client
	defer func() {
		for _, cl := range clients {
			cl.Close()
		}
	}()
	var halt int32
	var twg sync.WaitGroup
	for i := 0; i < c.Conns; i++ {
		cl, err := sim.Dial(px.Addr)
		if err != nil {
			return &verdict{"client-dial", err.Error()}
		}
		clients = append(clients, cl)
		twg.Add(1)
		go func(i int, cl *sim.Client) {
			defer twg.Done()
			var buf []byte
			for k := 0; k < c.Window; k++ {
				buf = ref.Encode(buf, ref.Cmd("SET", w.KeyFor(ms[(i+k)%len(ms)], fmt.Sprintf("ra%d:", i)), "v"))
			}
			for atomic.LoadInt32(&halt) == 0 {
				if err := cl.Send(buf, nil); err != nil {
					return
				}
				for k := 0; k < c.Window; k++ {
					if _, err := cl.Recv(15 * time.Second); err != nil {
						return
					}
				}
			}
		}(i, cl)
	}
	time.Sleep(time.Duration(c.WarmMs) * time.Millisecond)
	n := c.Remove
	if n > len(ms) {
		n = len(ms)
	}
	var gone, stay []*host.Host
	for k, m := range ms {
		if k < n {
			gone = append(gone, host.New(w.Nodes[m].Addr))
		} else {
			stay = append(stay, host.New(w.Nodes[m].Addr))
		}
	}
	done := make(chan struct{})
	go func() {
		if c.Replace && len(stay) > 0 {
			px.P.OnSvcAllHostReplace(stay)
		} else {
			px.P.OnSvcHostRemove(gone)
		}
		time.Sleep(time.Duration(c.GapUs) * time.Microsecond)
		px.P.Stop()
		close(done)
	}()
	stopped = true
	select {
	case <-done:
	case <-time.After(2 * stopDeadline):
		_, where := procGoroutines()
		return &verdict{"stop-never-returns", fmt.Sprintf("an update removing %d of %d hosts under traffic followed by Stop did not return within %v; service goroutines still parked:\n%s", n, len(ms), 2*stopDeadline, where)}
	}
	atomic.StoreInt32(&halt, 1)
	px.Release()
	for i, cl := range clients {
		if heldOpen(cl.C, []byte("PING\r\n"), 5*time.Second) {
			return &verdict{"downstream-connection-left-open", fmt.Sprintf("client connection %d is still open 5s after Stop returned", i)}
		}
	}
	twg.Wait()
	deadline := time.Now().Add(6 * time.Second)
	for {
		bc, detail := 0, ""
		for _, m := range ms {
			if k := w.Nodes[m].ConnCount(); k > 0 {
				bc += k
				detail += fmt.Sprintf(" node %d: %d", m, k)
			}
		}
		g, where := procGoroutines()
		if bc == 0 && g <= base {
			return nil
		}
		if time.Now().After(deadline) {
			if bc != 0 {
				return &verdict{"upstream-connection-left-open", fmt.Sprintf("%d backend connection(s) still open 6s after Stop returned (%s); the update had removed %d of %d hosts while %d clients kept %d requests in flight each", bc, detail, n, len(ms), c.Conns, c.Window)}
			}
			return &verdict{"goroutines-left", fmt.Sprintf("%d service goroutine(s) (baseline %d) remain 6s after Stop returned:\n%s", g, base, where)}
		}
		time.Sleep(5 * time.Millisecond)
	}
}

func TestRemoveAllThenStop(t *testing.T) {
	rapid.Check(t, func(t *rapid.T) {
		c := raCase{Masters: rapid.IntRange(2, 6).Draw(t, "masters"), Conns: rapid.IntRange(1, 4).Draw(t, "conns"), Remove: rapid.IntRange(1, 6).Draw(t, "remove"),
			WarmMs: rapid.SampledFrom([]int{1, 5, 20}).Draw(t, "warm"), GapUs: rapid.SampledFrom([]int{0, 100, 2000, 20000}).Draw(t, "gap"),
			Replace: rapid.IntRange(0, 3).Draw(t, "replace") == 0, Window: rapid.SampledFrom([]int{1, 8, 30}).Draw(t, "window")}
		vh.CurrentCase(prop, "removeall", c)
		v := checkRemoveAll(c)
		vh.ClearCurrentCase()
		if v != nil {
			vh.Fail(t, vh.Failure{Property: prop, Part: "removeall", Signature: v.sig, Message: v.msg, Case: c})
		}
		vh.Rec().Case("removeall", true, vh.JSON(c))
		vh.Rec().Sample("removeall", true, func() interface{} { return c })
	})
}

func init() {
	vh.RegisterReplay("removeall", func(t *testing.T, raw json.RawMessage) {
		var c raCase
		if err := json.Unmarshal(raw, &c); err != nil {
			t.Fatal(err)
		}
		for i := 0; i < 5; i++ {
			if v := checkRemoveAll(c); v != nil {
				vh.Fail(t, vh.Failure{Property: prop, Part: "removeall", Signature: v.sig, Message: v.msg, Case: c})
			}
		}
	})
}
