// Package c18 decides property C18: SCAN through the proxy visits every node once
// and terminates; the client cursor encodes (node index, node cursor) losslessly.
package c18

import (
	"encoding/json"
	"fmt"
	"strconv"
	"testing"

	sut "github.com/samaritan-proxy/samaritan/proc/redis"
	"pgregory.net/rapid"

	"verif/harness/gen"
	"verif/harness/ref"
	"verif/harness/vh"
)

const prop = "C18"

func TestMain(m *testing.M) { vh.Main(m) }

type verdict struct{ sig, msg string }

type cursorCase struct {
	Idx   uint16   `json:"idx"`
	Cur   uint64   `json:"cur"`
	Next  uint64   `json:"next"`
	Extra []string `json:"extra"` // MATCH/COUNT arguments
	Keys  []string `json:"keys"`
}

func genCur(t *rapid.T, label string) uint64 {
	switch rapid.IntRange(0, 4).Draw(t, label+".cls") {
	case 0:
		return rapid.SampledFrom([]uint64{0, 1, 2, 1<<48 - 1, 1<<48 - 2, 1 << 47, 1<<47 - 1, 1 << 32, 1<<32 - 1, 255, 256, 65535, 65536}).Draw(t, label)
	case 1:
		return rapid.Uint64Range(0, 1<<16).Draw(t, label)
	default:
		return rapid.Uint64Range(0, 1<<48-1).Draw(t, label)
	}
}

func checkCursor(c cursorCase) *verdict {
	// pure encode/decode
	enc := sut.VerifGenCursor(c.Idx, c.Cur)
	i, cur := sut.VerifParseCursor(enc)
	if i != c.Idx || cur != c.Cur {
		return &verdict{"cursor-not-lossless", fmt.Sprintf("parse(gen(%d,%d)) = (%d,%d)", c.Idx, c.Cur, i, cur)}
	}
	if c.Idx >= 1<<15 {
		return nil // the decimal text would exceed int64: the proxy reads client cursors as int64 (far beyond any real node count)
	}
	// through the request parser and the reply rewriting
	args := append([]string{"SCAN", strconv.FormatUint(enc, 10)}, c.Extra...)
	keys := make([]ref.Value, len(c.Keys))
	for k := range c.Keys {
		keys[k] = ref.BulkS(c.Keys[k])
	}
	reply := ref.ArrV(ref.BulkS(strconv.FormatUint(c.Next, 10)), ref.ArrV(keys...))
	body := gen.ToSUT(ref.Cmd(args...))
	idx, nodeCur, resp, err := sut.VerifScanRewrite(body, gen.ToSUT(reply))
	if err != nil {
		return &verdict{"valid-cursor-rejected", fmt.Sprintf("SCAN %d rejected: %v", enc, err)}
	}
	if idx != c.Idx || nodeCur != strconv.FormatUint(c.Cur, 10) {
		return &verdict{"cursor-not-lossless", fmt.Sprintf("client cursor %d (node %d, cursor %d) was sent to node %d with cursor %q", enc, c.Idx, c.Cur, idx, nodeCur)}
	}
	// MATCH / COUNT pass through untouched
	for k, a := range c.Extra {
		if got := string(body.Array[2+k].Text); got != a {
			return &verdict{"scan-args-changed", fmt.Sprintf("argument %d changed from %q to %q", 2+k, a, got)}
		}
	}
	rv := gen.FromSUT(resp)
	if rv.K != ref.Arr || len(rv.A) != 2 {
		return &verdict{"scan-reply-shape", fmt.Sprintf("client reply %s", rv)}
	}
	wantIdx, wantCur := c.Idx, c.Next
	if c.Next == 0 {
		wantIdx++
	}
	want := sut.VerifGenCursor(wantIdx, wantCur)
	if string(rv.A[0].S) != strconv.FormatUint(want, 10) {
		return &verdict{"next-cursor-wrong", fmt.Sprintf("node %d answered next cursor %d: client got %q, want %d", c.Idx, c.Next, rv.A[0].S, want)}
	}
	if !ref.Equal(rv.A[1], ref.ArrV(keys...)) {
		return &verdict{"scan-keys-changed", fmt.Sprintf("keys changed: %s", rv.A[1])}
	}
	ni, nc := sut.VerifParseCursor(want)
	if ni != wantIdx || nc != wantCur {
		return &verdict{"cursor-not-lossless", fmt.Sprintf("returned cursor %d parses to (%d,%d), want (%d,%d)", want, ni, nc, wantIdx, wantCur)}
	}
	return nil
}

func TestCursor(t *testing.T) {
	rapid.Check(t, func(t *rapid.T) {
		c := cursorCase{Cur: genCur(t, "cur"), Next: genCur(t, "next")}
		switch rapid.IntRange(0, 3).Draw(t, "idxcls") {
		case 0:
			c.Idx = uint16(rapid.IntRange(0, 8).Draw(t, "idx"))
		case 1:
			c.Idx = rapid.SampledFrom([]uint16{0, 1, 255, 256, 32766, 32767, 32768, 65534, 65535}).Draw(t, "idx")
		default:
			c.Idx = uint16(rapid.IntRange(0, 65535).Draw(t, "idx"))
		}
		if rapid.Bool().Draw(t, "match") {
			c.Extra = append(c.Extra, "MATCH", rapid.StringMatching(`[a-z*?\[\]]{1,6}`).Draw(t, "pat"))
		}
		if rapid.Bool().Draw(t, "count") {
			c.Extra = append(c.Extra, "COUNT", strconv.Itoa(rapid.IntRange(1, 100000).Draw(t, "cnt")))
		}
		c.Keys = rapid.SliceOfN(rapid.StringMatching(`[a-z]{1,5}`), 0, 5).Draw(t, "keys")
		if v := checkCursor(c); v != nil {
			vh.Fail(t, vh.Failure{Property: prop, Part: "cursor", Signature: v.sig, Message: v.msg, Case: c})
		}
		nt := c.Idx > 0 && c.Cur >= 1<<32
		vh.Rec().Case("cursor", nt, vh.JSON(c))
		vh.Rec().Sample("cursor", nt, func() interface{} { return c })
	})
}

// TestBadCursor: client cursors that are not a non-negative int64 number are answered, never crash.
func TestBadCursor(t *testing.T) {
	rapid.Check(t, func(t *rapid.T) {
		var txt string
		switch rapid.IntRange(0, 4).Draw(t, "cls") {
		case 0:
			txt = strconv.FormatUint(rapid.Uint64Range(1<<63, 1<<64-1).Draw(t, "big"), 10)
		case 1:
			txt = rapid.StringMatching(`[0-9a-z+\- ]{0,24}`).Draw(t, "junk")
		case 2:
			txt = "-" + strconv.FormatUint(rapid.Uint64Range(0, 1<<63).Draw(t, "neg"), 10)
		case 3:
			txt = rapid.StringMatching(`[0-9]{19,40}`).Draw(t, "long")
		default:
			txt = ""
		}
		reply := ref.ArrV(ref.BulkS("0"), ref.ArrV())
		var panicked interface{}
		func() {
			defer func() { panicked = recover() }()
			_, _, _, _ = sut.VerifScanRewrite(gen.ToSUT(ref.Cmd("scan", txt)), gen.ToSUT(reply))
		}()
		if panicked != nil {
			vh.Fail(t, vh.Failure{Property: prop, Part: "badcursor", Signature: "bad-cursor-panics", Message: fmt.Sprintf("SCAN %q panics: %v", txt, panicked), Case: txt})
		}
		vh.Rec().Case("badcursor", true, txt)
		vh.Rec().Sample("badcursor", true, func() interface{} { return txt })
	})
}

func init() {
	vh.RegisterReplay("cursor", func(t *testing.T, raw json.RawMessage) {
		var c cursorCase
		if err := json.Unmarshal(raw, &c); err != nil {
			t.Fatal(err)
		}
		if v := checkCursor(c); v != nil {
			vh.Fail(t, vh.Failure{Property: prop, Part: "cursor", Signature: v.sig, Message: v.msg, Case: c})
		}
	})
}

func TestReplay(t *testing.T) { vh.RunReplay(t) }
