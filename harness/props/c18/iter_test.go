package c18

import (
	"encoding/json"
	"fmt"
	"github.com/samaritan-proxy/samaritan/host"
	"sort"
	"strconv"
	"strings"
	"testing"
	"time"

	"pgregory.net/rapid"

	"verif/harness/portres"
	"verif/harness/ref"
	"verif/harness/sim"
	"verif/harness/vh"
)

type page struct {
	Next uint64   `json:"next"` // 0 on the last page
	Keys []string `json:"keys"`
}

type iterCase struct {
	Nodes [][]page `json:"nodes"` // per node its cursor chain (first page is served for cursor 0)
	Match string   `json:"match,omitempty"`
	Count int      `json:"count,omitempty"`
	// after the iteration every host is removed from the service (zero nodes): any cursor is past the last node then.
	// With Nodes empty the service never had a host.
	RemoveAll bool `json:"remove_all,omitempty"`
	// Busy: the set of nodes stays what it is, but the proxy is not idle between two SCAN calls: the slot table is refreshed
	// (successfully) at least once between any two calls, and a second connection sends keyed commands all the time.
	Busy bool `json:"busy,omitempty"`
	// ArgStyle: 0 "MATCH p COUNT n", 1 "COUNT n MATCH p", 2 lower-case option names (Redis accepts all three)
	ArgStyle int `json:"arg_style,omitempty"`
	// Backups: the service also has this many hosts of type Backup (replicas of the first master, which hold no keys of
	// their own): the iteration covers the usable hosts - the main ones while any of them is healthy - and must end after the last of them
	Backups int `json:"backup_hosts,omitempty"`
	// DeadHost: after the iteration a host nobody listens on (connections are refused) joins the service and a client iterates
	// once more - what it is told about that node is not judged, only that every call is answered; then the host leaves again
	// and the terminating reply must be what it was (also in every later case of the process: the replies are process-wide objects)
	DeadHost bool `json:"dead_host,omitempty"`
}

var terminal = ref.ArrV(ref.BulkS("0"), ref.ArrV())

// checkZeroNodes: with no backend node every client cursor must be answered by the terminating reply.
func checkZeroNodes(cl *sim.Client, c iterCase, where string) *verdict {
	extra := []string{}
	if c.Match != "" {
		extra = append(extra, "MATCH", c.Match)
	}
	if c.Count > 0 {
		extra = append(extra, "COUNT", strconv.Itoa(c.Count))
	}
	for _, cur := range []uint64{0, 5, 1 << 48, 3<<48 | 77, 32767 << 48} {
		r, err := cl.Do(20*time.Second, append([]string{"SCAN", strconv.FormatUint(cur, 10)}, extra...)...)
		if err != nil {
			return &verdict{"reply-missing", fmt.Sprintf("%s: SCAN %d: %v", where, cur, err)}
		}
		if !ref.Equal(r, terminal) {
			return &verdict{"past-last-node-not-terminal", fmt.Sprintf("%s: SCAN %d answered %s", where, cur, r)}
		}
	}
	return nil
}

func checkNoNodesEver(c iterCase) *verdict {
	px, err := sim.StartProxy(sim.ProxyOpts{})
	if err != nil {
		return &verdict{"proxy-start", err.Error()}
	}
	defer px.Stop(20 * time.Second)
	cl, err := sim.Dial(px.Addr)
	if err != nil {
		return &verdict{"client-dial", err.Error()}
	}
	defer cl.Close()
	return checkZeroNodes(cl, c, "service without any host")
}

func checkIter(c iterCase) (nt bool, v *verdict) {
	if len(c.Nodes) == 0 {
		return true, checkNoNodesEver(c)
	}
	w, err := sim.NewWorld(len(c.Nodes), 0)
	if err != nil {
		return false, nil
	}
	defer w.Close()
	w.AssignEven(w.Masters())
	stored := map[string]bool{}
	totalPages := 0
	for i, chain := range c.Nodes {
		pages := map[string]sim.ScanPage{}
		cur := "0"
		for _, p := range chain {
			pages[cur] = sim.ScanPage{Next: strconv.FormatUint(p.Next, 10), Keys: p.Keys}
			for _, k := range p.Keys {
				stored[k] = true
			}
			cur = strconv.FormatUint(p.Next, 10)
			totalPages++
		}
		if len(chain) >= 2 && len(c.Nodes) >= 2 {
			nt = true
		}
		w.Lock()
		w.Nodes[i].ScanPages = pages
		w.Unlock()
	}
	if c.Busy {
		of, om := sim.SetRefreshTimers(2*time.Millisecond, time.Millisecond)
		defer sim.SetRefreshTimers(of, om)
	} else {
		defer sim.ProductionRefreshRate()() // stable layout: see the function
	}
	var backups []string
	if ms := w.Masters(); len(ms) > 0 {
		for i := 0; i < c.Backups; i++ {
			if n, err := w.AddNode(ms[0]); err == nil {
				backups = append(backups, n.Addr)
			}
		}
	}
	px, err := sim.StartProxy(sim.ProxyOpts{Seeds: w.Addrs(w.Masters()), BackupSeeds: backups})
	if err != nil {
		return nt, &verdict{"proxy-start", err.Error()}
	}
	defer px.Stop(20 * time.Second)
	px.WaitTableLoaded(1, 10*time.Second)
	cl, err := sim.Dial(px.Addr)
	if err != nil {
		return nt, &verdict{"client-dial", err.Error()}
	}
	defer cl.Close()
	w.ResetLog()
	extra := []string{}
	mw, cw := "MATCH", "COUNT"
	if c.ArgStyle == 2 {
		mw, cw = "match", "count"
	}
	if c.Match != "" {
		extra = append(extra, mw, c.Match)
	}
	if c.Count > 0 {
		if c.ArgStyle == 1 {
			extra = append([]string{cw, strconv.Itoa(c.Count)}, extra...)
		} else {
			extra = append(extra, cw, strconv.Itoa(c.Count))
		}
	}
	if c.Busy {
		bg, err := sim.Dial(px.Addr)
		if err != nil {
			return nt, &verdict{"client-dial", err.Error()}
		}
		stopBg, bgDone := make(chan struct{}), make(chan struct{})
		go func() {
			defer close(bgDone)
			for i := 0; ; i++ {
				select {
				case <-stopBg:
					return
				default:
				}
				if _, err := bg.Do(20*time.Second, "GET", fmt.Sprintf("bg:%d", i%97)); err != nil {
					return
				}
			}
		}()
		defer func() { close(stopBg); <-bgDone; bg.Close() }()
	}
	cursor := "0"
	returned := map[string]int{}
	calls := 0
	bound := totalPages + len(c.Nodes) + 1
	for {
		calls++
		if calls > bound {
			return nt, &verdict{"scan-does-not-terminate", fmt.Sprintf("after %d calls (bound %d = pages + nodes + 1) the cursor is still %s", calls-1, bound, cursor)}
		}
		args := append([]string{"SCAN", cursor}, extra...)
		r, err := cl.Do(20*time.Second, args...)
		if err != nil {
			return nt, &verdict{"reply-missing", fmt.Sprintf("SCAN %s: %v", cursor, err)}
		}
		if r.K != ref.Arr || len(r.A) != 2 || r.A[0].K != ref.Bulk || r.A[1].K != ref.Arr {
			return nt, &verdict{"scan-reply-shape", fmt.Sprintf("SCAN %s answered %s", cursor, r)}
		}
		for _, k := range r.A[1].A {
			returned[string(k.S)]++
		}
		cursor = string(r.A[0].S)
		if cursor == "0" {
			break
		}
		if c.Busy {
			// at least one complete slot refresh between this call and the next one
			s0 := px.Counter("upstream.slots_refresh.success_total")
			for dl := time.Now().Add(2 * time.Second); px.Counter("upstream.slots_refresh.success_total") < s0+2 && time.Now().Before(dl); {
				time.Sleep(200 * time.Microsecond)
			}
		}
	}
	for k := range stored {
		if returned[k] == 0 {
			return nt, &verdict{"scan-misses-key", fmt.Sprintf("key %q stored on a node was never returned (%d calls)", k, calls)}
		}
	}
	for k := range returned {
		if !stored[k] {
			return nt, &verdict{"scan-invents-key", fmt.Sprintf("key %q was returned but is stored nowhere", k)}
		}
	}
	// each node saw exactly its chain, once, in order, with MATCH/COUNT unchanged
	perNode := map[int][]*sim.Entry{}
	for _, e := range w.Snapshot() {
		if len(e.Args) > 0 && strings.EqualFold(string(e.Args[0]), "scan") {
			perNode[e.Node] = append(perNode[e.Node], e)
		}
	}
	// SCAN iterates the seed hosts sorted by address
	order := w.Masters()
	sort.Slice(order, func(i, j int) bool { return w.Nodes[order[i]].Addr < w.Nodes[order[j]].Addr })
	for _, ni := range order {
		chain := c.Nodes[ni]
		got := perNode[ni]
		if len(got) != len(chain) {
			return nt, &verdict{"node-chain-mismatch", fmt.Sprintf("node %d has %d pages but received %d SCAN calls", ni, len(chain), len(got))}
		}
		want := "0"
		for i, e := range got {
			if string(e.Args[1]) != want {
				return nt, &verdict{"node-chain-mismatch", fmt.Sprintf("node %d call %d: cursor %q, want %q", ni, i, e.Args[1], want)}
			}
			if len(e.Args)-2 != len(extra) {
				return nt, &verdict{"scan-args-changed", fmt.Sprintf("node %d: got %s, client sent MATCH/COUNT %v", ni, sim.ArgsString(e.Args), extra)}
			}
			for k, x := range extra {
				if string(e.Args[2+k]) != x {
					return nt, &verdict{"scan-args-changed", fmt.Sprintf("node %d: got %s, client sent %v", ni, sim.ArgsString(e.Args), extra)}
				}
			}
			want = strconv.FormatUint(chain[i].Next, 10)
		}
	}
	// a cursor past the last node yields the terminating reply, twice identically
	past := strconv.FormatUint(uint64(len(c.Nodes))<<48|5, 10)
	for i := 0; i < 2; i++ {
		r, err := cl.Do(20*time.Second, "SCAN", past)
		if err != nil {
			return nt, &verdict{"reply-missing", fmt.Sprintf("SCAN past the last node: %v", err)}
		}
		if !ref.Equal(r, ref.ArrV(ref.BulkS("0"), ref.ArrV())) {
			return nt, &verdict{"past-last-node-not-terminal", fmt.Sprintf("SCAN %s (node index %d of %d) answered %s", past, len(c.Nodes), len(c.Nodes), r)}
		}
	}
	if c.DeadHost {
		res, err := portres.Reserve()
		if err != nil {
			return nt, nil
		}
		defer res.Release()
		dead := []*host.Host{host.New(res.Addr)}
		if err := px.P.OnSvcHostAdd(dead); err != nil {
			return nt, nil
		}
		cur := "0"
		for i := 0; i < bound+2; i++ {
			r, err := cl.Do(30*time.Second, append([]string{"SCAN", cur}, extra...)...)
			if err != nil {
				return nt, &verdict{"reply-missing", fmt.Sprintf("with an unreachable host in the service, SCAN %s: %v", cur, err)}
			}
			if r.K != ref.Arr || len(r.A) != 2 || r.A[0].K != ref.Bulk {
				break // an error reply: the client would retry later
			}
			if cur = string(r.A[0].S); cur == "0" {
				break
			}
		}
		if err := px.P.OnSvcHostRemove(dead); err != nil {
			return nt, nil
		}
		nt = true
		past := strconv.FormatUint(uint64(len(c.Nodes)+2)<<48|9, 10)
		r, err := cl.Do(20*time.Second, "SCAN", past)
		if err != nil {
			return nt, &verdict{"reply-missing", fmt.Sprintf("SCAN past the last node: %v", err)}
		}
		if !ref.Equal(r, terminal) {
			return nt, &verdict{"past-last-node-not-terminal", fmt.Sprintf("after an iteration that met an unreachable host (gone again), SCAN %s answered %s", past, r)}
		}
	}
	if c.RemoveAll {
		var hs []*host.Host
		for _, a := range w.Addrs(w.Masters()) {
			hs = append(hs, host.New(a))
		}
		for _, a := range backups {
			hs = append(hs, host.NewWithType(a, host.TypeBackup))
		}
		if err := px.P.OnSvcHostRemove(hs); err != nil {
			return nt, nil
		}
		if v := checkZeroNodes(cl, c, "after every host was removed"); v != nil {
			return true, v
		}
		nt = true
	}
	return nt, nil
}

func genIter(t *rapid.T) iterCase {
	c := iterCase{RemoveAll: rapid.IntRange(0, 3).Draw(t, "removeall") == 0, Busy: rapid.IntRange(0, 2).Draw(t, "busy") == 0}
	n := rapid.IntRange(0, 6).Draw(t, "nodes")
	kid := 0
	for i := 0; i < n; i++ {
		m := rapid.IntRange(1, 5).Draw(t, "pages")
		used := map[uint64]bool{0: true}
		var chain []page
		for p := 0; p < m; p++ {
			var pg page
			if p < m-1 {
				for {
					pg.Next = genCur(t, "next")
					if !used[pg.Next] {
						used[pg.Next] = true
						break
					}
					pg.Next = uint64(len(used)) + 1000
					if !used[pg.Next] {
						used[pg.Next] = true
						break
					}
				}
			}
			for k, nk := 0, rapid.IntRange(0, 4).Draw(t, "nkeys"); k < nk; k++ {
				if len(chain) > 0 && rapid.IntRange(0, 9).Draw(t, "repeat") == 0 && len(chain[0].Keys) > 0 {
					pg.Keys = append(pg.Keys, chain[0].Keys[0]) // Redis may return a key more than once
					continue
				}
				kid++
				pg.Keys = append(pg.Keys, fmt.Sprintf("key:%d:%d", i, kid))
			}
			chain = append(chain, pg)
		}
		c.Nodes = append(c.Nodes, chain)
	}
	if rapid.Bool().Draw(t, "match") {
		c.Match = rapid.StringMatching(`[a-z*?]{1,6}`).Draw(t, "pat")
		if rapid.IntRange(0, 3).Draw(t, "oddpat") == 0 {
			// patterns that look like something else: an option name, a number, a cursor, bytes with meaning in RESP
			c.Match = rapid.SampledFrom([]string{"count", "COUNT", "Count", "match", "MATCH", "0", "10", "-1", "18446744073709551615", "type", "TYPE", "*", "", " ", "a b", "k\r\n", "[a-c]*", "\\*"}).Draw(t, "oddpatv")
		}
	}
	if rapid.IntRange(0, 3).Draw(t, "backups") == 0 {
		c.Backups = rapid.IntRange(1, 2).Draw(t, "nbackups")
	}
	c.DeadHost = rapid.IntRange(0, 4).Draw(t, "deadhost") == 0
	if rapid.Bool().Draw(t, "count") {
		c.Count = rapid.IntRange(1, 10000).Draw(t, "cnt")
	}
	c.ArgStyle = rapid.IntRange(0, 2).Draw(t, "argstyle")
	return c
}

func TestIteration(t *testing.T) {
	rapid.Check(t, func(t *rapid.T) {
		c := genIter(t)
		vh.CurrentCase(prop, "iteration", c)
		nt, v := checkIter(c)
		vh.ClearCurrentCase()
		if v != nil {
			vh.Fail(t, vh.Failure{Property: prop, Part: "iteration", Signature: v.sig, Message: v.msg, Case: c})
		}
		vh.Rec().Case("iteration", nt, vh.JSON(c))
		if c.Busy && len(c.Nodes) >= 2 {
			vh.Rec().Class("iteration", "slot_refresh_and_traffic_between_scan_calls")
		}
		vh.Rec().Sample("iteration", nt, func() interface{} { return c })
	})
}

func init() {
	vh.RegisterReplay("iteration", func(t *testing.T, raw json.RawMessage) {
		var c iterCase
		if err := json.Unmarshal(raw, &c); err != nil {
			t.Fatal(err)
		}
		if _, v := checkIter(c); v != nil {
			vh.Fail(t, vh.Failure{Property: prop, Part: "iteration", Signature: v.sig, Message: v.msg, Case: c})
		}
	})
}
