package c17

import (
	"encoding/json"
	"fmt"
	"net"
	"os"
	"os/exec"
	"path/filepath"
	"strings"
	"testing"
	"time"

	"pgregory.net/rapid"

	"verif/harness/portres"
	"verif/harness/tcpsim"
	"verif/harness/vh"
)

type binCase struct {
	Steps []step `json:"steps"` // the four requests, unknown types, malformed frames; a terminate is appended
	// Blocked: the bootstrap holds a second service whose port is taken by a foreign listener (no SO_REUSEPORT): its
	// listener is still in its bind-retry loop when the hand-over requests arrive
	Blocked bool `json:"blocked,omitempty"`
}

func dialOK(addr string) bool {
	c, err := net.DialTimeout("tcp", addr, time.Second)
	if err != nil {
		return false
	}
	c.Close()
	return true
}

// adminServed: is an HTTP request to the admin address answered? A bare connect proves little: a listener that is being
// closed still completes handshakes into its backlog until its accept loop has let go of the socket.
// 1: answered; 0: refused, reset or closed without an answer; -1: cannot tell (time-out).
func adminServed(addr string) int {
	c, err := net.DialTimeout("tcp", addr, 5*time.Second)
	if err != nil {
		if ne, ok := err.(net.Error); ok && ne.Timeout() {
			return -1
		}
		return 0
	}
	defer c.Close()
	c.SetDeadline(time.Now().Add(5 * time.Second))
	if _, err := c.Write([]byte("GET /config HTTP/1.0\r\nHost: x\r\n\r\n")); err != nil {
		return 0
	}
	b := make([]byte, 16)
	n, err := c.Read(b)
	if n >= 5 && string(b[:5]) == "HTTP/" {
		return 1
	}
	if ne, ok := err.(net.Error); ok && ne.Timeout() {
		return -1
	}
	return 0
}

func echoOK(c net.Conn) bool {
	c.SetDeadline(time.Now().Add(20 * time.Second))
	if _, err := c.Write([]byte("ping")); err != nil {
		return false
	}
	b := make([]byte, 4)
	n, _ := c.Read(b)
	return n == 4 && string(b) == "ping"
}

func checkBinary(c binCase, dir string) (nt bool, v *verdict) {
	bin := os.Getenv("VERIF_SAMARITAN_BIN")
	if bin == "" {
		return false, nil
	}
	echo, err := tcpsim.NewBackend(func(bc net.Conn, n int) {
		defer bc.Close()
		buf := make([]byte, 256)
		for {
			k, err := bc.Read(buf)
			if err != nil {
				return
			}
			bc.Write(buf[:k])
		}
	})
	if err != nil {
		return false, nil
	}
	defer echo.Close()
	blockedPort := 0
	if c.Blocked {
		bl, err := net.Listen("tcp4", "127.0.0.1:0")
		if err != nil {
			return false, nil
		}
		defer bl.Close()
		blockedPort = bl.Addr().(*net.TCPAddr).Port
	}
	var cmd *exec.Cmd
	var adminAddr, svcAddr string
	var logf *os.File
	for attempt := 0; attempt < 3; attempt++ {
		// both ports stay reserved for this case (package portres): nobody else on the machine can be handed them, neither
		// before the binary has bound them nor after it closed them (admin step, drain)
		ra, err1 := portres.Reserve()
		rs, err2 := portres.Reserve()
		if err1 != nil || err2 != nil {
			ra.Release()
			rs.Release()
			return false, nil
		}
		defer ra.Release()
		defer rs.Release()
		adminPort, svcPort := ra.Port, rs.Port
		adminAddr, svcAddr = fmt.Sprintf("127.0.0.1:%d", adminPort), fmt.Sprintf("127.0.0.1:%d", svcPort)
		host, port, _ := net.SplitHostPort(echo.Addr)
		yaml := fmt.Sprintf(`admin:
  bind:
    ip: 127.0.0.1
    port: %d
log:
  level: INFO
static_services:
  - name: echo
    config:
      listener:
        address:
          ip: 127.0.0.1
          port: %d
      protocol: TCP
    endpoints:
      - address:
          ip: %s
          port: %s
`, adminPort, svcPort, host, port)
		if c.Blocked {
			yaml += blockedService(blockedPort, host, port)
		}
		cfgFile := filepath.Join(dir, "bootstrap.yaml")
		if err := os.WriteFile(cfgFile, []byte(yaml), 0o644); err != nil {
			return false, nil
		}
		logf, _ = os.Create(filepath.Join(dir, "samaritan.log"))
		cmd = exec.Command(bin, "-config", cfgFile, "-data", dir)
		cmd.Stdout, cmd.Stderr = logf, logf
		if err := cmd.Start(); err != nil {
			return false, &verdict{"binary-start", err.Error()}
		}
		ok := false
		for i := 0; i < 500; i++ {
			if dialOK(adminAddr) && dialOK(svcAddr) {
				ok = true
				break
			}
			time.Sleep(10 * time.Millisecond)
		}
		if ok {
			break
		}
		cmd.Process.Kill()
		cmd.Wait()
		cmd = nil
	}
	if cmd == nil {
		return false, nil // could not start (ports taken by others): inconclusive, not a violation
	}
	exited := make(chan error, 1)
	go func() { exited <- cmd.Wait() }()
	defer func() {
		cmd.Process.Kill()
		if logf != nil {
			logf.Close()
		}
	}()
	alive := func() (bool, string) {
		select {
		case err := <-exited:
			exited <- err
			b, _ := os.ReadFile(filepath.Join(dir, "samaritan.log"))
			tail := string(b)
			if i := strings.Index(tail, "fatal error:"); i >= 0 {
				tail = tail[i:]
			} else if i := strings.Index(tail, "panic:"); i >= 0 {
				tail = tail[i:]
			}
			if len(tail) > 600 {
				tail = tail[:600]
			}
			return false, fmt.Sprintf("exit: %v; log: %s", err, tail)
		default:
			return true, ""
		}
	}
	established, err := net.DialTimeout("tcp", svcAddr, 2*time.Second)
	if err != nil || !echoOK(established) {
		return false, &verdict{"service-not-working", fmt.Sprintf("the echo service behind the real binary does not work: %v", err)}
	}
	defer established.Close()
	ctlAddr := &net.UnixAddr{Name: fmt.Sprintf("@sam_domain_socket_%d", cmd.Process.Pid), Net: "unix"}
	ctl, err := net.DialUnix("unix", nil, ctlAddr)
	if err != nil {
		return false, &verdict{"control-socket", err.Error()}
	}
	defer func() { ctl.Close() }()
	steps := append(append([]step{}, c.Steps...), step{Kind: "terminate"})
	adminDown, drained := false, false
	for i, st := range steps {
		where := fmt.Sprintf("step %d (%s)", i, st.Kind)
		var raw []byte
		if st.Kind == "malformed" {
			raw = st.Raw
			nt = true
		} else {
			typ := reqType(st.Kind, st.Type)
			raw = append([]byte{typ, byte(len(st.Payload) >> 8), byte(len(st.Payload))}, st.Payload...)
			if st.Kind == "unknown" {
				nt = true
			}
		}
		if _, err := ctl.Write(raw); err != nil {
			ok, why := alive()
			if !ok {
				return nt, &verdict{"process-died", fmt.Sprintf("%s: the process died: %s", where, why)}
			}
			return nt, &verdict{"control-write-failed", fmt.Sprintf("%s: %v", where, err)}
		}
		if st.Kind == "malformed" {
			if !waitConsumed(ctl) {
				return nt, &verdict{"parent-stuck", where + ": frame not consumed within 5s"}
			}
			if ok, why := alive(); !ok {
				return nt, &verdict{"process-died", fmt.Sprintf("%s: the process died after a malformed frame: %s", where, why)}
			}
			// The next frame goes over a fresh control connection: on this one it could be appended to the read that took
			// the malformed bytes and be parsed together with them (the socket is a stream, see checkSeq, which has the
			// pause point to exclude that and keeps malformed and valid frames on one connection). The parent serves one
			// child connection at a time and takes the next one when this one is closed.
			ctl.Close()
			nc, err := net.DialUnix("unix", nil, ctlAddr)
			if err != nil {
				if ok, why := alive(); !ok {
					return nt, &verdict{"process-died", fmt.Sprintf("%s: the process died after a malformed frame: %s", where, why)}
				}
				return nt, &verdict{"control-socket", fmt.Sprintf("%s: cannot reconnect to the control socket: %v", where, err)}
			}
			ctl = nc
			continue
		}
		ctl.SetReadDeadline(time.Now().Add(10 * time.Second))
		buf := make([]byte, 4096)
		n, err := ctl.Read(buf)
		if err != nil {
			time.Sleep(1500 * time.Millisecond) // a dying process needs a moment to be reaped
			ok, why := alive()
			if !ok {
				return nt, &verdict{"process-died", fmt.Sprintf("%s: the process died instead of acknowledging: %s", where, why)}
			}
			return nt, &verdict{"no-reply", fmt.Sprintf("%s: %v", where, err)}
		}
		want := reqType(st.Kind, st.Type) + 1
		if st.Kind == "unknown" {
			want = tUnknownReply
		}
		if n < 3 || buf[0] != want {
			return nt, &verdict{"wrong-reply", fmt.Sprintf("%s: reply type %d, want %d", where, buf[0], want)}
		}
		switch st.Kind {
		case "admin":
			adminDown = true
		case "drain":
			drained = true
		case "terminate":
			select {
			case err := <-exited:
				exited <- err
				// exit 0 after the signal handler ran, or death by the SIGTERM itself when the request came
				// before the handler was installed at start-up: both are a termination; a crash (exit 2) is not
				if err != nil && !strings.Contains(err.Error(), "signal: terminated") {
					return nt, &verdict{"exit-status", fmt.Sprintf("after terminate the process exited with %v", err)}
				}
			case <-time.After(15 * time.Second):
				return nt, &verdict{"terminate-ignored", "the process is still running 15s after it acknowledged terminate"}
			}
			return nt, nil
		}
		if ok, why := alive(); !ok {
			return nt, &verdict{"process-died", fmt.Sprintf("%s: the process died before terminate was requested: %s", where, why)}
		}
		if adminDown && adminServed(adminAddr) == 1 {
			return nt, &verdict{"admin-still-listening", where + ": the admin API still answers requests after the admin step was acknowledged"}
		}
		if !adminDown && adminServed(adminAddr) == 0 {
			return nt, &verdict{"admin-stopped-early", where + ": the admin API stopped answering before it was requested"}
		}
		if drained {
			if nc, err := net.DialTimeout("tcp", svcAddr, time.Second); err == nil {
				served := echoOK(nc)
				nc.Close()
				if served {
					return nt, &verdict{"accepts-after-drain", where + ": a new connection was served after the drain step was acknowledged"}
				}
			}
		}
		if !echoOK(established) {
			return nt, &verdict{"established-connection-broken", where + ": the established connection no longer echoes"}
		}
	}
	return nt, nil
}

// blockedService is the bootstrap text of a TCP service on a port somebody else holds.
func blockedService(port int, backendHost, backendPort string) string {
	return fmt.Sprintf(`  - name: blocked
    config:
      listener:
        address:
          ip: 127.0.0.1
          port: %d
      protocol: TCP
    endpoints:
      - address:
          ip: %s
          port: %s
`, port, backendHost, backendPort)
}

func TestBinary(t *testing.T) {
	if os.Getenv("VERIF_SAMARITAN_BIN") == "" {
		t.Skip("no binary")
	}
	rapid.Check(t, func(rt *rapid.T) {
		var c binCase
		c.Blocked = rapid.IntRange(0, 2).Draw(rt, "blocked") == 0
		for i, n := 0, rapid.IntRange(0, 6).Draw(rt, "steps"); i < n; i++ {
			var st step
			switch x := rapid.IntRange(0, 9).Draw(rt, "kind"); {
			case x <= 6:
				st.Kind = rapid.SampledFrom([]string{"admin", "localconf", "drain"}).Draw(rt, "req")
				if rapid.Bool().Draw(rt, "json") {
					st.Payload = []byte("{}")
				}
			case x == 7:
				st.Kind, st.Type = "unknown", rapid.SampledFrom([]uint8{0, 2, 4, 6, 8, 9, 10, 200}).Draw(rt, "utype")
			default:
				st.Kind = "malformed"
				st.Raw = rapid.SampledFrom([][]byte{{1}, {7, 0}, {3, 0, 9, 1}, {5, 0xff, 0xff}, {7, 0, 2, '{'}}).Draw(rt, "raw")
			}
			c.Steps = append(c.Steps, st)
		}
		dir, err := os.MkdirTemp("", "c17bin")
		if err != nil {
			rt.Skip()
		}
		defer os.RemoveAll(dir)
		vh.CurrentCase(prop, "binary", c)
		nt, v := checkBinary(c, dir)
		vh.ClearCurrentCase()
		if v != nil {
			vh.Fail(rt, vh.Failure{Property: prop, Part: "binary", Signature: v.sig, Message: v.msg, Case: c})
		}
		vh.Rec().Case("binary", nt, vh.JSON(c))
		vh.Rec().Sample("binary", nt, func() interface{} { return c })
	})
}

func init() {
	vh.RegisterReplay("binary", func(t *testing.T, raw json.RawMessage) {
		var c binCase
		json.Unmarshal(raw, &c)
		dir, _ := os.MkdirTemp("", "c17bin")
		defer os.RemoveAll(dir)
		if _, v := checkBinary(c, dir); v != nil {
			vh.Fail(t, vh.Failure{Property: prop, Part: "binary", Signature: v.sig, Message: v.msg, Case: c})
		}
	})
}
