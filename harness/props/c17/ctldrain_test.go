package c17

import (
	"encoding/json"
	"fmt"
	"sync"
	"sync/atomic"
	"testing"
	"time"

	"pgregory.net/rapid"

	"github.com/samaritan-proxy/samaritan/config"
	"github.com/samaritan-proxy/samaritan/controller"
	"github.com/samaritan-proxy/samaritan/host"
	"github.com/samaritan-proxy/samaritan/pb/common"
	"github.com/samaritan-proxy/samaritan/pb/config/protocol"
	"github.com/samaritan-proxy/samaritan/pb/config/service"
	"github.com/samaritan-proxy/samaritan/proc"

	"verif/harness/vh"
)

// part ctldrain: the "drain the parent's listeners" step of the hand-over as the old process performs it - the real controller's
// DrainListeners - while the controller's event loop is busy with configuration events (processors whose Start / Stop take a
// generated time) and while the old process is told to stop (Controller.Stop, what SIGTERM leads to) at a generated offset.
// The drain must be acknowledged, i.e. DrainListeners must return, whatever else is going on, and so must Stop; a drain that
// returned before Stop began has reached every processor that was running.

type cdCase struct {
	Services  int   `json:"services"`
	StartMs   []int `json:"start_ms"`       // how long each processor's Start takes (the event loop is busy meanwhile)
	StopMs    int   `json:"stop_ms"`        // how long each processor's Stop takes
	DrainAtUs int   `json:"drain_at_us"`    // DrainListeners is called this long after the events were queued
	StopAtUs  int   `json:"stop_at_us"`     // Controller.Stop is called this long after the events were queued
	MoreAfter int   `json:"events_after"`   // further add events queued behind the first ones
}

type cdProc struct {
	name            string
	cfg             *service.Config
	startMs, stopMs int
	drained         int32
	st              *cdState
}

type cdState struct {
	mu      sync.Mutex
	started map[string]*cdProc
}

var cdCur atomic.Value // *cdRun

type cdRun struct {
	c  cdCase
	st *cdState
	n  int32
}

type cdBuilder struct{}

func (cdBuilder) Build(p proc.BuildParams) (proc.Proc, error) {
	r := cdCur.Load().(*cdRun)
	i := int(atomic.AddInt32(&r.n, 1)) - 1
	ms := 0
	if len(r.c.StartMs) > 0 {
		ms = r.c.StartMs[i%len(r.c.StartMs)]
	}
	return &cdProc{name: p.Name, cfg: p.Cfg, startMs: ms, stopMs: r.c.StopMs, st: r.st}, nil
}

func (p *cdProc) Name() string                              { return p.name }
func (p *cdProc) Address() string                           { return "" }
func (p *cdProc) Config() *service.Config                   { return p.cfg }
func (p *cdProc) OnSvcHostAdd([]*host.Host) error           { return nil }
func (p *cdProc) OnSvcHostRemove([]*host.Host) error        { return nil }
func (p *cdProc) OnSvcAllHostReplace([]*host.Host) error    { return nil }
func (p *cdProc) OnSvcConfigUpdate(c *service.Config) error { p.cfg = c; return nil }
func (p *cdProc) Start() error {
	time.Sleep(time.Duration(p.startMs) * time.Millisecond)
	p.st.mu.Lock()
	p.st.started[p.name] = p
	p.st.mu.Unlock()
	return nil
}
func (p *cdProc) StopListen() error { atomic.AddInt32(&p.drained, 1); return nil }
func (p *cdProc) Stop() error {
	time.Sleep(time.Duration(p.stopMs) * time.Millisecond)
	return nil
}

var cdRegister sync.Once

func checkCtlDrain(c cdCase) *verdict {
	cdRegister.Do(func() { proc.RegisterBuilder(protocol.MySQL, cdBuilder{}) })
	st := &cdState{started: map[string]*cdProc{}}
	cdCur.Store(&cdRun{c: c, st: st})
	evts := make(chan config.Event, 64)
	ctl, _ := controller.New(evts)
	ctl.Start()
	idle := time.Minute
	mk := func(i int) *config.SvcAddEvent {
		return &config.SvcAddEvent{Name: fmt.Sprintf("cd%d", i), Config: &service.Config{
			Listener: &service.Listener{Address: &common.Address{Ip: "127.0.0.1", Port: uint32(21000 + i)}}, Protocol: protocol.MySQL, IdleTimeout: &idle},
			Endpoints: []*service.Endpoint{{Address: &common.Address{Ip: "10.1.1.1", Port: 7000}}}}
	}
	for i := 0; i < c.Services; i++ {
		evts <- mk(i)
	}
	t0 := time.Now()
	at := func(us int) { time.Sleep(time.Until(t0.Add(time.Duration(us) * time.Microsecond))) }
	drainDone, stopDone := make(chan time.Time, 1), make(chan struct{})
	var stopBegan atomic.Value
	var runningAtDrain []*cdProc
	go func() {
		at(c.DrainAtUs)
		// "running" = registered with the controller (a processor whose Start has returned a moment ago but which the event
		// loop has not registered yet is not: the controller starts before it registers, see DESIGN 8.4)
		for _, p := range ctl.GetAllProcs() {
			st.mu.Lock()
			if cp := st.started[p.Name()]; cp != nil {
				runningAtDrain = append(runningAtDrain, cp)
			}
			st.mu.Unlock()
		}
		ctl.DrainListeners()
		drainDone <- time.Now()
	}()
	go func() {
		at(c.StopAtUs)
		stopBegan.Store(time.Now())
		ctl.Stop()
		close(stopDone)
	}()
	for i := 0; i < c.MoreAfter; i++ {
		select {
		case evts <- mk(c.Services + i):
		default:
		}
	}
	budget := 10*time.Second + time.Duration(c.Services+c.MoreAfter)*time.Duration(maxOf(c.StartMs)+c.StopMs)*time.Millisecond
	var drainedAt time.Time
	select {
	case drainedAt = <-drainDone:
	case <-time.After(budget):
		return &verdict{"drain-never-acknowledged", fmt.Sprintf("DrainListeners called %d us after %d service events were queued (Stop called at %d us) did not return within %v: the child's drain request is never answered and the old process cannot finish its hand-over\n%s",
			c.DrainAtUs, c.Services, c.StopAtUs, budget, clipS(vh.Stacks(), 3000))}
	}
	select {
	case <-stopDone:
	case <-time.After(budget):
		return &verdict{"controller-stop-never-returns", fmt.Sprintf("Controller.Stop called %d us after the events were queued (DrainListeners at %d us) did not return within %v\n%s", c.StopAtUs, c.DrainAtUs, budget, clipS(vh.Stacks(), 3000))}
	}
	if sb, ok := stopBegan.Load().(time.Time); ok && drainedAt.Before(sb) {
		for _, p := range runningAtDrain {
			if atomic.LoadInt32(&p.drained) == 0 {
				return &verdict{"drain-skipped-a-running-processor", fmt.Sprintf("DrainListeners returned before Stop began, but processor %s, which was running when it was called, was never told to stop listening", p.name)}
			}
		}
	}
	return nil
}

func maxOf(xs []int) int {
	m := 0
	for _, x := range xs {
		if x > m {
			m = x
		}
	}
	return m
}

func clipS(s string, n int) string {
	if len(s) > n {
		return s[:n]
	}
	return s
}

func TestCtlDrain(t *testing.T) {
	rapid.Check(t, func(t *rapid.T) {
		c := cdCase{Services: rapid.IntRange(1, 6).Draw(t, "services"), StopMs: rapid.SampledFrom([]int{0, 0, 1, 5}).Draw(t, "stopms"), MoreAfter: rapid.IntRange(0, 4).Draw(t, "more")}
		for i := 0; i < c.Services; i++ {
			c.StartMs = append(c.StartMs, rapid.SampledFrom([]int{0, 0, 1, 3, 10, 30}).Draw(t, "startms"))
		}
		total := 0
		for _, x := range c.StartMs {
			total += x * 1000
		}
		c.DrainAtUs = rapid.IntRange(0, total+2000).Draw(t, "drainat")
		// Stop shortly before / after the drain request, mostly while it can still be pending
		c.StopAtUs = c.DrainAtUs + rapid.SampledFrom([]int{-500, -50, 0, 0, 20, 100, 500, 3000, 20000}).Draw(t, "stopoff")
		if c.StopAtUs < 0 {
			c.StopAtUs = 0
		}
		vh.CurrentCase(prop, "ctldrain", c)
		var v *verdict
		for rep := 0; rep < 8 && v == nil; rep++ {
			v = checkCtlDrain(c)
		}
		vh.ClearCurrentCase()
		if v != nil {
			vh.Fail(t, vh.Failure{Property: prop, Part: "ctldrain", Signature: v.sig, Message: v.msg, Case: c})
		}
		busy := total > 0
		vh.Rec().Case("ctldrain", busy, vh.JSON(c))
		vh.Rec().ClassN("ctldrain", "drain_vs_stop_races_executed", 8)
		vh.Rec().Sample("ctldrain", busy, func() interface{} { return c })
	})
}

func init() {
	vh.RegisterReplay("ctldrain", func(t *testing.T, raw json.RawMessage) {
		var c cdCase
		if err := json.Unmarshal(raw, &c); err != nil {
			t.Fatal(err)
		}
		for i := 0; i < 40; i++ {
			if v := checkCtlDrain(c); v != nil {
				vh.Fail(t, vh.Failure{Property: prop, Part: "ctldrain", Signature: v.sig, Message: v.msg, Case: c})
			}
		}
	})
}
