package c17

import (
	"encoding/json"
	"fmt"
	"net"
	"os"
	"os/exec"
	"path/filepath"
	"strings"
	"testing"
	"time"

	"pgregory.net/rapid"

	"verif/harness/portres"
	"verif/harness/tcpsim"
	"verif/harness/vh"
)

// part handover: two (or more) real samaritan processes. The old one runs a TCP service with established connections;
// new ones are started the way a hot restart starts them (parent pid and terminate delay in the environment) and perform the
// child side of the hand-over themselves (cmd/samaritan/samaritan.go: admin, listeners, delayed terminate). Children may be
// killed before they finish; the last one must complete the hand-over.

type lostChild struct {
	KillAfterMs int `json:"kill_after_ms"`
}

type hoCase struct {
	Conns     int         `json:"conns"`                // established connections through the old process
	TermMs    int         `json:"term_ms"`              // terminate delay of the completing child
	Lost      []lostChild `json:"lost,omitempty"`       // children that disappear (SIGKILL) before the completing one is started
	AdminBusy bool        `json:"admin_busy,omitempty"` // a half-sent request is pending on the old admin API during the hand-over
	Blocked   bool        `json:"blocked,omitempty"`    // a second service whose port a foreign listener holds: its listeners never get past the bind retries
}

const (
	parentPidEnv     = "__Samaritan_Parent__"
	parentTermTimeEv = "__Samaritan_Parent_Terminate_Time__"
)

type samProc struct {
	cmd    *exec.Cmd
	exited chan error
	log    string
}

func startSam(bin, cfgFile, dir, logName string, env []string) (*samProc, error) {
	logPath := filepath.Join(dir, logName)
	logf, err := os.Create(logPath)
	if err != nil {
		return nil, err
	}
	cmd := exec.Command(bin, "-config", cfgFile, "-data", dir)
	cmd.Stdout, cmd.Stderr = logf, logf
	cmd.Env = append(os.Environ(), env...)
	if err := cmd.Start(); err != nil {
		logf.Close()
		return nil, err
	}
	p := &samProc{cmd: cmd, exited: make(chan error, 1), log: logPath}
	go func() { p.exited <- cmd.Wait(); logf.Close() }()
	return p, nil
}

// state: (running?, exit error text, interesting tail of the log)
func (p *samProc) state() (bool, string) {
	select {
	case err := <-p.exited:
		p.exited <- err
		b, _ := os.ReadFile(p.log)
		tail := string(b)
		if i := strings.Index(tail, "fatal error:"); i >= 0 {
			tail = tail[i:]
		} else if i := strings.Index(tail, "panic:"); i >= 0 {
			tail = tail[i:]
		} else if len(tail) > 600 {
			tail = tail[len(tail)-600:]
		}
		if len(tail) > 600 {
			tail = tail[:600]
		}
		return false, fmt.Sprintf("exit: %v; log: %s", err, tail)
	default:
		return true, ""
	}
}

func (p *samProc) kill() {
	if p == nil {
		return
	}
	p.cmd.Process.Kill()
	select {
	case err := <-p.exited:
		p.exited <- err
	case <-time.After(5 * time.Second):
	}
}

func cleanExit(why string) bool {
	return strings.HasPrefix(why, "exit: <nil>") || strings.Contains(why, "signal: terminated")
}

func echoWithin(c net.Conn, d time.Duration) bool {
	c.SetDeadline(time.Now().Add(d))
	if _, err := c.Write([]byte("ping")); err != nil {
		return false
	}
	b := make([]byte, 4)
	got := 0
	for got < 4 {
		n, err := c.Read(b[got:])
		got += n
		if err != nil {
			break
		}
	}
	return got == 4 && string(b) == "ping"
}

func checkHandover(c hoCase, dir string) (nt bool, v *verdict) {
	bin := os.Getenv("VERIF_SAMARITAN_BIN")
	if bin == "" {
		return false, nil
	}
	echo, err := tcpsim.NewBackend(func(bc net.Conn, n int) {
		defer bc.Close()
		buf := make([]byte, 256)
		for {
			k, err := bc.Read(buf)
			if err != nil {
				return
			}
			bc.Write(buf[:k])
		}
	})
	if err != nil {
		return false, nil
	}
	defer echo.Close()
	ra, err1 := portres.Reserve()
	rs, err2 := portres.Reserve()
	if err1 != nil || err2 != nil {
		ra.Release()
		rs.Release()
		return false, nil
	}
	defer ra.Release()
	defer rs.Release()
	adminAddr, svcAddr := fmt.Sprintf("127.0.0.1:%d", ra.Port), fmt.Sprintf("127.0.0.1:%d", rs.Port)
	host, port, _ := net.SplitHostPort(echo.Addr)
	yaml := fmt.Sprintf(`admin:
  bind:
    ip: 127.0.0.1
    port: %d
log:
  level: INFO
static_services:
  - name: echo
    config:
      listener:
        address:
          ip: 127.0.0.1
          port: %d
      protocol: TCP
    endpoints:
      - address:
          ip: %s
          port: %s
`, ra.Port, rs.Port, host, port)
	if c.Blocked {
		bl, err := net.Listen("tcp4", "127.0.0.1:0")
		if err != nil {
			return false, nil
		}
		defer bl.Close()
		yaml += blockedService(bl.Addr().(*net.TCPAddr).Port, host, port)
	}
	cfgFile := filepath.Join(dir, "bootstrap.yaml")
	if err := os.WriteFile(cfgFile, []byte(yaml), 0o644); err != nil {
		return false, nil
	}
	parent, err := startSam(bin, cfgFile, dir, "parent.log", nil)
	if err != nil {
		return false, &verdict{"binary-start", err.Error()}
	}
	defer parent.kill()
	up := false
	for i := 0; i < 2000; i++ {
		if dialOK(adminAddr) && dialOK(svcAddr) {
			up = true
			break
		}
		if ok, _ := parent.state(); !ok {
			break
		}
		time.Sleep(10 * time.Millisecond)
	}
	if !up {
		return false, nil // could not start: inconclusive
	}
	var established []net.Conn
	defer func() {
		for _, e := range established {
			e.Close()
		}
	}()
	for i := 0; i < c.Conns; i++ {
		e, err := net.DialTimeout("tcp", svcAddr, 5*time.Second)
		if err != nil || !echoWithin(e, 20*time.Second) {
			return false, &verdict{"service-not-working", fmt.Sprintf("the echo service behind the old process does not work: %v", err)}
		}
		established = append(established, e)
	}
	if c.AdminBusy {
		if bc, err := net.DialTimeout("tcp", adminAddr, 5*time.Second); err == nil {
			bc.Write([]byte("GET /config HTTP/1.1\r\nHost: x\r\n")) // never finished
			defer bc.Close()
		}
	}
	nt = c.AdminBusy || c.Blocked
	parentEnv := fmt.Sprintf("%s=%d", parentPidEnv, parent.cmd.Process.Pid)
	// children that disappear
	for i, lc := range c.Lost {
		nt = true
		ch, err := startSam(bin, cfgFile, dir, fmt.Sprintf("lost%d.log", i), []string{parentEnv, parentTermTimeEv + "=1h"})
		if err != nil {
			return nt, &verdict{"binary-start", err.Error()}
		}
		time.Sleep(time.Duration(lc.KillAfterMs) * time.Millisecond)
		ch.kill()
		if ok, why := parent.state(); !ok {
			return nt, &verdict{"process-died", fmt.Sprintf("the old process died while child %d (killed after %d ms) was handing over: %s", i, lc.KillAfterMs, why)}
		}
		for k, e := range established {
			if !echoWithin(e, 20*time.Second) {
				return nt, &verdict{"established-connection-broken", fmt.Sprintf("established connection %d no longer echoes after child %d disappeared", k, i)}
			}
		}
	}
	// the completing child
	term := time.Duration(c.TermMs) * time.Millisecond
	child, err := startSam(bin, cfgFile, dir, "child.log", []string{parentEnv, fmt.Sprintf("%s=%dms", parentTermTimeEv, c.TermMs)})
	if err != nil {
		return nt, &verdict{"binary-start", err.Error()}
	}
	defer child.kill()
	started := time.Now()
	deadline := started.Add(term + 25*time.Second)
	for {
		ok, why := parent.state()
		if !ok {
			if !cleanExit(why) {
				return nt, &verdict{"process-died", fmt.Sprintf("the old process crashed during the hand-over: %s", why)}
			}
			if since := time.Since(started); since < term/2 {
				return nt, &verdict{"terminated-early", fmt.Sprintf("the old process was terminated %v after the new one was started; the configured delay is %v", since, term)}
			}
			break
		}
		if cok, cwhy := child.state(); !cok {
			return nt, &verdict{"child-died", fmt.Sprintf("the new process died during the hand-over: %s", cwhy)}
		}
		if time.Now().After(deadline) {
			b, _ := os.ReadFile(child.log)
			tail := string(b)
			if len(tail) > 800 {
				tail = tail[len(tail)-800:]
			}
			return nt, &verdict{"handover-incomplete", fmt.Sprintf("the old process is still running %v after the new one was started with a terminate delay of %v; child log: %s", time.Since(started), term, tail)}
		}
		// established connections keep working as long as the old process lives
		for k, e := range established {
			if !echoWithin(e, 10*time.Second) {
				time.Sleep(1500 * time.Millisecond) // the old process may just have been terminated: give it a moment to be reaped
				if ok, _ := parent.state(); ok {
					return nt, &verdict{"established-connection-broken", fmt.Sprintf("established connection %d stopped echoing %v into the hand-over while the old process is still running", k, time.Since(started))}
				}
			}
		}
		time.Sleep(20 * time.Millisecond)
	}
	// the old process is gone: the new one serves
	if cok, cwhy := child.state(); !cok {
		return nt, &verdict{"child-died", fmt.Sprintf("the new process died: %s", cwhy)}
	}
	served := false
	for dl := time.Now().Add(5 * time.Second); time.Now().Before(dl); time.Sleep(20 * time.Millisecond) {
		nc, err := net.DialTimeout("tcp", svcAddr, time.Second)
		if err != nil {
			continue
		}
		ok := echoWithin(nc, 5*time.Second)
		nc.Close()
		if ok {
			served = true
			break
		}
	}
	if !served {
		return nt, &verdict{"service-lost-after-handover", "after the old process terminated no new connection to the service port is served by the new process for 5s"}
	}
	adminOK := false
	for dl := time.Now().Add(5 * time.Second); time.Now().Before(dl); time.Sleep(20 * time.Millisecond) {
		if adminServed(adminAddr) == 1 {
			adminOK = true
			break
		}
	}
	if !adminOK {
		return nt, &verdict{"admin-lost-after-handover", "after the old process terminated the admin API is not answered by the new process for 5s"}
	}
	return nt, nil
}

func TestHandover(t *testing.T) {
	if os.Getenv("VERIF_SAMARITAN_BIN") == "" {
		t.Skip("no binary")
	}
	rapid.Check(t, func(rt *rapid.T) {
		c := hoCase{Conns: rapid.IntRange(1, 3).Draw(rt, "conns"), TermMs: rapid.SampledFrom([]int{300, 600, 1200}).Draw(rt, "term"), AdminBusy: rapid.IntRange(0, 3).Draw(rt, "busy") == 0,
			Blocked: rapid.IntRange(0, 2).Draw(rt, "blocked") == 0}
		for i, n := 0, rapid.SampledFrom([]int{0, 0, 1, 1, 2}).Draw(rt, "lost"); i < n; i++ {
			c.Lost = append(c.Lost, lostChild{KillAfterMs: rapid.SampledFrom([]int{0, 5, 20, 60, 150, 400}).Draw(rt, "killafter")})
		}
		dir, err := os.MkdirTemp("", "c17ho")
		if err != nil {
			rt.Skip()
		}
		defer os.RemoveAll(dir)
		vh.CurrentCase(prop, "handover", c)
		nt, v := checkHandover(c, dir)
		vh.ClearCurrentCase()
		if v != nil {
			vh.Fail(rt, vh.Failure{Property: prop, Part: "handover", Signature: v.sig, Message: v.msg, Case: c})
		}
		vh.Rec().Case("handover", nt, vh.JSON(c))
		if len(c.Lost) > 0 {
			vh.Rec().Class("handover", "child_disappears_before_the_completing_one")
		}
		vh.Rec().Sample("handover", nt, func() interface{} { return c })
	})
}

func init() {
	vh.RegisterReplay("handover", func(t *testing.T, raw json.RawMessage) {
		var c hoCase
		json.Unmarshal(raw, &c)
		dir, _ := os.MkdirTemp("", "c17ho")
		defer os.RemoveAll(dir)
		if _, v := checkHandover(c, dir); v != nil {
			vh.Fail(t, vh.Failure{Property: prop, Part: "handover", Signature: v.sig, Message: v.msg, Case: c})
		}
	})
}
