package c17

import (
	"testing"

	"verif/harness/vh"
)

// FuzzFrame: native coverage-guided fuzzing of the real frame reader with the frame oracle inside the target.
func FuzzFrame(f *testing.F) {
	f.Add([]byte{1, 0, 0})
	f.Add([]byte{1, 0, 2, '{', '}'})
	f.Add([]byte{7, 0, 1})
	f.Add([]byte{3, 0xff, 0xff, 1, 2, 3})
	f.Add([]byte{9})
	f.Fuzz(func(t *testing.T, raw []byte) {
		if len(raw) == 0 || len(raw) > 4096 {
			return
		}
		c := frameCase{Raw: raw}
		if _, v := checkFrame(c); v != nil {
			vh.WriteFailure(vh.Failure{Property: prop, Part: "frames", Signature: v.sig, Message: v.msg, Case: c})
			t.Fatalf("%s: %s", v.sig, v.msg)
		}
	})
}
