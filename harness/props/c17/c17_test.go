// Package c17 decides property C17: the hot-restart hand-over is ordered,
// acknowledged and robust to bad frames.
package c17

import (
	"bytes"
	"encoding/json"
	"fmt"
	"net"
	"os"
	"strings"
	"sync"
	"sync/atomic"
	"syscall"
	"testing"
	"time"
	"unsafe"

	"github.com/samaritan-proxy/samaritan/cmd/samaritan/hotrestart"
	"github.com/samaritan-proxy/samaritan/utils/verifpoint"
	"pgregory.net/rapid"

	"verif/harness/vh"
)

const prop = "C17"

func TestMain(m *testing.M) { vh.Main(m) }

type verdict struct{ sig, msg string }

// wire constants of the hot-restart protocol (cmd/samaritan/hotrestart/rpc.go)
const (
	tAdminReq     = 1
	tAdminReply   = 2
	tLocalReq     = 3
	tLocalReply   = 4
	tDrainReq     = 5
	tDrainReply   = 6
	tTermReq      = 7
	tTermReply    = 8
	tUnknownReply = 9
)

func socketpair() (*net.UnixConn, *net.UnixConn, error) {
	fds, err := syscall.Socketpair(syscall.AF_UNIX, syscall.SOCK_STREAM|syscall.SOCK_CLOEXEC, 0)
	if err != nil {
		return nil, nil, err
	}
	mk := func(fd int) (*net.UnixConn, error) {
		f := os.NewFile(uintptr(fd), "sp")
		defer f.Close()
		c, err := net.FileConn(f)
		if err != nil {
			return nil, err
		}
		return c.(*net.UnixConn), nil
	}
	a, err := mk(fds[0])
	if err != nil {
		return nil, nil, err
	}
	b, err := mk(fds[1])
	if err != nil {
		a.Close()
		return nil, nil, err
	}
	return a, b, nil
}

// ---- frames

type frameCase struct {
	Raw      []byte `json:"raw,omitempty"` // hostile: raw bytes written in one write (<= 4096)
	Type     uint8  `json:"type"`          // well-formed: sent through the real sendMessage
	Payload  []byte `json:"payload,omitempty"`
	WellForm bool   `json:"well_formed"`
}

func checkFrame(c frameCase) (nt bool, v *verdict) {
	a, b, err := socketpair()
	if err != nil {
		return false, nil
	}
	defer a.Close()
	defer b.Close()
	b.SetReadDeadline(time.Now().Add(10 * time.Second))
	if c.WellForm {
		if err := hotrestart.VerifSendMessage(a, c.Type, c.Payload); err != nil {
			return false, &verdict{"send-error", fmt.Sprintf("sendMessage(type %d, %d bytes): %v", c.Type, len(c.Payload), err)}
		}
		typ, ln, data, err := hotrestart.VerifReadMessage(b)
		if err != nil {
			return false, &verdict{"roundtrip-error", fmt.Sprintf("frame (type %d, %d bytes) not read back: %v", c.Type, len(c.Payload), err)}
		}
		if typ != c.Type || int(ln) != len(c.Payload) || !bytes.Equal(data, c.Payload) {
			return false, &verdict{"roundtrip-mismatch", fmt.Sprintf("sent (type %d, len %d), read (type %d, len %d, %d bytes)", c.Type, len(c.Payload), typ, ln, len(data))}
		}
		return len(c.Payload) > 0, nil
	}
	if len(c.Raw) == 0 || len(c.Raw) > 4096 {
		return false, nil
	}
	if _, err := a.Write(c.Raw); err != nil {
		return false, nil
	}
	var typ uint8
	var ln uint16
	var data []byte
	var rerr error
	var panicked interface{}
	func() {
		defer func() { panicked = recover() }()
		typ, ln, data, rerr = hotrestart.VerifReadMessage(b)
	}()
	L := len(c.Raw)
	if panicked != nil {
		return true, &verdict{"frame-reader-panics", fmt.Sprintf("reading a %d-byte frame declaring %d payload bytes panics: %v", L, declared(c.Raw), panicked)}
	}
	if L < 3 {
		if rerr == nil {
			return true, &verdict{"short-frame-accepted", fmt.Sprintf("%d-byte frame accepted", L)}
		}
		return true, nil
	}
	D, A := declared(c.Raw), L-3
	switch {
	case D > A:
		if rerr == nil {
			return true, &verdict{"truncated-frame-accepted", fmt.Sprintf("frame declares %d payload bytes but carries %d; accepted as (type %d, len %d, %d bytes)", D, A, typ, ln, len(data))}
		}
	case D == A:
		if rerr != nil {
			return false, &verdict{"wellformed-frame-rejected", fmt.Sprintf("frame with %d payload bytes rejected: %v", D, rerr)}
		}
		if typ != c.Raw[0] || int(ln) != D || !bytes.Equal(data, c.Raw[3:]) {
			return false, &verdict{"roundtrip-mismatch", fmt.Sprintf("raw frame (type %d, len %d) read as (type %d, len %d)", c.Raw[0], D, typ, ln)}
		}
	default: // trailing bytes: rejected, or accepted as exactly the declared prefix
		if rerr == nil && (typ != c.Raw[0] || int(ln) != D || !bytes.Equal(data, c.Raw[3:3+D])) {
			return true, &verdict{"frame-misread", fmt.Sprintf("frame (type %d, declared %d, carries %d) read as (type %d, len %d, %d bytes)", c.Raw[0], D, A, typ, ln, len(data))}
		}
	}
	return D != A, nil
}

func declared(raw []byte) int { return int(raw[1])<<8 | int(raw[2]) }

func genFrame(t *rapid.T) frameCase {
	if rapid.IntRange(0, 2).Draw(t, "wf") == 0 {
		n := rapid.IntRange(0, 4093).Draw(t, "n")
		if rapid.Bool().Draw(t, "edge") {
			n = rapid.SampledFrom([]int{0, 1, 2, 3, 4090, 4091, 4092, 4093}).Draw(t, "nedge")
		}
		p := bytes.Repeat([]byte{rapid.Byte().Draw(t, "fill")}, n)
		if n > 0 {
			p[n-1] = rapid.Byte().Draw(t, "last")
			p[0] = rapid.Byte().Draw(t, "first")
		}
		return frameCase{WellForm: true, Type: rapid.Byte().Draw(t, "type"), Payload: p}
	}
	var L, D int
	edges := []int{0, 1, 2, 3, 4, 4090, 4091, 4092, 4093, 4094, 4095, 4096}
	switch rapid.IntRange(0, 3).Draw(t, "cls") {
	case 0:
		L = rapid.SampledFrom(edges[1:]).Draw(t, "L")
		D = rapid.SampledFrom(append(edges, 65535, 65534, 4097, 5000)).Draw(t, "D")
	case 1:
		L = rapid.IntRange(1, 4096).Draw(t, "L")
		D = L - 3 + rapid.IntRange(-3, 3).Draw(t, "dd")
	default:
		L = rapid.IntRange(1, 4096).Draw(t, "L")
		D = rapid.IntRange(0, 65535).Draw(t, "D")
	}
	if D < 0 {
		D = 0
	}
	if D > 65535 {
		D = 65535
	}
	raw := bytes.Repeat([]byte{rapid.Byte().Draw(t, "fill")}, L)
	raw[0] = rapid.Byte().Draw(t, "type")
	if L > 1 {
		raw[1] = byte(D >> 8)
	}
	if L > 2 {
		raw[2] = byte(D)
	}
	return frameCase{Raw: raw}
}

func TestFrames(t *testing.T) {
	rapid.Check(t, func(t *rapid.T) {
		c := genFrame(t)
		nt, v := checkFrame(c)
		if v != nil {
			vh.Fail(t, vh.Failure{Property: prop, Part: "frames", Signature: v.sig, Message: v.msg, Case: c})
		}
		key := vh.JSON(c)
		if !c.WellForm && len(c.Raw) >= 3 {
			key = fmt.Sprintf("raw L=%d D=%d t=%d f=%d", len(c.Raw), declared(c.Raw), c.Raw[0], c.Raw[len(c.Raw)-1])
		}
		vh.Rec().Case("frames", nt, key)
		vh.Rec().Sample("frames", nt, func() interface{} {
			if c.WellForm {
				return map[string]interface{}{"well_formed": true, "type": c.Type, "payload_len": len(c.Payload)}
			}
			d := -1
			if len(c.Raw) >= 3 {
				d = declared(c.Raw)
			}
			return map[string]interface{}{"raw_len": len(c.Raw), "declared_payload": d, "carried_payload": len(c.Raw) - 3}
		})
	})
}

// TestFrameBoundaries enumerates every (total length, declared length) pair near the boundaries.
func TestFrameBoundaries(t *testing.T) {
	var total, nt int64
	Ls := []int{1, 2, 3, 4, 5, 6, 4090, 4091, 4092, 4093, 4094, 4095, 4096}
	for _, L := range Ls {
		for _, D := range []int{0, 1, 2, 3, 4, 4086, 4087, 4088, 4089, 4090, 4091, 4092, 4093, 4094, 4095, 4096, 4097, 65535} {
			raw := bytes.Repeat([]byte{0xAB}, L)
			raw[0] = 1
			if L > 1 {
				raw[1] = byte(D >> 8)
			}
			if L > 2 {
				raw[2] = byte(D)
			}
			c := frameCase{Raw: raw}
			n, v := checkFrame(c)
			if v != nil {
				vh.Fail(t, vh.Failure{Property: prop, Part: "frames", Signature: v.sig, Message: v.msg, Case: c})
			}
			total++
			if n {
				nt++
			}
		}
	}
	vh.Rec().CaseN("frame-boundaries", total, nt)
	vh.Rec().Exhaustive("frame-boundaries")
	vh.Rec().Sample("frame-boundaries", true, func() interface{} {
		return map[string]interface{}{"total_lengths": Ls, "declared": "0..4,4086..4097,65535"}
	})
}

// ---- sequences against hotrestart.New with a scripted instance

type step struct {
	Kind    string `json:"kind"` // admin, localconf, drain, terminate, unknown, malformed
	Type    uint8  `json:"type,omitempty"`
	Raw     []byte `json:"raw,omitempty"`
	Payload []byte `json:"payload,omitempty"`
	NoRead  bool   `json:"no_read,omitempty"` // child disappears right after sending, without reading the reply
}

type child struct {
	Steps []step `json:"steps"`
}

type seqCase struct {
	Children []child `json:"children"`
}

type scripted struct {
	mu    sync.Mutex
	id    int
	calls []string
}

func (s *scripted) rec(c string) {
	s.mu.Lock()
	s.calls = append(s.calls, c)
	s.mu.Unlock()
}
func (s *scripted) ID() int            { return s.id }
func (s *scripted) ParentID() int      { return 0 }
func (s *scripted) ShutdownAdmin()     { s.rec("admin") }
func (s *scripted) DrainListeners()    { s.rec("drain") }
func (s *scripted) ShutdownLocalConf() { s.rec("localconf") }
func (s *scripted) Shutdown()          { s.rec("shutdown") }
func (s *scripted) snapshot() []string {
	s.mu.Lock()
	defer s.mu.Unlock()
	return append([]string{}, s.calls...)
}

var idCounter int64
var killMu sync.Mutex

// outq returns the number of bytes written to c that the peer has not consumed yet (SIOCOUTQ), -1 when it cannot tell.
func outq(c *net.UnixConn) int {
	rc, err := c.SyscallConn()
	if err != nil {
		return -1
	}
	v := int32(-1)
	var errno syscall.Errno
	if err := rc.Control(func(fd uintptr) {
		_, _, errno = syscall.Syscall(syscall.SYS_IOCTL, fd, 0x5411 /* SIOCOUTQ */, uintptr(unsafe.Pointer(&v)))
	}); err != nil || errno != 0 {
		atomic.AddInt64(&outqFailures, 1)
		return -1
	}
	return int(v)
}

var outqFailures int64

// waitConsumed waits until the peer has read everything written so far. Only a definite 0 counts: an ioctl that fails
// (interrupted under load) says nothing, and writing the next frame too early lets the peer read two frames as one.
func waitConsumed(c *net.UnixConn) bool {
	for i := 0; i < 5000; i++ {
		if outq(c) == 0 {
			return true
		}
		time.Sleep(time.Millisecond)
	}
	return false
}

func reqType(kind string, typ uint8) uint8 {
	switch kind {
	case "admin":
		return tAdminReq
	case "localconf":
		return tLocalReq
	case "drain":
		return tDrainReq
	case "terminate":
		return tTermReq
	}
	return typ
}

func checkSeq(c seqCase) (nt bool, v *verdict) {
	killMu.Lock()
	defer killMu.Unlock()
	inst := &scripted{id: os.Getpid()<<20 | int(atomic.AddInt64(&idCounter, 1)&0xfffff)}
	oldKill := hotrestart.VerifSetKill(func(pid int, sig syscall.Signal) error {
		inst.rec("terminate")
		return nil
	})
	defer hotrestart.VerifSetKill(oldKill)
	r, err := hotrestart.New(inst)
	if err != nil {
		return false, &verdict{"restarter-construct", err.Error()}
	}
	shutdownDone := make(chan struct{})
	defer func() {
		go func() { r.Shutdown(); close(shutdownDone) }()
		select {
		case <-shutdownDone:
		case <-time.After(10 * time.Second):
		}
	}()
	var want []string
	addr := &net.UnixAddr{Name: fmt.Sprintf("@sam_domain_socket_%d", inst.id), Net: "unix"}
	// The control socket is a stream: a frame written while the parent is still inside the read that took the previous one
	// can be appended to that read (the kernel keeps copying while data is queued), and the two frames are parsed as one.
	// "The previous frame left the send queue" (SIOCOUTQ == 0) does not exclude that, so every frame is written only after
	// the parent came back to its read call: the pause point before the read counts the parent's reads.
	var reads int64
	verifpoint.SetHandler(func(name string, arg interface{}) {
		if name == "hotrestart.child.before-read" {
			atomic.AddInt64(&reads, 1)
		}
	})
	defer verifpoint.SetHandler(nil)
	for ci, ch := range c.Children {
		base, sent := atomic.LoadInt64(&reads), int64(0)
		parentReady := func() bool {
			for i := 0; i < 10000; i++ {
				if atomic.LoadInt64(&reads) >= base+1+sent {
					return true
				}
				time.Sleep(500 * time.Microsecond)
			}
			return false
		}
		conn, err := net.DialUnix("unix", nil, addr)
		if err != nil {
			return nt, &verdict{"child-cannot-connect", fmt.Sprintf("child %d: %v", ci, err)}
		}
		for si, st := range ch.Steps {
			where := fmt.Sprintf("child %d step %d (%s)", ci, si, st.Kind)
			if !parentReady() {
				conn.Close()
				return nt, &verdict{"parent-stuck", fmt.Sprintf("%s: the parent did not come back to read the next frame within 5s\n%s", where, vh.Stacks())}
			}
			sent++
			var raw []byte
			if st.Kind == "malformed" {
				raw = st.Raw
				nt = true
			} else {
				typ := reqType(st.Kind, st.Type)
				raw = append([]byte{typ, byte(len(st.Payload) >> 8), byte(len(st.Payload))}, st.Payload...)
				if st.Kind == "unknown" {
					nt = true
				}
			}
			if _, err := conn.Write(raw); err != nil {
				conn.Close()
				return nt, &verdict{"child-write-failed", fmt.Sprintf("%s: %v", where, err)}
			}
			if st.Kind == "malformed" {
				if !waitConsumed(conn) {
					conn.Close()
					return nt, &verdict{"parent-stuck", fmt.Sprintf("%s: the parent did not consume the frame within 5s\n%s", where, vh.Stacks())}
				}
				continue
			}
			switch st.Kind {
			case "admin", "localconf", "drain", "terminate":
				want = append(want, st.Kind)
			}
			if st.NoRead {
				waitConsumed(conn)
				break
			}
			conn.SetReadDeadline(time.Now().Add(10 * time.Second))
			buf := make([]byte, 4096)
			n, err := conn.Read(buf)
			if err != nil {
				conn.Close()
				st := ""
				for _, g := range strings.Split(vh.Stacks(), "\n\n") {
					if strings.Contains(g, "hotrestart.") {
						st += g + "\n\n"
					}
				}
				return nt, &verdict{"no-reply", fmt.Sprintf("%s: no reply: %v (instance calls so far %v; outq now %d)\n%s", where, err, inst.snapshot(), outq(conn), st)}
			}
			wantReply := reqType(st.Kind, st.Type) + 1
			if st.Kind == "unknown" {
				wantReply = tUnknownReply
			}
			if n < 3 || buf[0] != wantReply {
				conn.Close()
				return nt, &verdict{"wrong-reply", fmt.Sprintf("%s: reply type %d (%d bytes), want type %d", where, buf[0], n, wantReply)}
			}
			if d := int(buf[1])<<8 | int(buf[2]); d != n-3 {
				conn.Close()
				return nt, &verdict{"reply-frame-malformed", fmt.Sprintf("%s: reply declares %d payload bytes, carries %d", where, d, n-3)}
			}
			if st.Kind == "terminate" {
				// the kill follows the reply
				ok := false
				for i := 0; i < 5000 && !ok; i++ {
					calls := inst.snapshot()
					ok = len(calls) > 0 && calls[len(calls)-1] == "terminate" && len(calls) == len(want)
					if !ok {
						time.Sleep(time.Millisecond)
					}
				}
			}
		}
		if len(ch.Steps) == 0 || ci < len(c.Children)-1 {
			nt = nt || ci < len(c.Children)-1
		}
		parentReady() // the count is stable before the next child samples it
		conn.Close()
	}
	// all requests whose reply was not awaited must still be performed: wait for the calls to settle
	var got []string
	for i := 0; i < 5000; i++ {
		got = inst.snapshot()
		if len(got) >= len(want) {
			break
		}
		time.Sleep(time.Millisecond)
	}
	time.Sleep(2 * time.Millisecond)
	got = inst.snapshot()
	if len(got) != len(want) {
		return nt, &verdict{"steps-count", fmt.Sprintf("requested steps %v, performed %v", want, got)}
	}
	for i := range want {
		if got[i] != want[i] {
			return nt, &verdict{"steps-order", fmt.Sprintf("requested steps %v, performed %v", want, got)}
		}
	}
	return nt, nil
}

func genSeq(t *rapid.T) seqCase {
	var c seqCase
	nc := rapid.IntRange(1, 3).Draw(t, "children")
	for i := 0; i < nc; i++ {
		var ch child
		ns := rapid.IntRange(0, 6).Draw(t, "steps")
		for j := 0; j < ns; j++ {
			var st step
			switch x := rapid.IntRange(0, 9).Draw(t, "kind"); {
			case x <= 5:
				st.Kind = rapid.SampledFrom([]string{"admin", "localconf", "drain", "terminate"}).Draw(t, "req")
				if rapid.Bool().Draw(t, "json") {
					st.Payload = []byte("{}")
				}
			case x <= 7:
				st.Kind = "unknown"
				st.Type = rapid.SampledFrom([]uint8{0, 2, 4, 6, 8, 9, 10, 11, 100, 255}).Draw(t, "utype")
			default:
				st.Kind = "malformed"
				switch rapid.IntRange(0, 2).Draw(t, "mcls") {
				case 0:
					st.Raw = rapid.SliceOfN(rapid.Byte(), 1, 2).Draw(t, "short")
				case 1:
					d := rapid.IntRange(3, 600).Draw(t, "decl")
					st.Raw = append([]byte{rapid.SampledFrom([]uint8{1, 3, 5, 7, 200}).Draw(t, "mt"), byte(d >> 8), byte(d)}, bytes.Repeat([]byte{7}, rapid.IntRange(0, d-2).Draw(t, "carry"))...)
				default:
					st.Raw = append([]byte{7, 0xff, 0xff}, bytes.Repeat([]byte{1}, rapid.IntRange(0, 50).Draw(t, "carry2"))...)
				}
			}
			if st.Kind != "malformed" && j == ns-1 && i < nc-1 && rapid.IntRange(0, 2).Draw(t, "noread") == 0 {
				st.NoRead = true
			}
			ch.Steps = append(ch.Steps, st)
		}
		c.Children = append(c.Children, ch)
	}
	return c
}

func TestSequences(t *testing.T) {
	rapid.Check(t, func(t *rapid.T) {
		c := genSeq(t)
		vh.CurrentCase(prop, "sequences", c)
		nt, v := checkSeq(c)
		vh.ClearCurrentCase()
		if v != nil {
			vh.Fail(t, vh.Failure{Property: prop, Part: "sequences", Signature: v.sig, Message: v.msg, Case: c})
		}
		vh.Rec().Case("sequences", nt, vh.JSON(c))
		if n := atomic.SwapInt64(&outqFailures, 0); n > 0 {
			vh.Rec().ClassN("sequences", "outq_ioctl_failed_polls", n)
		}
		vh.Rec().Sample("sequences", nt, func() interface{} { return c })
	})
}

func init() {
	vh.RegisterReplay("frames", func(t *testing.T, raw json.RawMessage) {
		var c frameCase
		if err := json.Unmarshal(raw, &c); err != nil {
			t.Fatal(err)
		}
		if _, v := checkFrame(c); v != nil {
			vh.Fail(t, vh.Failure{Property: prop, Part: "frames", Signature: v.sig, Message: v.msg, Case: c})
		}
	})
	vh.RegisterReplay("sequences", func(t *testing.T, raw json.RawMessage) {
		var c seqCase
		if err := json.Unmarshal(raw, &c); err != nil {
			t.Fatal(err)
		}
		if _, v := checkSeq(c); v != nil {
			vh.Fail(t, vh.Failure{Property: prop, Part: "sequences", Signature: v.sig, Message: v.msg, Case: c})
		}
	})
}

func TestReplay(t *testing.T) { vh.RunReplay(t) }
