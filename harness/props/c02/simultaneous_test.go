package c02

import (
	"encoding/json"
	"fmt"
	"strings"
	"sync"
	"sync/atomic"
	"testing"
	"time"

	"github.com/samaritan-proxy/samaritan/utils/verifpoint"
	"pgregory.net/rapid"

	"verif/harness/ref"
	"verif/harness/sim"
	"verif/harness/vh"
)

// part simultaneous: the children of ONE split request (MSET / MGET / DEL / EXISTS over 2..4 nodes) are completed by
// different backend goroutines at the same instant. Every involved backend connection is lost while the request is in
// flight; the clients are held at the pause point before their final drain until all of them are there and are then released
// together by a spinning barrier ("fail+fail"). In the "fail+ok" mode one node answers its children instead, and its reader is
// held before it takes the request from the sent queue and released together with the others. A request completed twice
// crashes the process (close of closed channel), a request completed by nobody never gets its reply.

type simCase struct {
	Masters int    `json:"masters"`
	Cmd     string `json:"cmd"` // MSET, MGET, DEL, EXISTS
	PerNode int    `json:"keys_per_node"`
	Rounds  int    `json:"rounds"`
	OKNode  bool   `json:"one_node_answers"` // fail+ok instead of fail+fail
	RST     bool   `json:"rst"`
}

func checkSimultaneous(c simCase) (released int, v *verdict) {
	w, err := sim.NewWorld(c.Masters, 0)
	if err != nil {
		return 0, nil
	}
	defer w.Close()
	defer sim.ProductionRefreshRate()() // only client traffic passes the pause points
	ms := w.Masters()
	w.AssignEven(ms)
	px, err := sim.StartProxy(sim.ProxyOpts{Seeds: w.Addrs(ms), ConnectTimeout: 2 * time.Second})
	if err != nil {
		return 0, &verdict{"proxy-start", err.Error()}
	}
	defer px.Stop(20 * time.Second)
	px.WaitTableLoaded(1, 10*time.Second)
	time.Sleep(5 * time.Millisecond)
	cl, err := sim.Dial(px.Addr)
	if err != nil {
		return 0, &verdict{"client-dial", err.Error()}
	}
	defer cl.Close()

	var (
		armedDrain, armedRead int32 // how many more hits of each point are to be held
		waiting               int32
		release               int32
		mu                    sync.Mutex
	)
	hold := func() {
		atomic.AddInt32(&waiting, 1)
		dl := time.Now().Add(2 * time.Second)
		for atomic.LoadInt32(&release) == 0 {
			if time.Now().After(dl) {
				return
			}
		}
	}
	take := func(ctr *int32) bool {
		mu.Lock()
		defer mu.Unlock()
		if *ctr > 0 {
			*ctr--
			return true
		}
		return false
	}
	verifpoint.SetHandler(func(name string, arg interface{}) {
		switch name {
		case "redis.client.start.before-drain":
			if take(&armedDrain) {
				hold()
			}
		case "redis.client.read.before-dequeue":
			if take(&armedRead) {
				hold()
			}
		}
	})
	defer verifpoint.SetHandler(nil)

	for round := 0; round < c.Rounds; round++ {
		where := fmt.Sprintf("round %d", round)
		// warm every backend connection (a lost one is re-created by this request)
		for _, m := range ms {
			k := w.KeyFor(m, "warm:")
			ok := false
			for try := 0; try < 50 && !ok; try++ {
				r, err := cl.Do(hangDeadline, "SET", k, "w")
				if err != nil {
					return released, &verdict{"request-never-answered", fmt.Sprintf("%s: SET %s while re-establishing the backend connections: %v", where, k, err)}
				}
				ok = !r.IsErr()
				if !ok {
					time.Sleep(2 * time.Millisecond)
				}
			}
			if !ok {
				return released, nil // a node did not come back: not this part's subject
			}
		}
		// keys of the split request
		args := []string{c.Cmd}
		for _, m := range ms {
			for i := 0; i < c.PerNode; i++ {
				k := w.KeyFor(m, fmt.Sprintf("s%d:", i))
				args = append(args, k)
				if c.Cmd == "MSET" {
					args = append(args, "v")
				}
			}
		}
		okNode := -1
		if c.OKNode {
			okNode = ms[round%len(ms)]
		}
		w.Lock()
		for _, m := range ms {
			w.Nodes[m].Silent = m != okNode
		}
		w.Unlock()
		atomic.StoreInt32(&release, 0)
		atomic.StoreInt32(&waiting, 0)
		mu.Lock()
		armedDrain = int32(len(ms))
		if c.OKNode {
			armedDrain, armedRead = int32(len(ms)-1), 1
		}
		mu.Unlock()
		expect := int32(len(ms))
		w.ResetLog()
		cl.Send(ref.Enc(ref.Cmd(args...)), nil)
		// all children have arrived at their nodes
		nChildren := len(ms) * c.PerNode
		dl := time.Now().Add(5 * time.Second)
		for {
			n := 0
			for _, e := range w.Snapshot() {
				if !sim.IsBackground(e) {
					n++
				}
			}
			if n >= nChildren || time.Now().After(dl) {
				break
			}
			time.Sleep(50 * time.Microsecond)
		}
		for _, m := range ms {
			if m != okNode {
				w.Nodes[m].DropConns(c.RST)
			}
		}
		// every involved backend goroutine is at its pause point (or 300 ms have passed): release them together
		dl = time.Now().Add(300 * time.Millisecond)
		for atomic.LoadInt32(&waiting) < expect && time.Now().Before(dl) {
			time.Sleep(20 * time.Microsecond)
		}
		if atomic.LoadInt32(&waiting) >= 2 {
			released++
		}
		atomic.StoreInt32(&release, 1)
		mu.Lock()
		armedDrain, armedRead = 0, 0
		mu.Unlock()
		w.Lock()
		for _, m := range ms {
			w.Nodes[m].Silent = false
		}
		w.Unlock()
		got, err := cl.Recv(hangDeadline)
		if err != nil {
			d1 := vh.Stacks()
			time.Sleep(time.Second)
			return released, &verdict{"request-never-answered", fmt.Sprintf("%s: %s over %d nodes whose backend connections were all lost at the same instant (one node answering: %v): no reply within %v: %v; parked: %s",
				where, c.Cmd, len(ms), c.OKNode, hangDeadline, err, parked(d1, vh.Stacks()))}
		}
		_ = got
		if extra := cl.Quiet(2 * time.Millisecond); len(extra) > 0 {
			return released, &verdict{"surplus-reply", fmt.Sprintf("%s: more than one reply for one %s: %q", where, c.Cmd, extra)}
		}
	}
	return released, nil
}

func TestSimultaneous(t *testing.T) {
	rapid.Check(t, func(t *rapid.T) {
		c := simCase{Masters: rapid.IntRange(2, 4).Draw(t, "masters"), Cmd: rapid.SampledFrom([]string{"MSET", "MSET", "MGET", "DEL", "EXISTS"}).Draw(t, "cmd"),
			PerNode: rapid.SampledFrom([]int{1, 1, 2, 5}).Draw(t, "pernode"), Rounds: rapid.IntRange(5, 60).Draw(t, "rounds"),
			OKNode: rapid.IntRange(0, 2).Draw(t, "oknode") == 0, RST: rapid.Bool().Draw(t, "rst")}
		vh.CurrentCase(prop, "simultaneous", c)
		released, v := checkSimultaneous(c)
		vh.ClearCurrentCase()
		if v != nil {
			vh.Fail(t, vh.Failure{Property: prop, Part: "simultaneous", Signature: v.sig, Message: v.msg, Case: c})
		}
		vh.Rec().Case("simultaneous", released > 0, vh.JSON(c))
		vh.Rec().ClassN("simultaneous", "rounds_with>=2_backend_goroutines_released_together", int64(released))
		vh.Rec().Class("simultaneous", "cmd_"+strings.ToLower(c.Cmd))
		vh.Rec().Sample("simultaneous", released > 0, func() interface{} { return c })
	})
}

func init() {
	vh.RegisterReplay("simultaneous", func(t *testing.T, raw json.RawMessage) {
		var c simCase
		if err := json.Unmarshal(raw, &c); err != nil {
			t.Fatal(err)
		}
		for i := 0; i < 5; i++ {
			if _, v := checkSimultaneous(c); v != nil {
				vh.Fail(t, vh.Failure{Property: prop, Part: "simultaneous", Signature: v.sig, Message: v.msg, Case: c})
			}
		}
	})
}
