package c02

import (
	"encoding/json"
	"fmt"
	"sync"
	"sync/atomic"
	"testing"
	"time"

	"github.com/samaritan-proxy/samaritan/host"
	redispb "github.com/samaritan-proxy/samaritan/pb/config/protocol/redis"
	"pgregory.net/rapid"

	"verif/harness/ref"
	"verif/harness/sim"
	"verif/harness/vh"
)

// part chaos: everything that can happen to a backend connection happens at once and again and again - connections killed
// after k commands, dropped, nodes restarted, the endpoint set replaced or a member removed and re-added, slots migrated
// (MOVED / ASK redirections) - while windowed pipelining clients send single- and multi-key commands (with compression
// enabled also commands that the backend-side filter stops). No hooks: the interleavings are natural.

type chaosCase struct {
	Masters     int      `json:"masters"`
	Conns       int      `json:"conns"`
	Requests    int      `json:"requests"` // per connection
	Window      int      `json:"window"`   // requests in flight per connection
	Compression bool     `json:"compression,omitempty"`
	PauseUs     int      `json:"pause_us"` // mean pause between two fault events
	Seed        uint64   `json:"seed"`
	Kinds       []string `json:"kinds"` // fault kinds drawn from: kill, drop, restart, replace, readd, migrate
}

func checkChaos(c chaosCase) (events int, v *verdict) {
	w, err := sim.NewWorld(c.Masters, 0)
	if err != nil {
		return 0, nil
	}
	defer w.Close()
	ms := w.Masters()
	w.AssignEven(ms)
	opts := sim.ProxyOpts{Seeds: w.Addrs(ms), ConnectTimeout: 100 * time.Millisecond}
	if c.Compression {
		opts.Compression = &redispb.Compression{Enable: true, Algorithm: redispb.Compression_SNAPPY, Threshold: 1 << 20}
	}
	px, err := sim.StartProxy(opts)
	if err != nil {
		return 0, &verdict{"proxy-start", err.Error()}
	}
	defer px.Stop(20 * time.Second)
	px.WaitTableLoaded(1, 10*time.Second)
	tags := []string{"{a}", "{b}", "{c}", "{d}", "{e}", "{f}"}
	stop := make(chan struct{})
	var evCount, apiHung int32
	// a host update that never returns must not hang the harness: the clients' verdicts (or this flag) report it
	within := func(f func()) bool {
		done := make(chan struct{})
		go func() { f(); close(done) }()
		select {
		case <-done:
			return true
		case <-time.After(2 * hangDeadline):
			return false
		}
	}
	var kwg sync.WaitGroup
	kwg.Add(1)
	go func() {
		defer kwg.Done()
		x := c.Seed | 1
		next := func() uint64 {
			x ^= x << 13
			x ^= x >> 7
			x ^= x << 17
			return x
		}
		for {
			select {
			case <-stop:
				return
			default:
			}
			r := next()
			n := w.Nodes[ms[int(r>>8)%len(ms)]]
			switch c.Kinds[int(r>>16)%len(c.Kinds)] {
			case "kill":
				n.KillAfter(1+int(r>>20)%200, int(r>>40)%5-1, r&1 == 0)
			case "drop":
				n.DropConns(r&1 == 0)
			case "restart":
				n.Stop()
				time.Sleep(time.Duration(int(r>>24)%8) * time.Millisecond)
				n.Start()
			case "replace":
				var hs []*host.Host
				for _, a := range w.Addrs(ms) {
					hs = append(hs, host.New(a))
				}
				if !within(func() { px.P.OnSvcAllHostReplace(hs) }) {
					atomic.StoreInt32(&apiHung, 1)
					return
				}
			case "readd":
				if !within(func() {
					px.P.OnSvcHostRemove([]*host.Host{host.New(n.Addr)})
					time.Sleep(time.Duration(int(r>>24)%4) * time.Millisecond)
					px.P.OnSvcHostAdd([]*host.Host{host.New(n.Addr)})
				}) {
					atomic.StoreInt32(&apiHung, 1)
					return
				}
			case "migrate":
				if len(ms) >= 2 {
					slot := ref.Slot([]byte(tags[int(r>>28)%len(tags)]))
					from := w.Owner(slot)
					to := ms[int(r>>36)%len(ms)]
					if to != from && w.BeginMigration(slot, to) {
						if r&2 == 0 {
							w.MoveKeys(slot, 1+int(r>>44)%3)
						}
						time.Sleep(time.Duration(int(r>>24)%3) * time.Millisecond)
						w.Finalise(slot)
					}
				}
			}
			atomic.AddInt32(&evCount, 1)
			p := c.PauseUs/2 + int(next()>>30)%(c.PauseUs+1)
			time.Sleep(time.Duration(p) * time.Microsecond)
		}
	}()
	var wg sync.WaitGroup
	res := make([]*verdict, c.Conns)
	for ci := 0; ci < c.Conns; ci++ {
		wg.Add(1)
		go func(ci int) {
			defer wg.Done()
			cl, err := sim.Dial(px.Addr)
			if err != nil {
				return
			}
			defer cl.Close()
			sent, recvd := 0, 0
			key := func(i int) string { return fmt.Sprintf("%sc%d:%d", tags[(i+ci)%len(tags)], ci, i%7) }
			for recvd < c.Requests {
				var batch []byte
				for sent < c.Requests && sent-recvd < c.Window {
					switch {
					case sent%11 == 10:
						batch = ref.Encode(batch, ref.Cmd("MGET", key(sent), key(sent+1), key(sent+2)))
					case sent%13 == 12:
						batch = ref.Encode(batch, ref.Cmd("MSET", key(sent), "a", key(sent+3), "b"))
					case c.Compression && sent%5 == 4:
						batch = ref.Encode(batch, ref.Cmd("APPEND", key(sent), "x"))
					case sent%2 == 0:
						batch = ref.Encode(batch, ref.Cmd("SET", key(sent), "v"))
					default:
						batch = ref.Encode(batch, ref.Cmd("GET", key(sent)))
					}
					sent++
				}
				if len(batch) > 0 {
					if err := cl.Send(batch, nil); err != nil {
						return
					}
				}
				if _, err := cl.Recv(hangDeadline); err != nil {
					if err == sim.ErrTimeout {
						d1 := vh.Stacks()
						time.Sleep(time.Second)
						res[ci] = &verdict{"request-never-answered", fmt.Sprintf("chaos conn %d: reply %d of %d (sent %d) did not arrive within %v; parked: %s", ci, recvd, c.Requests, sent, hangDeadline, parked(d1, vh.Stacks()))}
					} else if len(err.Error()) > 9 && err.Error()[:9] == "malformed" {
						res[ci] = &verdict{"reply-stream-broken", fmt.Sprintf("chaos conn %d reply %d: %v", ci, recvd, err)}
					}
					return
				}
				recvd++
			}
			if extra := cl.Quiet(10 * time.Millisecond); extra != nil {
				res[ci] = &verdict{"surplus-reply", fmt.Sprintf("chaos conn %d: surplus bytes %q", ci, extra)}
			}
		}(ci)
	}
	wg.Wait()
	close(stop)
	kwg.Wait()
	for _, r := range res {
		if r != nil {
			return int(evCount), r
		}
	}
	if atomic.LoadInt32(&apiHung) != 0 {
		return int(evCount), &verdict{"host-update-never-returns", fmt.Sprintf("OnSvcAllHostReplace / OnSvcHostRemove+Add did not return within %v while requests were in flight\n%s", 2*hangDeadline, vh.Stacks())}
	}
	return int(evCount), nil
}

func TestChaos(t *testing.T) {
	all := []string{"kill", "drop", "restart", "replace", "readd", "migrate"}
	rapid.Check(t, func(t *rapid.T) {
		c := chaosCase{Masters: rapid.IntRange(1, 3).Draw(t, "masters"), Conns: rapid.IntRange(2, 10).Draw(t, "conns"),
			Requests: rapid.IntRange(1000, 8000).Draw(t, "requests"), Window: rapid.SampledFrom([]int{1, 8, 33, 64}).Draw(t, "window"),
			Compression: rapid.Bool().Draw(t, "compression"), PauseUs: rapid.SampledFrom([]int{100, 500, 3000}).Draw(t, "pause"), Seed: rapid.Uint64().Draw(t, "seed")}
		for _, k := range all {
			if rapid.IntRange(0, 2).Draw(t, "use_"+k) != 0 {
				c.Kinds = append(c.Kinds, k)
			}
		}
		if len(c.Kinds) == 0 {
			c.Kinds = all
		}
		vh.CurrentCase(prop, "chaos", c)
		events, v := checkChaos(c)
		vh.ClearCurrentCase()
		if v != nil {
			vh.Fail(t, vh.Failure{Property: prop, Part: "chaos", Signature: v.sig, Message: v.msg, Case: c})
		}
		vh.Rec().Case("chaos", events > 0, vh.JSON(c))
		vh.Rec().ClassN("chaos", "requests", int64(c.Conns*c.Requests))
		vh.Rec().ClassN("chaos", "fault_events", int64(events))
		vh.Rec().Sample("chaos", true, func() interface{} { return c })
	})
}

func init() {
	vh.RegisterReplay("chaos", func(t *testing.T, raw json.RawMessage) {
		var c chaosCase
		if err := json.Unmarshal(raw, &c); err != nil {
			t.Fatal(err)
		}
		for i := 0; i < 3; i++ {
			if _, v := checkChaos(c); v != nil {
				vh.Fail(t, vh.Failure{Property: prop, Part: "chaos", Signature: v.sig, Message: v.msg, Case: c})
			}
		}
	})
}
