// Package c02 decides property C02: every request is answered exactly once, even
// when backends fail.
package c02

import (
	"encoding/json"
	"fmt"
	"strconv"
	"strings"
	"sync"
	"sync/atomic"
	"testing"
	"time"

	"github.com/samaritan-proxy/samaritan/host"
	redispb "github.com/samaritan-proxy/samaritan/pb/config/protocol/redis"
	sutredis "github.com/samaritan-proxy/samaritan/proc/redis"
	"github.com/samaritan-proxy/samaritan/utils/verifpoint"
	"pgregory.net/rapid"

	"verif/harness/ref"
	"verif/harness/sim"
	"verif/harness/vh"
)

const prop = "C02"

func TestMain(m *testing.M) { vh.Main(m) }

type verdict struct{ sig, msg string }

// directive: at the Nth hit of Point on the backend connection to node Node, inject Fault and hold the goroutine for HoldMs.
type directive struct {
	Point  string `json:"point"`
	Nth    int    `json:"nth"`
	Node   int    `json:"node"`
	Fault  string `json:"fault"` // drop, rst, restart, remove, replace, stop, none
	HoldMs int    `json:"hold_ms"`
}

type dirCase struct {
	Masters   int  `json:"masters"`
	Conns     int  `json:"conns"`
	Requests  int  `json:"requests"` // per connection, pipelined
	MultiKey  bool `json:"multi_key"`
	Migrating bool `json:"migrating"` // the keys' slots are half-migrated: requests are redirected by ASK (ASKING+command pairs)
	// Compression: enabled with a threshold no value reaches; every third request is an APPEND, which the backend-side filter
	// stops (answers with an error, writes nothing): the writer's "request answered by a filter" path runs under the faults too
	Compression bool        `json:"compression,omitempty"`
	Directives  []directive `json:"directives"`
}

var points = []string{
	"redis.client.send.enter",
	"redis.client.send.before-enqueue",
	"redis.client.write.got-req",
	"redis.client.write.before-processing-enqueue",
	"redis.client.read.before-dequeue",
	"redis.client.start.before-drain",
	"redis.client.start.after-drain",
	"redis.session.write.before-wait",
}

const hangDeadline = 10 * time.Second

type dirInfo struct {
	fired    int
	inFlight bool
}

func checkDirected(c dirCase) (inf dirInfo, v *verdict) {
	w, err := sim.NewWorld(c.Masters, 0)
	if err != nil {
		return inf, nil
	}
	defer w.Close()
	ms := w.Masters()
	w.AssignEven(ms)
	popts := sim.ProxyOpts{Seeds: w.Addrs(ms), ConnectTimeout: 100 * time.Millisecond}
	if c.Compression {
		popts.Compression = &redispb.Compression{Enable: true, Algorithm: redispb.Compression_SNAPPY, Threshold: 1 << 20}
	}
	px, err := sim.StartProxy(popts)
	if err != nil {
		return inf, &verdict{"proxy-start", err.Error()}
	}
	stopped := int32(0)
	defer func() {
		verifpoint.SetHandler(nil)
		if atomic.LoadInt32(&stopped) == 0 {
			px.Stop(20 * time.Second)
		}
	}()
	if !px.WaitTableLoaded(1, 10*time.Second) {
		return inf, &verdict{"table-not-loaded", "routing table not loaded within 10s"}
	}
	tagKeys := []string{"{a}", "{b}", "{c}", "{d}", "{e}"}
	if c.Migrating && len(ms) >= 2 {
		for _, tg := range tagKeys {
			slot := ref.Slot([]byte(tg))
			from := w.Owner(slot)
			to := ms[0]
			if to == from {
				to = ms[1]
			}
			w.BeginMigration(slot, to)
		}
	}
	// install the schedule
	var mu sync.Mutex
	hits := map[string]int{}
	fired := make([]bool, len(c.Directives))
	var firedCount int32
	stopCh := make(chan struct{})
	verifpoint.SetHandler(func(name string, arg interface{}) {
		addr := sutredis.VerifClientAddr(arg)
		node := -1
		if addr != "" {
			if n := w.NodeByAddr(addr); n != nil {
				node = n.Idx
			}
		}
		mu.Lock()
		key := name + "#" + strconv.Itoa(node)
		if node < 0 {
			key = name + "#any"
		}
		hits[key]++
		n := hits[key]
		var d *directive
		for i := range c.Directives {
			di := &c.Directives[i]
			if fired[i] || di.Point != name || di.Nth != n {
				continue
			}
			if node >= 0 && di.Node%c.Masters != node {
				continue
			}
			fired[i] = true
			d = di
			break
		}
		mu.Unlock()
		if d == nil {
			return
		}
		atomic.AddInt32(&firedCount, 1)
		target := w.Nodes[d.Node%c.Masters]
		switch d.Fault {
		case "drop":
			target.DropConns(false)
		case "rst":
			target.DropConns(true)
		case "restart":
			target.Stop()
			go func() { time.Sleep(2 * time.Millisecond); target.Start() }()
		case "remove":
			go px.P.OnSvcHostRemove([]*host.Host{host.New(target.Addr)})
		case "replace":
			var hs []*host.Host
			for _, a := range w.Addrs(w.Masters()) {
				hs = append(hs, host.New(a))
			}
			go px.P.OnSvcAllHostReplace(hs)
		case "stop":
			if atomic.CompareAndSwapInt32(&stopped, 0, 1) {
				go func() { px.P.Stop(); close(stopCh) }()
			}
		}
		if d.HoldMs > 0 {
			time.Sleep(time.Duration(d.HoldMs) * time.Millisecond)
		}
	})

	// traffic
	var wg sync.WaitGroup
	res := make([]*verdict, c.Conns)
	for ci := 0; ci < c.Conns; ci++ {
		wg.Add(1)
		go func(ci int) {
			defer wg.Done()
			cl, err := sim.Dial(px.Addr)
			if err != nil {
				return
			}
			defer cl.Close()
			var all []byte
			for i := 0; i < c.Requests; i++ {
				m := ms[(i+ci)%len(ms)]
				k := w.KeyFor(m, fmt.Sprintf("c%d:%d:", ci, i%5))
				if c.Migrating {
					// keys of the half-migrated slots: absent at the source, so every command is redirected by ASK
					k = fmt.Sprintf("%sc%d:%d", tagKeys[(i+ci)%len(tagKeys)], ci, i)
				}
				if c.MultiKey && i%4 == 3 {
					k2 := w.KeyFor(ms[(i+ci+1)%len(ms)], fmt.Sprintf("c%d:m%d:", ci, i%5))
					if i%8 == 3 {
						all = ref.Encode(all, ref.Cmd("MGET", k, k2, k))
					} else {
						all = ref.Encode(all, ref.Cmd("MSET", k, "a", k2, "b"))
					}
					continue
				}
				if c.Compression && i%3 == 2 {
					all = ref.Encode(all, ref.Cmd("APPEND", k, "x"))
					continue
				}
				if i%2 == 0 {
					all = ref.Encode(all, ref.Cmd("SET", k, "v"+strconv.Itoa(i)))
				} else {
					all = ref.Encode(all, ref.Cmd("GET", k))
				}
			}
			go cl.Send(all, nil)
			for i := 0; i < c.Requests; i++ {
				_, err := cl.Recv(hangDeadline)
				if err == nil {
					continue
				}
				if err != sim.ErrTimeout {
					// the proxy closed the connection (e.g. it is being stopped): nothing more is owed
					if strings.Contains(err.Error(), "malformed reply") {
						res[ci] = &verdict{"reply-stream-broken", fmt.Sprintf("conn %d reply %d: %v", ci, i, err)}
					}
					return
				}
				// hang: confirm with two goroutine dumps that a proxy goroutine is parked waiting for this request
				d1 := vh.Stacks()
				time.Sleep(time.Second)
				d2 := vh.Stacks()
				where := parked(d1, d2)
				res[ci] = &verdict{"request-never-answered", fmt.Sprintf("conn %d: reply %d of %d did not arrive within %v while the connection stayed open; parked: %s; directives fired: %v",
					ci, i, c.Requests, hangDeadline, where, fired)}
				return
			}
			// surplus replies?
			if extra := cl.Quiet(10 * time.Millisecond); extra != nil {
				res[ci] = &verdict{"surplus-reply", fmt.Sprintf("conn %d: surplus bytes %q", ci, extra)}
			}
		}(ci)
	}
	wg.Wait()
	inf.fired = int(atomic.LoadInt32(&firedCount))
	for _, r := range res {
		if r != nil {
			return inf, r
		}
	}
	if atomic.LoadInt32(&stopped) == 1 {
		select {
		case <-stopCh:
		case <-time.After(20 * time.Second):
			// Stop not returning is C09's subject; not judged here
		}
	}
	return inf, nil
}

// parked reports samaritan frames at which a goroutine is blocked in both dumps.
func parked(d1, d2 string) string {
	find := func(d string) map[string]bool {
		r := map[string]bool{}
		for _, g := range strings.Split(d, "\n\n") {
			if !strings.Contains(g, "samaritan/proc/redis") {
				continue
			}
			lines := strings.Split(g, "\n")
			for i, l := range lines {
				if strings.Contains(l, "samaritan/proc/redis.") && i+1 < len(lines) {
					loc := strings.TrimSpace(lines[i+1])
					if j := strings.Index(loc, " +0x"); j > 0 {
						loc = loc[:j]
					}
					if j := strings.LastIndex(loc, "/"); j >= 0 {
						loc = loc[j+1:]
					}
					fn := l
					if j := strings.Index(fn, "("); j > 0 {
						fn = fn[:j]
					}
					if j := strings.LastIndex(fn, "/"); j >= 0 {
						fn = fn[j+1:]
					}
					r[fn+"@"+loc] = true
					break
				}
			}
		}
		return r
	}
	a, b := find(d1), find(d2)
	var out []string
	for k := range a {
		if b[k] && (strings.Contains(k, "session") || strings.Contains(k, "Wait") || strings.Contains(k, "Send")) {
			out = append(out, k)
		}
	}
	if len(out) > 6 {
		out = out[:6]
	}
	return strings.Join(out, ", ")
}

func genDirected(t *rapid.T) dirCase {
	c := dirCase{Masters: rapid.IntRange(1, 3).Draw(t, "masters"), Conns: rapid.IntRange(1, 3).Draw(t, "conns"),
		Requests: rapid.IntRange(1, 30).Draw(t, "requests"), MultiKey: rapid.Bool().Draw(t, "multikey"), Migrating: rapid.IntRange(0, 3).Draw(t, "migrating") == 0,
		Compression: rapid.IntRange(0, 2).Draw(t, "compression") == 0}
	nd := rapid.SampledFrom([]int{1, 1, 1, 2}).Draw(t, "ndir")
	for i := 0; i < nd; i++ {
		c.Directives = append(c.Directives, directive{
			Point:  rapid.SampledFrom(points).Draw(t, "point"),
			Nth:    rapid.IntRange(1, 12).Draw(t, "nth"),
			Node:   rapid.IntRange(0, 2).Draw(t, "node"),
			Fault:  rapid.SampledFrom([]string{"drop", "drop", "rst", "restart", "remove", "replace", "stop", "none"}).Draw(t, "fault"),
			HoldMs: rapid.SampledFrom([]int{0, 1, 3, 10, 30}).Draw(t, "hold"),
		})
	}
	return c
}

// genDirectedAsk biases towards the window in which a backend client is shutting down (quit closed, final drain not
// done yet) while ASK redirections keep sending ASKING+command pairs to it.
func genDirectedAsk(t *rapid.T) dirCase {
	c := dirCase{Masters: rapid.IntRange(2, 3).Draw(t, "masters"), Conns: rapid.IntRange(2, 4).Draw(t, "conns"),
		Requests: rapid.IntRange(10, 60).Draw(t, "requests"), Migrating: true}
	node := rapid.IntRange(0, 2).Draw(t, "node")
	c.Directives = append(c.Directives, directive{
		Point:  rapid.SampledFrom([]string{"redis.client.send.enter", "redis.client.read.before-dequeue", "redis.client.write.got-req", "redis.client.write.before-processing-enqueue"}).Draw(t, "p1"),
		Nth:    rapid.IntRange(1, 10).Draw(t, "nth"),
		Node:   node,
		Fault:  rapid.SampledFrom([]string{"drop", "rst", "remove", "replace", "restart"}).Draw(t, "fault"),
		HoldMs: rapid.SampledFrom([]int{0, 1, 5}).Draw(t, "hold1"),
	})
	c.Directives = append(c.Directives, directive{
		Point:  rapid.SampledFrom([]string{"redis.client.start.before-drain", "redis.client.start.after-drain", "redis.client.start.before-drain"}).Draw(t, "p2"),
		Nth:    1,
		Node:   node,
		Fault:  "none",
		HoldMs: rapid.SampledFrom([]int{5, 20, 50}).Draw(t, "hold2"),
	})
	return c
}

func TestDirectedAsk(t *testing.T) {
	rapid.Check(t, func(t *rapid.T) {
		c := genDirectedAsk(t)
		vh.CurrentCase(prop, "directed", c)
		inf, v := checkDirected(c)
		vh.ClearCurrentCase()
		if v != nil {
			vh.Fail(t, vh.Failure{Property: prop, Part: "directed", Signature: v.sig, Message: v.msg, Case: c})
		}
		vh.Rec().Case("directed-ask", inf.fired >= 2, vh.JSON(c))
		if inf.fired >= 2 {
			vh.Rec().Class("directed-ask", "client_shutdown_window_held_during_ASK_traffic")
		}
		vh.Rec().Sample("directed-ask", inf.fired >= 2, func() interface{} { return c })
	})
}

func TestDirected(t *testing.T) {
	rapid.Check(t, func(t *rapid.T) {
		c := genDirected(t)
		vh.CurrentCase(prop, "directed", c)
		inf, v := checkDirected(c)
		vh.ClearCurrentCase()
		if v != nil {
			vh.Fail(t, vh.Failure{Property: prop, Part: "directed", Signature: v.sig, Message: v.msg, Case: c})
		}
		nt := inf.fired > 0
		vh.Rec().Case("directed", nt, vh.JSON(c))
		for _, d := range c.Directives {
			if nt {
				vh.Rec().Class("directed", "fault_"+d.Fault+"_at_"+strings.TrimPrefix(d.Point, "redis."))
			}
		}
		vh.Rec().Sample("directed", nt, func() interface{} { return c })
	})
}

// TestDirectedGrid enumerates point x hit index x fault systematically (sharded).
func TestDirectedGrid(t *testing.T) {
	sh, n := vh.Shard()
	idx := 0
	var total, nt int64
	for _, p := range points {
		for _, f := range []string{"drop", "rst", "restart", "remove", "replace", "stop"} {
			for _, nth := range []int{1, 2, 3, 5, 8} {
				for _, hold := range []int{2, 20} {
					idx++
					if idx%n != sh {
						continue
					}
					c := dirCase{Masters: 2, Conns: 2, Requests: 16, MultiKey: true, Compression: (idx/2)%2 == 0,
						Directives: []directive{{Point: p, Nth: nth, Node: nth % 2, Fault: f, HoldMs: hold}}}
					vh.CurrentCase(prop, "directed", c)
					inf, v := checkDirected(c)
					vh.ClearCurrentCase()
					if v != nil {
						vh.Fail(t, vh.Failure{Property: prop, Part: "directed", Signature: v.sig, Message: v.msg, Case: c})
					}
					total++
					if inf.fired > 0 {
						nt++
					}
				}
			}
		}
	}
	vh.Rec().CaseN("directed-grid", total, nt)
	vh.Rec().Sample("directed-grid", true, func() interface{} {
		return map[string]interface{}{"points": points, "faults": "drop,rst,restart,remove,replace,stop", "nth": "1,2,3,5,8", "hold_ms": "2,20"}
	})
}

// ---- stress without hooks

type stressCase struct {
	Masters  int    `json:"masters"`
	Conns    int    `json:"conns"`
	Requests int    `json:"requests"` // per connection
	KillMin  int    `json:"kill_min"` // a node connection dies after kill_min..kill_max commands, again and again
	KillMax  int    `json:"kill_max"`
	Seed     uint64 `json:"seed"`
}

func checkStress(c stressCase) (kills int, v *verdict) {
	w, err := sim.NewWorld(c.Masters, 0)
	if err != nil {
		return 0, nil
	}
	defer w.Close()
	ms := w.Masters()
	w.AssignEven(ms)
	px, err := sim.StartProxy(sim.ProxyOpts{Seeds: w.Addrs(ms), ConnectTimeout: 100 * time.Millisecond})
	if err != nil {
		return 0, &verdict{"proxy-start", err.Error()}
	}
	defer px.Stop(20 * time.Second)
	px.WaitTableLoaded(1, 10*time.Second)
	stop := make(chan struct{})
	var killCount int32
	var kwg sync.WaitGroup
	kwg.Add(1)
	go func() {
		defer kwg.Done()
		x := c.Seed | 1
		for {
			select {
			case <-stop:
				return
			default:
			}
			x ^= x << 13
			x ^= x >> 7
			x ^= x << 17
			n := w.Nodes[ms[int(x>>8)%len(ms)]]
			k := c.KillMin + int(x>>20)%(c.KillMax-c.KillMin+1)
			n.KillAfter(k, int(x>>40)%5-1, x&1 == 0)
			atomic.AddInt32(&killCount, 1)
			time.Sleep(time.Duration(200+int(x>>30)%2000) * time.Microsecond)
		}
	}()
	var wg sync.WaitGroup
	res := make([]*verdict, c.Conns)
	keys := make([]string, len(ms))
	for i, m := range ms {
		keys[i] = w.KeyFor(m, "s:")
	}
	for ci := 0; ci < c.Conns; ci++ {
		wg.Add(1)
		go func(ci int) {
			defer wg.Done()
			cl, err := sim.Dial(px.Addr)
			if err != nil {
				return
			}
			defer cl.Close()
			const window = 64
			sent, recvd := 0, 0
			for recvd < c.Requests {
				var batch []byte
				for sent < c.Requests && sent-recvd < window {
					batch = ref.Encode(batch, ref.Cmd("GET", keys[(sent+ci)%len(keys)]))
					sent++
				}
				if len(batch) > 0 {
					if err := cl.Send(batch, nil); err != nil {
						return
					}
				}
				if _, err := cl.Recv(hangDeadline); err != nil {
					if err == sim.ErrTimeout {
						d1 := vh.Stacks()
						time.Sleep(time.Second)
						res[ci] = &verdict{"request-never-answered", fmt.Sprintf("stress conn %d: reply %d of %d (sent %d) did not arrive within %v; parked: %s", ci, recvd, c.Requests, sent, hangDeadline, parked(d1, vh.Stacks()))}
					}
					return
				}
				recvd++
			}
		}(ci)
	}
	wg.Wait()
	close(stop)
	kwg.Wait()
	for _, r := range res {
		if r != nil {
			return int(killCount), r
		}
	}
	return int(killCount), nil
}

func TestStress(t *testing.T) {
	rapid.Check(t, func(t *rapid.T) {
		c := stressCase{Masters: rapid.IntRange(1, 3).Draw(t, "masters"), Conns: rapid.IntRange(2, 12).Draw(t, "conns"),
			Requests: rapid.IntRange(2000, 20000).Draw(t, "requests"), KillMin: rapid.IntRange(1, 50).Draw(t, "kmin"), Seed: rapid.Uint64().Draw(t, "seed")}
		c.KillMax = c.KillMin + rapid.IntRange(0, 400).Draw(t, "kspan")
		vh.CurrentCase(prop, "stress", c)
		kills, v := checkStress(c)
		vh.ClearCurrentCase()
		if v != nil {
			vh.Fail(t, vh.Failure{Property: prop, Part: "stress", Signature: v.sig, Message: v.msg, Case: c})
		}
		vh.Rec().Case("stress", kills > 0, vh.JSON(c))
		vh.Rec().ClassN("stress", "requests", int64(c.Conns*c.Requests))
		vh.Rec().ClassN("stress", "backend_kills_armed", int64(kills))
		vh.Rec().Sample("stress", true, func() interface{} { return c })
	})
}

func init() {
	vh.RegisterReplay("directed", func(t *testing.T, raw json.RawMessage) {
		var c dirCase
		if err := json.Unmarshal(raw, &c); err != nil {
			t.Fatal(err)
		}
		for i := 0; i < 12; i++ { // schedule-dependent where the harness does not own the final select: repeat
			if _, v := checkDirected(c); v != nil {
				vh.Fail(t, vh.Failure{Property: prop, Part: "directed", Signature: v.sig, Message: v.msg, Case: c})
			}
		}
	})
	vh.RegisterReplay("stress", func(t *testing.T, raw json.RawMessage) {
		var c stressCase
		if err := json.Unmarshal(raw, &c); err != nil {
			t.Fatal(err)
		}
		for i := 0; i < 3; i++ {
			if _, v := checkStress(c); v != nil {
				vh.Fail(t, vh.Failure{Property: prop, Part: "stress", Signature: v.sig, Message: v.msg, Case: c})
			}
		}
	})
}

func TestReplay(t *testing.T) { vh.RunReplay(t) }
