// Package c08 decides property C08: running services converge to the configured
// services and endpoints.
package c08

import (
	"encoding/json"
	"fmt"
	"sort"
	"strings"
	"sync"
	"sync/atomic"
	"testing"
	"time"

	"github.com/samaritan-proxy/samaritan/config"
	"github.com/samaritan-proxy/samaritan/controller"
	"github.com/samaritan-proxy/samaritan/host"
	"github.com/samaritan-proxy/samaritan/pb/common"
	"github.com/samaritan-proxy/samaritan/pb/config/bootstrap"
	"github.com/samaritan-proxy/samaritan/pb/config/protocol"
	"github.com/samaritan-proxy/samaritan/pb/config/service"
	"github.com/samaritan-proxy/samaritan/proc"
	"pgregory.net/rapid"

	"verif/harness/vh"
)

const prop = "C08"

func TestMain(m *testing.M) {
	proc.RegisterBuilder(protocol.MySQL, builder{})
	vh.Main(m)
}

type verdict struct{ sig, msg string }

// ---- recording processor registered through the public registry

type recProc struct {
	name     string
	cfg      *service.Config
	hosts    map[string]host.Type
	started  bool
	stopped  bool
	lateCall string
	order    int
}

type recorder struct {
	mu    sync.Mutex
	procs []*recProc
	n     int
}

var cur atomic.Value // *recorder

type builder struct{}

func (builder) Build(p proc.BuildParams) (proc.Proc, error) {
	r := cur.Load().(*recorder)
	r.mu.Lock()
	defer r.mu.Unlock()
	r.n++
	rp := &recProc{name: p.Name, cfg: p.Cfg, hosts: map[string]host.Type{}, order: r.n}
	for _, h := range p.Hosts {
		rp.hosts[h.Addr] = h.Type
	}
	r.procs = append(r.procs, rp)
	return &procHandle{r: r, p: rp}, nil
}

type procHandle struct {
	r *recorder
	p *recProc
}

func (h *procHandle) with(call string, f func()) error {
	h.r.mu.Lock()
	defer h.r.mu.Unlock()
	if h.p.stopped && h.p.lateCall == "" {
		h.p.lateCall = call
	}
	f()
	return nil
}
func (h *procHandle) Name() string            { return h.p.name }
func (h *procHandle) Address() string         { return "" }
func (h *procHandle) Config() *service.Config { return h.p.cfg }
func (h *procHandle) OnSvcHostAdd(hs []*host.Host) error {
	return h.with("OnSvcHostAdd", func() {
		for _, x := range hs {
			h.p.hosts[x.Addr] = x.Type
		}
	})
}
func (h *procHandle) OnSvcHostRemove(hs []*host.Host) error {
	return h.with("OnSvcHostRemove", func() {
		for _, x := range hs {
			delete(h.p.hosts, x.Addr)
		}
	})
}
func (h *procHandle) OnSvcAllHostReplace(hs []*host.Host) error {
	return h.with("OnSvcAllHostReplace", func() {
		h.p.hosts = map[string]host.Type{}
		for _, x := range hs {
			h.p.hosts[x.Addr] = x.Type
		}
	})
}
func (h *procHandle) OnSvcConfigUpdate(c *service.Config) error {
	return h.with("OnSvcConfigUpdate", func() { h.p.cfg = c })
}
func (h *procHandle) Start() error      { return h.with("Start", func() { h.p.started = true }) }
func (h *procHandle) StopListen() error { return nil }
func (h *procHandle) Stop() error {
	h.r.mu.Lock()
	h.p.stopped = true
	h.r.mu.Unlock()
	return nil
}

// ---- history

type epRef struct {
	Addr   int  `json:"addr"`
	Backup bool `json:"backup,omitempty"`
	State  int  `json:"state,omitempty"` // service.Endpoint_State: 0 UP, 1 DOWN, 2 UNKNOWN (the store and the processors keep the endpoint whatever it says)
}

type hop struct {
	Op      string  `json:"op"`                // dep, cfg, eps, pace
	Added   []int   `json:"added,omitempty"`   // dep: service indices
	Removed []int   `json:"removed,omitempty"` // dep
	Svc     int     `json:"svc,omitempty"`
	Cfg     int     `json:"cfg,omitempty"` // config variant: 0 = invalid, 1.. = valid variants
	EpAdd   []epRef `json:"ep_add,omitempty"`
	EpRem   []epRef `json:"ep_rem,omitempty"`
	N       int     `json:"n,omitempty"` // pace: forward up to n events
}

type staticSvc struct {
	Svc int     `json:"svc"`
	Cfg int     `json:"cfg"`
	Eps []epRef `json:"eps"`
}

type histCase struct {
	Static  []staticSvc `json:"static"`
	Ops     []hop       `json:"ops"`
	FreeRun bool        `json:"free_run,omitempty"` // events are forwarded by a concurrent goroutine as they appear (store and controller really run concurrently)
	// Streams: after Ops, these op lists run concurrently, one goroutine each, as the three discovery streams do in production
	// (stream 0: configs, stream 1: endpoints of services 0..1; stream 2: dependency changes of services 2..3, so that the
	// outcome does not depend on how the streams interleave). Forces FreeRun.
	Streams    [][]hop `json:"streams,omitempty"`
	FwdDelayUs int     `json:"forward_delay_us,omitempty"` // the forwarder waits this long per event: the store's 32-slot channel fills up
}

var svcNames = []string{"a", "b", "c", "d"} // "d" is never a dependency in most histories ("unknown")

// cfgUnbuildable: a configuration that passes validation but for which no processor can be built (a protocol value without
// a processor builder; in production that includes the declared but unimplemented MySQL)
const cfgUnbuildable = 99

func mkCfg(variant int) *service.Config {
	if variant == cfgUnbuildable {
		idle := time.Minute
		return &service.Config{
			Listener:    &service.Listener{Address: &common.Address{Ip: "127.0.0.1", Port: 20099}},
			Protocol:    protocol.Protocol(7),
			IdleTimeout: &idle,
		}
	}
	if variant == 0 {
		return &service.Config{Protocol: protocol.MySQL} // invalid: no listener
	}
	idle := time.Duration(variant) * time.Minute
	return &service.Config{
		Listener:    &service.Listener{Address: &common.Address{Ip: "127.0.0.1", Port: uint32(20000 + variant)}},
		Protocol:    protocol.MySQL,
		IdleTimeout: &idle,
		LbPolicy:    service.LoadBalancePolicy(variant % 3),
	}
}

func mkEp(e epRef) *service.Endpoint {
	t := service.Endpoint_MAIN
	if e.Backup {
		t = service.Endpoint_BACKUP
	}
	return &service.Endpoint{Address: &common.Address{Ip: "10.1.1.1", Port: uint32(7000 + e.Addr)}, Type: t, State: service.Endpoint_State(e.State)}
}

func epAddr(e epRef) string { return fmt.Sprintf("10.1.1.1:%d", 7000+e.Addr) }

type msvc struct {
	cfg      *service.Config
	cfgValid bool
	eps      []epRef // ordered, unique by address
	epsKnown bool    // an endpoint addition has been applied
	epsAmbig bool    // only removal-only updates so far
}

type histInfo struct {
	bothLists, readd, lag, invalidFirst int
}

func checkHist(c histCase, uniq string) (inf histInfo, v *verdict) {
	rec := &recorder{}
	cur.Store(rec)
	name := func(i int) string { return uniq + svcNames[i%len(svcNames)] }
	model := map[string]*msvc{}
	everRemoved := map[string]bool{}

	b := &bootstrap.Bootstrap{Admin: &bootstrap.Admin{Bind: &common.Address{Ip: "127.0.0.1", Port: 1}}}
	for _, s := range c.Static {
		if len(s.Eps) == 0 || s.Cfg == 0 {
			continue
		}
		if _, dup := model[name(s.Svc)]; dup {
			continue
		}
		ss := &bootstrap.StaticService{Name: name(s.Svc), Config: mkCfg(s.Cfg)}
		m := &msvc{cfg: ss.Config, cfgValid: true, epsKnown: true}
		for _, e := range s.Eps {
			dup := false
			for _, x := range m.eps {
				if x.Addr == e.Addr {
					dup = true
				}
			}
			// the bootstrap list is taken as is; keep it duplicate-free so the model is unambiguous
			if dup {
				continue
			}
			ss.Endpoints = append(ss.Endpoints, mkEp(e))
			m.eps = append(m.eps, e)
		}
		b.StaticServices = append(b.StaticServices, ss)
		model[ss.Name] = m
	}
	store, err := config.New(b)
	if err != nil {
		return inf, &verdict{"store-construct", err.Error()}
	}
	evtCh := store.Subscribe()
	ctlCh := make(chan config.Event)
	ctl, _ := controller.New(ctlCh)
	ctl.Start()
	defer ctl.Stop()

	type sentinel struct{}
	forward := func(n int) int {
		done := 0
		for done < n {
			select {
			case e := <-evtCh:
				select {
				case ctlCh <- e:
				case <-time.After(20 * time.Second):
					return -1
				}
				done++
			default:
				return done
			}
		}
		return done
	}
	stopFwd := make(chan struct{})
	fwdDone := make(chan struct{})
	if len(c.Streams) > 0 {
		c.FreeRun = true
	}
	if c.FreeRun {
		go func() {
			defer close(fwdDone)
			for {
				select {
				case e := <-evtCh:
					if c.FwdDelayUs > 0 {
						time.Sleep(time.Duration(c.FwdDelayUs) * time.Microsecond)
					}
					ctlCh <- e // an event taken from the store is always delivered
				case <-stopFwd:
					return
				}
			}
		}()
	} else {
		close(fwdDone)
	}
	maxLag := 0
	guard := func() bool {
		if c.FreeRun {
			return true
		}
		if l := len(evtCh); l > maxLag {
			maxLag = l
		}
		if len(evtCh) >= 28 {
			return forward(len(evtCh)-20) >= 0
		}
		return true
	}

	// apply updates the model for one operation and returns the call on the store (nil: nothing to call)
	apply := func(o hop) (call func()) {
		switch o.Op {
		case "dep":
			var add, rem []*service.Service
			for _, s := range o.Added {
				add = append(add, &service.Service{Name: name(s)})
				if _, ok := model[name(s)]; !ok {
					model[name(s)] = &msvc{}
					if everRemoved[name(s)] {
						inf.readd++
					}
				}
			}
			for _, s := range o.Removed {
				rem = append(rem, &service.Service{Name: name(s)})
				if _, ok := model[name(s)]; ok {
					delete(model, name(s))
					everRemoved[name(s)] = true
				}
			}
			return func() { store.VerifDependencyUpdate(add, rem) }
		case "cfg":
			cfg := mkCfg(o.Cfg)
			if m := model[name(o.Svc)]; m != nil {
				if o.Cfg == 0 || o.Cfg == cfgUnbuildable {
					if m.cfgValid {
						return nil // invalid configs are only generated before the first valid one (see DESIGN)
					}
					inf.invalidFirst++
				}
				m.cfg, m.cfgValid = cfg, o.Cfg != 0 && o.Cfg != cfgUnbuildable
			}
			return func() { store.VerifSvcConfigUpdate(name(o.Svc), cfg) }
		case "eps":
			var add, rem []*service.Endpoint
			for _, e := range o.EpAdd {
				add = append(add, mkEp(e))
			}
			for _, e := range o.EpRem {
				rem = append(rem, mkEp(e))
			}
			if m := model[name(o.Svc)]; m != nil && len(add)+len(rem) > 0 {
				running := m.cfg != nil && m.cfgValid && m.epsKnown
				if running && len(add) > 0 && len(rem) > 0 {
					inf.bothLists++
				}
				for _, e := range o.EpRem {
					for k, x := range m.eps {
						if x.Addr == e.Addr {
							m.eps = append(m.eps[:k:k], m.eps[k+1:]...)
							break
						}
					}
				}
				for _, e := range o.EpAdd {
					dup := false
					for _, x := range m.eps {
						if x.Addr == e.Addr {
							dup = true
						}
					}
					if !dup {
						m.eps = append(m.eps, e)
					}
				}
				if len(add) > 0 {
					m.epsKnown, m.epsAmbig = true, false
				} else if !m.epsKnown {
					m.epsAmbig = true
				}
			}
			return func() { store.VerifSvcEndpointUpdate(name(o.Svc), add, rem) }
		}
		return nil
	}
	for i, o := range c.Ops {
		if !guard() {
			return inf, &verdict{"controller-stuck", fmt.Sprintf("before step %d: the controller did not take an event for 20s\n%s", i, vh.Stacks())}
		}
		if o.Op == "pace" {
			if c.FreeRun {
				continue
			}
			if forward(o.N) < 0 {
				return inf, &verdict{"controller-stuck", fmt.Sprintf("step %d: the controller did not take an event for 20s\n%s", i, vh.Stacks())}
			}
			continue
		}
		if call := apply(o); call != nil {
			call()
		}
	}
	if len(c.Streams) > 0 {
		// the model is folded stream by stream (the streams touch disjoint parts of the state, see histCase), the calls
		// run concurrently
		calls := make([][]func(), len(c.Streams))
		for si, st := range c.Streams {
			for _, o := range st {
				if call := apply(o); call != nil {
					calls[si] = append(calls[si], call)
				}
			}
		}
		var swg sync.WaitGroup
		startStreams := make(chan struct{})
		for si := range calls {
			swg.Add(1)
			go func(si int) {
				defer swg.Done()
				<-startStreams
				for _, call := range calls[si] {
					call()
				}
			}(si)
		}
		close(startStreams)
		sdone := make(chan struct{})
		go func() { swg.Wait(); close(sdone) }()
		select {
		case <-sdone:
		case <-time.After(60 * time.Second):
			return inf, &verdict{"store-stuck", "concurrent discovery streams: an update handler of the store did not return for 60s\n" + vh.Stacks()}
		}
	}
	if maxLag >= 2 {
		inf.lag = maxLag
	}
	// quiescence: forward everything, then two sentinels prove the last real event was handled
	close(stopFwd)
	<-fwdDone
	if forward(1<<30) < 0 {
		return inf, &verdict{"controller-stuck", "final drain: the controller did not take an event for 20s\n" + vh.Stacks()}
	}
	for k := 0; k < 2; k++ {
		select {
		case ctlCh <- &sentinel{}:
		case <-time.After(20 * time.Second):
			return inf, &verdict{"controller-stuck", "sentinel not taken for 20s\n" + vh.Stacks()}
		}
	}

	// ---- store view
	raw, err := store.MarshalJSON()
	if err != nil {
		return inf, &verdict{"store-marshal", err.Error()}
	}
	var view struct {
		Services map[string]struct {
			Name      string `json:"name"`
			Endpoints []struct {
				Address struct {
					IP   string `json:"ip"`
					Port int    `json:"port"`
				} `json:"address"`
			} `json:"endpoints"`
		} `json:"services"`
	}
	if err := json.Unmarshal(raw, &view); err != nil {
		return inf, &verdict{"store-marshal", err.Error()}
	}
	if len(view.Services) != len(model) {
		return inf, &verdict{"store-services-mismatch", fmt.Sprintf("store holds %v, model %v", keys(view.Services), mkeys(model))}
	}
	for n, m := range model {
		sv, ok := view.Services[n]
		if !ok {
			return inf, &verdict{"store-services-mismatch", fmt.Sprintf("store holds %v, model %v", keys(view.Services), mkeys(model))}
		}
		var got []string
		for _, e := range sv.Endpoints {
			got = append(got, fmt.Sprintf("%s:%d", e.Address.IP, e.Address.Port))
		}
		var want []string
		for _, e := range m.eps {
			want = append(want, epAddr(e))
		}
		sort.Strings(got)
		sort.Strings(want)
		if strings.Join(got, ",") != strings.Join(want, ",") {
			return inf, &verdict{"store-endpoints-mismatch", fmt.Sprintf("service %s: store endpoints %v, model %v", n, got, want)}
		}
	}

	// ---- processors
	rec.mu.Lock()
	defer rec.mu.Unlock()
	running := map[string]*recProc{}
	for _, p := range rec.procs {
		if p.lateCall != "" {
			return inf, &verdict{"call-after-stop", fmt.Sprintf("processor %s received %s after Stop", p.name, p.lateCall)}
		}
		if p.started && !p.stopped {
			if running[p.name] != nil {
				return inf, &verdict{"two-processors", fmt.Sprintf("two running processors for service %s", p.name)}
			}
			running[p.name] = p
		}
	}
	ctlNames := map[string]bool{}
	for _, p := range ctl.GetAllProcs() {
		ctlNames[p.Name()] = true
	}
	for n, m := range model {
		expect := m.cfg != nil && m.cfgValid && m.epsKnown
		ambiguous := m.cfg != nil && m.cfgValid && !m.epsKnown && m.epsAmbig
		p := running[n]
		if ambiguous {
			delete(running, n)
			delete(ctlNames, n)
			continue
		}
		if expect && p == nil {
			return inf, &verdict{"processor-missing", fmt.Sprintf("service %s has a valid configuration and endpoints %v but no running processor", n, m.eps)}
		}
		if !expect && p != nil {
			return inf, &verdict{"processor-unexpected", fmt.Sprintf("service %s runs a processor without (valid config %v, endpoints known %v)", n, m.cfgValid, m.epsKnown)}
		}
		if p == nil {
			continue
		}
		if !ctlNames[n] {
			return inf, &verdict{"controller-view-mismatch", fmt.Sprintf("processor %s runs but is not listed by the controller", n)}
		}
		if p.cfg != m.cfg {
			return inf, &verdict{"processor-config-stale", fmt.Sprintf("service %s: processor configuration is not the latest one (idle %v vs %v)", n, p.cfg.GetIdleTimeout(), m.cfg.GetIdleTimeout())}
		}
		want := map[string]host.Type{}
		for _, e := range m.eps {
			t := host.TypeMain
			if e.Backup {
				t = host.TypeBackup
			}
			want[epAddr(e)] = t
		}
		if len(want) != len(p.hosts) {
			return inf, &verdict{"processor-hosts-mismatch", fmt.Sprintf("service %s: processor hosts %v, latest endpoint set %v", n, p.hosts, want)}
		}
		for a, t := range want {
			if gt, ok := p.hosts[a]; !ok || gt != t {
				return inf, &verdict{"processor-hosts-mismatch", fmt.Sprintf("service %s: processor hosts %v, latest endpoint set %v", n, p.hosts, want)}
			}
		}
		delete(running, n)
		delete(ctlNames, n)
	}
	for n := range running {
		return inf, &verdict{"processor-unexpected", fmt.Sprintf("processor %s runs for a service that is not a dependency", n)}
	}
	for n := range ctlNames {
		return inf, &verdict{"controller-view-mismatch", fmt.Sprintf("controller lists %s which should not run", n)}
	}
	return inf, nil
}

func keys[T any](m map[string]T) []string {
	var r []string
	for k := range m {
		r = append(r, k)
	}
	sort.Strings(r)
	return r
}
func mkeys(m map[string]*msvc) []string { return keys(m) }

func genEps(t *rapid.T, label string, max int) []epRef {
	n := rapid.IntRange(0, max).Draw(t, label+".n")
	var r []epRef
	for i := 0; i < n; i++ {
		r = append(r, epRef{Addr: rapid.IntRange(0, 5).Draw(t, label+".addr"), Backup: rapid.IntRange(0, 3).Draw(t, label+".backup") == 0,
			State: rapid.SampledFrom([]int{0, 0, 0, 0, 1, 2}).Draw(t, label+".state")})
	}
	return r
}

func genHist(t *rapid.T) histCase {
	var c histCase
	for i, n := 0, rapid.IntRange(0, 2).Draw(t, "static"); i < n; i++ {
		c.Static = append(c.Static, staticSvc{Svc: rapid.IntRange(0, 2).Draw(t, "ssvc"), Cfg: rapid.IntRange(1, 4).Draw(t, "scfg"), Eps: genEps(t, "seps", 3)})
	}
	n := rapid.IntRange(1, 40).Draw(t, "n")
	for i := 0; i < n; i++ {
		svc := rapid.IntRange(0, 3).Draw(t, "svc")
		if svc == 3 && rapid.Bool().Draw(t, "rare") {
			svc = rapid.IntRange(0, 2).Draw(t, "svc2")
		}
		switch x := rapid.IntRange(0, 19).Draw(t, "op"); {
		case x <= 3:
			o := hop{Op: "dep"}
			if rapid.IntRange(0, 3).Draw(t, "rm") == 0 {
				o.Removed = rapid.SliceOfN(rapid.IntRange(0, 2), 1, 2).Draw(t, "removed")
			} else {
				o.Added = rapid.SliceOfN(rapid.IntRange(0, 2), 1, 3).Draw(t, "added")
				if rapid.IntRange(0, 5).Draw(t, "both") == 0 {
					o.Removed = rapid.SliceOfN(rapid.IntRange(0, 2), 1, 1).Draw(t, "removed2")
				}
			}
			c.Ops = append(c.Ops, o)
		case x <= 7:
			cfg := rapid.IntRange(1, 6).Draw(t, "cfg")
			if rapid.IntRange(0, 5).Draw(t, "invalid") == 0 {
				cfg = rapid.SampledFrom([]int{0, cfgUnbuildable}).Draw(t, "invalidkind")
			}
			c.Ops = append(c.Ops, hop{Op: "cfg", Svc: svc, Cfg: cfg})
		case x <= 15:
			o := hop{Op: "eps", Svc: svc}
			switch rapid.IntRange(0, 5).Draw(t, "shape") {
			case 0:
				o.EpRem = genEps(t, "rem", 3)
			case 1, 2:
				o.EpAdd = genEps(t, "add", 4)
				o.EpRem = genEps(t, "rem", 3)
			default:
				o.EpAdd = genEps(t, "add", 4)
			}
			c.Ops = append(c.Ops, o)
		default:
			c.Ops = append(c.Ops, hop{Op: "pace", N: rapid.IntRange(0, 6).Draw(t, "pace")})
		}
	}
	return c
}

func TestConverge(t *testing.T) {
	rapid.Check(t, func(t *rapid.T) {
		c := genHist(t)
		uniq := "svc-"
		vh.CurrentCase(prop, "converge", c)
		inf, v := checkHist(c, uniq)
		vh.ClearCurrentCase()
		if v != nil {
			vh.Fail(t, vh.Failure{Property: prop, Part: "converge", Signature: v.sig, Message: v.msg, Case: c})
		}
		nt := inf.bothLists > 0 || inf.readd > 0 || inf.lag >= 2
		vh.Rec().Case("converge", nt, vh.JSON(c))
		if inf.bothLists > 0 {
			vh.Rec().Class("converge", "endpoint_update_with_both_lists_on_running_service")
		}
		if inf.readd > 0 {
			vh.Rec().Class("converge", "dependency_removed_and_readded")
		}
		if inf.lag >= 2 {
			vh.Rec().Class("converge", "controller_lagging>=2_events")
		}
		if inf.invalidFirst > 0 {
			vh.Rec().Class("converge", "invalid_first_config")
		}
		vh.Rec().Sample("converge", nt, func() interface{} { return c })
	})
}

// TestConvergeConcurrent runs short histories in which the store emits a service add event and immediately
// keeps changing the same service while a concurrent goroutine forwards the events: store and controller race
// as in production. Every history is executed several times.
func TestConvergeConcurrent(t *testing.T) {
	rapid.Check(t, func(t *rapid.T) {
		c := histCase{FreeRun: true}
		// long endpoint lists make both the store's in-place update and the controller's reading of the
		// event take long enough to overlap
		ne := rapid.SampledFrom([]int{3, 50, 1000, 3000}).Draw(t, "initial")
		var eps []epRef
		for i := 0; i < ne; i++ {
			eps = append(eps, epRef{Addr: i, Backup: i%7 == 3})
		}
		if rapid.Bool().Draw(t, "static") {
			c.Static = []staticSvc{{Svc: 0, Cfg: 1, Eps: eps}}
		} else {
			c.Ops = append(c.Ops, hop{Op: "dep", Added: []int{0}}, hop{Op: "cfg", Svc: 0, Cfg: 1}, hop{Op: "eps", Svc: 0, EpAdd: eps})
		}
		for i, n := 0, rapid.IntRange(1, 6).Draw(t, "n"); i < n; i++ {
			o := hop{Op: "eps", Svc: 0, EpAdd: genEps(t, "add", 3), EpRem: genEps(t, "rem", 3)}
			// usually remove an endpoint near the head of the list and add a new address
			if rapid.IntRange(0, 3).Draw(t, "head") != 0 {
				o.EpRem = append(o.EpRem, epRef{Addr: i})
				o.EpAdd = append(o.EpAdd, epRef{Addr: 5000 + i})
			}
			c.Ops = append(c.Ops, o)
		}
		vh.CurrentCase(prop, "converge", c)
		reps := 40
		if ne >= 1000 {
			reps = 8
		}
		for rep := 0; rep < reps; rep++ {
			if _, v := checkHist(c, "svc-"); v != nil {
				vh.ClearCurrentCase()
				vh.Fail(t, vh.Failure{Property: prop, Part: "converge", Signature: v.sig, Message: v.msg, Case: c})
			}
		}
		vh.ClearCurrentCase()
		vh.Rec().Case("converge-concurrent", true, vh.JSON(c))
		vh.Rec().Sample("converge-concurrent", true, func() interface{} { return c })
	})
}

// TestConvergeStreams: after a sequential prefix the configuration stream, the endpoint stream and the dependency stream
// deliver their updates concurrently (separate goroutines, as in production) while the controller lags behind a slow forwarder,
// so that handlers block on the store's full event channel.
func TestConvergeStreams(t *testing.T) {
	rapid.Check(t, func(t *rapid.T) {
		c := histCase{FreeRun: true, FwdDelayUs: rapid.SampledFrom([]int{0, 20, 200, 1000}).Draw(t, "fwd")}
		// prefix: services 0 and 1 are dependencies, sometimes already configured / populated
		c.Ops = append(c.Ops, hop{Op: "dep", Added: []int{0, 1}})
		for svc := 0; svc < 2; svc++ {
			switch rapid.IntRange(0, 3).Draw(t, "pre") {
			case 1:
				c.Ops = append(c.Ops, hop{Op: "cfg", Svc: svc, Cfg: rapid.IntRange(0, 3).Draw(t, "pcfg")})
			case 2:
				c.Ops = append(c.Ops, hop{Op: "eps", Svc: svc, EpAdd: genEps(t, "peps", 3)})
			case 3:
				c.Ops = append(c.Ops, hop{Op: "cfg", Svc: svc, Cfg: rapid.IntRange(1, 3).Draw(t, "pcfg")}, hop{Op: "eps", Svc: svc, EpAdd: genEps(t, "peps", 3)})
			}
		}
		if rapid.Bool().Draw(t, "fill") {
			// unrelated events ahead in the queue: the channel is (nearly) full when the streams start
			for i, n := 0, rapid.IntRange(10, 40).Draw(t, "nfill"); i < n; i++ {
				c.Ops = append(c.Ops, hop{Op: "dep", Added: []int{3}}, hop{Op: "dep", Removed: []int{3}})
			}
		}
		var cfgs, epss, deps []hop
		for i, n := 0, rapid.IntRange(1, 12).Draw(t, "ncfg"); i < n; i++ {
			cfg := rapid.IntRange(1, 6).Draw(t, "cfg")
			if rapid.IntRange(0, 6).Draw(t, "invalid") == 0 {
				cfg = rapid.SampledFrom([]int{0, cfgUnbuildable}).Draw(t, "invalidkind")
			}
			cfgs = append(cfgs, hop{Op: "cfg", Svc: rapid.IntRange(0, 1).Draw(t, "csvc"), Cfg: cfg})
		}
		for i, n := 0, rapid.IntRange(1, 12).Draw(t, "neps"); i < n; i++ {
			o := hop{Op: "eps", Svc: rapid.IntRange(0, 1).Draw(t, "esvc"), EpAdd: genEps(t, "add", 4)}
			if rapid.IntRange(0, 2).Draw(t, "rem") == 0 {
				o.EpRem = genEps(t, "rem", 3)
			}
			epss = append(epss, o)
		}
		for i, n := 0, rapid.IntRange(0, 8).Draw(t, "ndep"); i < n; i++ {
			if rapid.Bool().Draw(t, "dadd") {
				deps = append(deps, hop{Op: "dep", Added: []int{rapid.IntRange(2, 3).Draw(t, "dsvc")}})
			} else {
				deps = append(deps, hop{Op: "dep", Removed: []int{rapid.IntRange(2, 3).Draw(t, "dsvc")}})
			}
		}
		c.Streams = [][]hop{cfgs, epss, deps}
		vh.CurrentCase(prop, "converge", c)
		for rep := 0; rep < 6; rep++ {
			if _, v := checkHist(c, "svc-"); v != nil {
				vh.ClearCurrentCase()
				vh.Fail(t, vh.Failure{Property: prop, Part: "converge", Signature: v.sig, Message: v.msg, Case: c})
			}
		}
		vh.ClearCurrentCase()
		vh.Rec().Case("converge-streams", true, vh.JSON(c))
		vh.Rec().ClassN("converge-streams", "concurrent_stream_updates", int64(len(cfgs)+len(epss)+len(deps))*6)
		vh.Rec().Sample("converge-streams", true, func() interface{} { return c })
	})
}

func init() {
	vh.RegisterReplay("converge", func(t *testing.T, raw json.RawMessage) {
		var c histCase
		if err := json.Unmarshal(raw, &c); err != nil {
			t.Fatal(err)
		}
		reps := 1
		if c.FreeRun {
			reps = 2000
		}
		for i := 0; i < reps; i++ {
			if _, v := checkHist(c, "replay-"); v != nil {
				vh.Fail(t, vh.Failure{Property: prop, Part: "converge", Signature: v.sig, Message: v.msg, Case: c})
			}
		}
	})
}

func TestReplay(t *testing.T) { vh.RunReplay(t) }

// ---- known finding: a service whose first configuration validates but cannot be built never starts

const sigUnbuildable = "service-never-started-after-unbuildable-config"

// TestUnbuildableFirstConfig: directed histories of the known finding. The first configuration of a service names a protocol
// without a processor (it passes validation; the controller fails to build the processor), endpoints arrive, the configuration
// is corrected. The store sees valid -> valid and publishes a configuration event only, which the controller drops for a
// service without a processor: the service never runs.
func TestUnbuildableFirstConfig(t *testing.T) {
	eps := []epRef{{Addr: 1}, {Addr: 2, Backup: true}}
	for i, c := range []histCase{
		{Ops: []hop{{Op: "dep", Added: []int{0}}, {Op: "cfg", Svc: 0, Cfg: cfgUnbuildable}, {Op: "eps", Svc: 0, EpAdd: eps}, {Op: "cfg", Svc: 0, Cfg: 2}}},
		{Ops: []hop{{Op: "dep", Added: []int{0}}, {Op: "eps", Svc: 0, EpAdd: eps}, {Op: "cfg", Svc: 0, Cfg: cfgUnbuildable}, {Op: "cfg", Svc: 0, Cfg: 1}, {Op: "eps", Svc: 0, EpAdd: []epRef{{Addr: 3}}, EpRem: []epRef{{Addr: 1}}}}},
		{FreeRun: true, Ops: []hop{{Op: "dep", Added: []int{0, 1}}, {Op: "cfg", Svc: 1, Cfg: 3}, {Op: "cfg", Svc: 0, Cfg: cfgUnbuildable}, {Op: "eps", Svc: 0, EpAdd: eps}, {Op: "eps", Svc: 1, EpAdd: eps}, {Op: "cfg", Svc: 0, Cfg: 4}}},
	} {
		_, v := checkHist(c, fmt.Sprintf("unb%d-", i))
		vh.Rec().Case("unbuildable", true, vh.JSON(c))
		vh.Rec().Sample("unbuildable", true, func() interface{} { return c })
		if v == nil {
			continue
		}
		if v.sig == "processor-missing" && vh.Known(sigUnbuildable) {
			vh.ReportKnown(prop, sigUnbuildable, v.msg)
			continue
		}
		sig := v.sig
		if sig == "processor-missing" {
			sig = sigUnbuildable
		}
		vh.Fail(t, vh.Failure{Property: prop, Part: "unbuildable", Signature: sig, Message: v.msg, Case: c})
	}
}

func init() {
	vh.RegisterReplay("unbuildable", func(t *testing.T, raw json.RawMessage) {
		var c histCase
		if err := json.Unmarshal(raw, &c); err != nil {
			t.Fatal(err)
		}
		if _, v := checkHist(c, "replay-"); v != nil && !(v.sig == "processor-missing" && vh.Known(sigUnbuildable)) {
			vh.Fail(t, vh.Failure{Property: prop, Part: "unbuildable", Signature: v.sig, Message: v.msg, Case: c})
		}
	})
}
