// Package c19 decides property C19: hot-key counters are exact for tracked keys
// and bounded; the HOTKEY report is bounded, duplicate-free, ordered, and only
// lists accessed keys.
package c19

import (
	"encoding/json"
	"fmt"
	"sort"
	"sync"
	"testing"
	"time"

	"github.com/samaritan-proxy/samaritan/proc/redis/hotkey"
	"pgregory.net/rapid"

	"verif/harness/vh"
)

const prop = "C19"

func TestMain(m *testing.M) { vh.Main(m) }

type op struct {
	Op  string `json:"op"` // incr, latch, free
	Key string `json:"key,omitempty"`
}

type counterCase struct {
	Capacity int  `json:"capacity"`
	Ops      []op `json:"ops"`
}

type verdict struct{ sig, msg string }

type info struct {
	evictions, midInsert, midRemove int
}

func checkCounter(c counterCase) (inf info, v *verdict) {
	cnt := hotkey.NewCounter(uint8(c.Capacity), nil)
	model := map[string]uint64{}
	for i, o := range c.Ops {
		where := fmt.Sprintf("step %d (%s %q)", i, o.Op, o.Key)
		switch o.Op {
		case "incr":
			before := make(map[string]uint64, len(model))
			for k, n := range model {
				before[k] = n
			}
			_, tracked := model[o.Key]
			preFreqs, _, _ := cnt.VerifDump()
			cnt.Incr(o.Key)
			freqs, items, problems := cnt.VerifDump()
			if len(problems) > 0 {
				return inf, &verdict{"structure-broken", fmt.Sprintf("%s: %v", where, problems)}
			}
			if tracked {
				model[o.Key]++
			} else {
				if len(model) >= c.Capacity {
					// exactly one key must have left, and it must have had a minimal count
					var gone []string
					for k := range before {
						if _, ok := items[k]; !ok {
							gone = append(gone, k)
						}
					}
					if len(gone) != 1 {
						return inf, &verdict{"eviction-count", fmt.Sprintf("%s: admission on a full counter removed %d keys %v", where, len(gone), gone)}
					}
					min := ^uint64(0)
					for _, n := range before {
						if n < min {
							min = n
						}
					}
					if before[gone[0]] != min {
						return inf, &verdict{"evicted-not-minimal", fmt.Sprintf("%s: evicted %q with count %d while the lowest count is %d", where, gone[0], before[gone[0]], min)}
					}
					delete(model, gone[0])
					inf.evictions++
				}
				model[o.Key] = 1
			}
			// classify structural events: node created / removed in the middle of the list
			if len(freqs) > len(preFreqs) && tracked {
				pos := -1
				for j, f := range freqs {
					if f.Freq == model[o.Key] {
						pos = j
					}
				}
				if pos > 0 && pos < len(freqs)-1 {
					inf.midInsert++
				}
			}
			if len(freqs) < len(preFreqs) && tracked {
				inf.midRemove++
			}
			if v := compare(where, c.Capacity, freqs, items, model); v != nil {
				return inf, v
			}
		case "latch":
			got := cnt.Latch()
			if len(got) != len(model) {
				return inf, &verdict{"latch-mismatch", fmt.Sprintf("%s: Latch returned %d keys, %d tracked", where, len(got), len(model))}
			}
			for k, n := range model {
				if got[k] != n {
					return inf, &verdict{"latch-mismatch", fmt.Sprintf("%s: Latch reports %q=%d, accesses since admission %d", where, k, got[k], n)}
				}
			}
			model = map[string]uint64{}
			freqs, items, problems := cnt.VerifDump()
			if len(problems) > 0 || len(freqs) != 0 || len(items) != 0 {
				return inf, &verdict{"latch-not-empty", fmt.Sprintf("%s: counter not empty after Latch: %v %v %v", where, freqs, items, problems)}
			}
		case "free":
			cnt.Free()
			model = map[string]uint64{}
			freqs, items, _ := cnt.VerifDump()
			if len(freqs) != 0 || len(items) != 0 {
				return inf, &verdict{"free-not-empty", fmt.Sprintf("%s: counter not empty after Free", where)}
			}
		}
	}
	return inf, nil
}

func compare(where string, capacity int, freqs []hotkey.VerifFreq, items map[string]uint64, model map[string]uint64) *verdict {
	if len(items) > capacity {
		return &verdict{"over-capacity", fmt.Sprintf("%s: %d keys tracked, capacity %d", where, len(items), capacity)}
	}
	if len(items) != len(model) {
		return &verdict{"tracked-set-mismatch", fmt.Sprintf("%s: counter tracks %d keys, model %d", where, len(items), len(model))}
	}
	for k, n := range model {
		g, ok := items[k]
		if !ok {
			return &verdict{"tracked-set-mismatch", fmt.Sprintf("%s: key %q lost", where, k)}
		}
		if g != n {
			return &verdict{"count-mismatch", fmt.Sprintf("%s: key %q counted %d, accesses since admission %d", where, k, g, n)}
		}
	}
	seen := map[string]bool{}
	var prev uint64
	for i, f := range freqs {
		if i > 0 && f.Freq <= prev {
			return &verdict{"freq-order", fmt.Sprintf("%s: frequency nodes not strictly increasing: %v", where, freqs)}
		}
		prev = f.Freq
		if len(f.Keys) == 0 {
			return &verdict{"empty-freq-node", fmt.Sprintf("%s: empty frequency node %d", where, f.Freq)}
		}
		for _, k := range f.Keys {
			if seen[k] {
				return &verdict{"dup-in-list", fmt.Sprintf("%s: key %q twice in the list", where, k)}
			}
			seen[k] = true
			if items[k] != f.Freq {
				return &verdict{"map-list-disagree", fmt.Sprintf("%s: key %q in node %d but map says %d", where, k, f.Freq, items[k])}
			}
		}
	}
	if len(seen) != len(items) {
		return &verdict{"map-list-disagree", fmt.Sprintf("%s: list holds %d keys, map %d", where, len(seen), len(items))}
	}
	return nil
}

func genCounter(t *rapid.T) counterCase {
	capa := rapid.IntRange(1, 255).Draw(t, "cap")
	if rapid.IntRange(0, 3).Draw(t, "small") != 0 {
		capa = 1 + capa%6
	}
	pool := rapid.IntRange(1, 2*capa+3).Draw(t, "pool")
	if pool > 40 && rapid.Bool().Draw(t, "shrinkpool") {
		pool = 40
	}
	n := rapid.IntRange(1, 120).Draw(t, "n")
	c := counterCase{Capacity: capa}
	for i := 0; i < n; i++ {
		switch x := rapid.IntRange(0, 39).Draw(t, "op"); {
		case x == 0:
			c.Ops = append(c.Ops, op{Op: "latch"})
		case x == 1:
			c.Ops = append(c.Ops, op{Op: "free"})
		default:
			// skewed key choice: low indices are hot
			k := rapid.IntRange(0, pool-1).Draw(t, "k")
			if rapid.Bool().Draw(t, "hot") {
				k = k % (1 + pool/4)
			}
			c.Ops = append(c.Ops, op{Op: "incr", Key: fmt.Sprintf("k%d", k)})
		}
	}
	return c
}

func TestCounterModel(t *testing.T) {
	rapid.Check(t, func(t *rapid.T) {
		c := genCounter(t)
		inf, v := checkCounter(c)
		if v != nil {
			vh.Fail(t, vh.Failure{Property: prop, Part: "counter", Signature: v.sig, Message: v.msg, Case: c})
		}
		nt := inf.evictions > 0 || inf.midInsert > 0 || inf.midRemove > 0
		vh.Rec().Case("counter", nt, vh.JSON(c))
		if inf.evictions > 0 {
			vh.Rec().Class("counter", "with_eviction")
		}
		if inf.midInsert > 0 {
			vh.Rec().Class("counter", "freq_node_inserted_mid_list")
		}
		if inf.midRemove > 0 {
			vh.Rec().Class("counter", "freq_node_removed")
		}
		vh.Rec().Sample("counter", nt, func() interface{} {
			ops := c.Ops
			if len(ops) > 25 {
				ops = ops[:25]
			}
			return map[string]interface{}{"capacity": c.Capacity, "ops": len(c.Ops), "first_ops": ops, "evictions": inf.evictions}
		})
	})
}

// ---- collector

type cop struct {
	Op      string `json:"op"` // access, collect, clock, evict, free
	Counter int    `json:"counter,omitempty"`
	Key     string `json:"key,omitempty"`
	Times   int    `json:"times,omitempty"`
	Minutes int    `json:"minutes,omitempty"`
}

type collectorCase struct {
	Capacity int   `json:"capacity"`
	Counters int   `json:"counters"`
	Ops      []cop `json:"ops"`
}

var nowMu sync.Mutex
var fakeNow int64

func checkCollector(c collectorCase) (collects int, full bool, v *verdict) {
	nowMu.Lock()
	defer nowMu.Unlock()
	fakeNow = 1000
	// The collector reads the minute clock many times inside one collect / evict round. A HOTKEY reader that got the report
	// just before the round renders it while the round runs: each clock read is used as a point of that overlap, at which
	// the held report must still keep the four promises (probe is set around a round only).
	var probe func()
	old := hotkey.VerifSetNow(func() int64 {
		if probe != nil {
			probe()
		}
		return fakeNow
	})
	defer hotkey.VerifSetNow(old)
	var midRound *verdict
	probeHeld := func(where string, held []hotkey.HotKey) func() {
		return func() {
			if midRound != nil {
				return
			}
			seen := map[string]bool{}
			for i, k := range held {
				if k.Counter == nil {
					midRound = &verdict{"held-report-changes-during-round", fmt.Sprintf("%s: a report obtained before this round has an empty entry at position %d while the round runs", where, i)}
					return
				}
				if seen[k.Name] {
					midRound = &verdict{"held-report-changes-during-round", fmt.Sprintf("%s: a report obtained before this round lists %q twice while the round runs", where, k.Name)}
					return
				}
				seen[k.Name] = true
				if i > 0 && held[i-1].Counter.Value() < k.Counter.Value() {
					midRound = &verdict{"held-report-changes-during-round", fmt.Sprintf("%s: a report obtained before this round reads heat %d then %d at positions %d,%d while the round runs", where, held[i-1].Counter.Value(), k.Counter.Value(), i-1, i)}
					return
				}
			}
		}
	}
	col := hotkey.VerifNewCollector(uint8(c.Capacity), time.Hour, time.Hour)
	counters := make([]*hotkey.Counter, c.Counters)
	for i := range counters {
		counters[i] = col.AllocCounter(fmt.Sprintf("backend-%d", i))
	}
	accessed := map[string]bool{}
	check := func(where string) *verdict {
		keys := col.HotKeys()
		if len(keys) > c.Capacity {
			return &verdict{"report-over-capacity", fmt.Sprintf("%s: report lists %d keys, capacity %d", where, len(keys), c.Capacity)}
		}
		if len(keys) == c.Capacity {
			full = true
		}
		seen := map[string]bool{}
		for i, k := range keys {
			if seen[k.Name] {
				return &verdict{"report-duplicate", fmt.Sprintf("%s: key %q listed twice", where, k.Name)}
			}
			seen[k.Name] = true
			if !accessed[k.Name] {
				return &verdict{"report-unaccessed-key", fmt.Sprintf("%s: key %q was never accessed", where, k.Name)}
			}
			if i > 0 && keys[i-1].Counter.Value() < k.Counter.Value() {
				return &verdict{"report-order", fmt.Sprintf("%s: heat increases at position %d: %d then %d", where, i, keys[i-1].Counter.Value(), k.Counter.Value())}
			}
		}
		return nil
	}
	for i, o := range c.Ops {
		where := fmt.Sprintf("step %d (%s)", i, o.Op)
		switch o.Op {
		case "access":
			for j := 0; j < o.Times; j++ {
				counters[o.Counter].Incr(o.Key)
			}
			accessed[o.Key] = true
		case "flood":
			// Times distinct keys, one access each, on one backend's counter (a scan over a key range)
			for j := 0; j < o.Times; j++ {
				k := fmt.Sprintf("%s:%d", o.Key, j)
				counters[o.Counter].Incr(k)
				accessed[k] = true
			}
		case "collect":
			held := col.HotKeys() // a reader got the report just before the collection and renders it during / after it
			probe = probeHeld(where, held)
			col.VerifCollect()
			probe = nil
			collects++
			if midRound != nil {
				return collects, full, midRound
			}
			if v := heldOrdered(where, held); v != nil {
				return collects, full, v
			}
		case "clock":
			fakeNow += int64(o.Minutes)
		case "evict":
			held := col.HotKeys()
			probe = probeHeld(where, held)
			col.VerifEvictStale()
			probe = nil
			if midRound != nil {
				return collects, full, midRound
			}
			if v := heldOrdered(where, held); v != nil {
				return collects, full, v
			}
		case "free":
			counters[o.Counter].Free()
			counters[o.Counter] = col.AllocCounter(fmt.Sprintf("backend-%d", o.Counter))
		}
		if v := check(where); v != nil {
			return collects, full, v
		}
	}
	return collects, full, nil
}

// heldOrdered: a report handed out before a collection / eviction round must still be ordered when it is read afterwards.
func heldOrdered(where string, held []hotkey.HotKey) *verdict {
	for i := 1; i < len(held); i++ {
		if held[i-1].Counter.Value() < held[i].Counter.Value() {
			return &verdict{"held-report-reordered", fmt.Sprintf("%s: a report obtained before this round reads heat %d then %d at positions %d,%d afterwards: its counters were modified in place",
				where, held[i-1].Counter.Value(), held[i].Counter.Value(), i-1, i)}
		}
	}
	return nil
}

func TestCollectorModel(t *testing.T) {
	rapid.Check(t, func(t *rapid.T) {
		capa := rapid.IntRange(1, 60).Draw(t, "cap")
		if rapid.Bool().Draw(t, "small") {
			capa = 1 + capa%5
		}
		big := rapid.IntRange(0, 7).Draw(t, "bigcap") == 0
		if big {
			capa = rapid.SampledFrom([]int{127, 128, 129, 200, 254, 255}).Draw(t, "cap2") // up to the largest capacity the type allows
		}
		c := collectorCase{Capacity: capa, Counters: rapid.IntRange(1, 4).Draw(t, "counters")}
		pool := rapid.IntRange(1, 2*capa+4).Draw(t, "pool")
		n := rapid.IntRange(1, 80).Draw(t, "n")
		for i := 0; i < n; i++ {
			switch x := rapid.IntRange(0, 19).Draw(t, "op"); {
			case x <= 2:
				c.Ops = append(c.Ops, cop{Op: "collect"})
			case x == 3:
				c.Ops = append(c.Ops, cop{Op: "clock", Minutes: rapid.IntRange(0, 3).Draw(t, "min")})
			case x == 4:
				c.Ops = append(c.Ops, cop{Op: "evict"})
			case x == 5:
				c.Ops = append(c.Ops, cop{Op: "free", Counter: rapid.IntRange(0, c.Counters-1).Draw(t, "ci")})
			case x == 6 && (big || rapid.IntRange(0, 3).Draw(t, "floodsmall") == 0):
				c.Ops = append(c.Ops, cop{Op: "flood", Counter: rapid.IntRange(0, c.Counters-1).Draw(t, "fci"), Key: fmt.Sprintf("f%d", i),
					Times: rapid.IntRange(1, 2*capa+10).Draw(t, "floodn")})
			default:
				times := rapid.IntRange(1, 6).Draw(t, "times")
				if rapid.IntRange(0, 5).Draw(t, "many") == 0 {
					times = rapid.IntRange(10, 3000).Draw(t, "times2")
				}
				c.Ops = append(c.Ops, cop{Op: "access", Counter: rapid.IntRange(0, c.Counters-1).Draw(t, "ci"),
					Key: fmt.Sprintf("k%d", rapid.IntRange(0, pool-1).Draw(t, "k")), Times: times})
			}
		}
		collects, full, v := checkCollector(c)
		if v != nil {
			vh.Fail(t, vh.Failure{Property: prop, Part: "collector", Signature: v.sig, Message: v.msg, Case: c})
		}
		nt := collects >= 2 && full
		vh.Rec().Case("collector", nt, vh.JSON(c))
		if full {
			vh.Rec().Class("collector", "report_reached_capacity")
		}
		vh.Rec().Sample("collector", nt, func() interface{} {
			ops := c.Ops
			if len(ops) > 20 {
				ops = ops[:20]
			}
			return map[string]interface{}{"capacity": c.Capacity, "counters": c.Counters, "ops": len(c.Ops), "first_ops": ops}
		})
	})
}

// ---- concurrency: accesses are never invented; none lost when nothing can be evicted

type concCase struct {
	Capacity   int `json:"capacity"`
	Keys       int `json:"keys"`
	Goroutines int `json:"goroutines"`
	PerG       int `json:"per_goroutine"`
	Latchers   int `json:"latchers"`
}

func checkConc(c concCase) *verdict {
	cnt := hotkey.NewCounter(uint8(c.Capacity), nil)
	var wg sync.WaitGroup
	var mu sync.Mutex
	total := map[string]uint64{}
	stop := make(chan struct{})
	merge := func(m map[string]uint64) {
		mu.Lock()
		for k, n := range m {
			total[k] += n
		}
		mu.Unlock()
	}
	var lwg sync.WaitGroup
	for i := 0; i < c.Latchers; i++ {
		lwg.Add(1)
		go func() {
			defer lwg.Done()
			for {
				select {
				case <-stop:
					return
				default:
					merge(cnt.Latch())
				}
			}
		}()
	}
	for g := 0; g < c.Goroutines; g++ {
		wg.Add(1)
		go func(g int) {
			defer wg.Done()
			for i := 0; i < c.PerG; i++ {
				cnt.Incr(fmt.Sprintf("k%d", (g*7+i)%c.Keys))
			}
		}(g)
	}
	wg.Wait()
	close(stop)
	lwg.Wait()
	merge(cnt.Latch())
	var sum uint64
	for _, n := range total {
		sum += n
	}
	accesses := uint64(c.Goroutines * c.PerG)
	if sum > accesses {
		return &verdict{"concurrent-overcount", fmt.Sprintf("latched %d accesses, only %d happened", sum, accesses)}
	}
	if c.Capacity >= c.Keys && sum != accesses {
		return &verdict{"concurrent-lost-count", fmt.Sprintf("capacity %d >= %d keys but latched %d of %d accesses", c.Capacity, c.Keys, sum, accesses)}
	}
	names := make([]string, 0, len(total))
	for k := range total {
		names = append(names, k)
	}
	sort.Strings(names)
	return nil
}

func TestCounterConcurrent(t *testing.T) {
	rapid.Check(t, func(t *rapid.T) {
		c := concCase{Capacity: rapid.IntRange(1, 40).Draw(t, "cap"), Keys: rapid.IntRange(1, 60).Draw(t, "keys"),
			Goroutines: rapid.IntRange(2, 8).Draw(t, "g"), PerG: rapid.IntRange(50, 2000).Draw(t, "per"), Latchers: rapid.IntRange(0, 2).Draw(t, "latchers")}
		if v := checkConc(c); v != nil {
			vh.Fail(t, vh.Failure{Property: prop, Part: "concurrent", Signature: v.sig, Message: v.msg, Case: c})
		}
		vh.Rec().Case("concurrent", true, vh.JSON(c))
		vh.Rec().Sample("concurrent", true, func() interface{} { return c })
	})
}

func init() {
	vh.RegisterReplay("counter", func(t *testing.T, raw json.RawMessage) {
		var c counterCase
		if err := json.Unmarshal(raw, &c); err != nil {
			t.Fatal(err)
		}
		if _, v := checkCounter(c); v != nil {
			vh.Fail(t, vh.Failure{Property: prop, Part: "counter", Signature: v.sig, Message: v.msg, Case: c})
		}
	})
	vh.RegisterReplay("collector", func(t *testing.T, raw json.RawMessage) {
		var c collectorCase
		if err := json.Unmarshal(raw, &c); err != nil {
			t.Fatal(err)
		}
		if _, _, v := checkCollector(c); v != nil {
			vh.Fail(t, vh.Failure{Property: prop, Part: "collector", Signature: v.sig, Message: v.msg, Case: c})
		}
	})
	vh.RegisterReplay("concurrent", func(t *testing.T, raw json.RawMessage) {
		var c concCase
		if err := json.Unmarshal(raw, &c); err != nil {
			t.Fatal(err)
		}
		for i := 0; i < 20; i++ {
			if v := checkConc(c); v != nil {
				vh.Fail(t, vh.Failure{Property: prop, Part: "concurrent", Signature: v.sig, Message: v.msg, Case: c})
			}
		}
	})
}

func TestReplay(t *testing.T) { vh.RunReplay(t) }
