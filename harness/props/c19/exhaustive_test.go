package c19

import (
	"fmt"
	"testing"

	"verif/harness/vh"
)

// TestCounterExhaustive enumerates EVERY history of exactly L steps over {Incr k0..k3, Latch, Free} for the capacities 1, 2
// and 3 (every shorter history is a prefix of one of them and is judged step by step), with the same model oracle as the
// generated part. Small scope, but complete: within it nothing depends on what the generator happens to draw.
func TestCounterExhaustive(t *testing.T) {
	L := 8
	if vh.Thorough() {
		L = 10
	}
	symbols := []op{{Op: "incr", Key: "k0"}, {Op: "incr", Key: "k1"}, {Op: "incr", Key: "k2"}, {Op: "incr", Key: "k3"}, {Op: "latch"}, {Op: "free"}}
	total := 1
	for i := 0; i < L; i++ {
		total *= len(symbols)
	}
	sh, n := vh.Shard()
	var evaluated, nt int64
	ops := make([]op, L)
	for capa := 1; capa <= 3; capa++ {
		for idx := sh; idx < total; idx += n {
			x := idx
			for i := 0; i < L; i++ {
				ops[i] = symbols[x%len(symbols)]
				x /= len(symbols)
			}
			c := counterCase{Capacity: capa, Ops: ops}
			inf, v := checkCounter(c)
			if v != nil {
				cc := counterCase{Capacity: capa, Ops: append([]op(nil), ops...)}
				vh.Fail(t, vh.Failure{Property: prop, Part: "counter", Signature: v.sig, Message: v.msg, Case: cc})
			}
			evaluated++
			if inf.evictions > 0 || inf.midInsert > 0 || inf.midRemove > 0 {
				nt++
			}
		}
	}
	vh.Rec().CaseN("counter-exhaustive", evaluated, nt)
	vh.Rec().Exhaustive("counter-exhaustive")
	vh.Rec().Sample("counter-exhaustive", true, func() interface{} {
		return map[string]interface{}{"steps": L, "alphabet": "incr k0..k3, latch, free", "capacities": "1,2,3", "histories_per_capacity": total,
			"note": fmt.Sprintf("shard %d of %d enumerates every %d-th history", sh, n, n)}
	})
}
