package c19

import (
	"encoding/json"
	"fmt"
	"strconv"
	"strings"
	"testing"
	"time"

	"github.com/samaritan-proxy/samaritan/proc/redis/hotkey"
	"pgregory.net/rapid"

	"verif/harness/ref"
	"verif/harness/sim"
	"verif/harness/vh"
)

type e2eCase struct {
	Masters int     `json:"masters"`
	Keys    int     `json:"keys"`   // distinct keys used
	Rounds  [][]int `json:"rounds"` // per round: key indices accessed (in order)
	// Mix: instead of GETs only, a mix of SET / HSET / MGET / MSET / DEL / EVAL / PING / GET: values, fields and scripts
	// are never keys and must never show up in the report
	Mix bool `json:"mix,omitempty"`
}

func checkHotkeyE2E(c e2eCase) (nt bool, v *verdict) {
	oc, oe := hotkey.VerifSetIntervals(15*time.Millisecond, time.Hour)
	defer hotkey.VerifSetIntervals(oc, oe)
	w, err := sim.NewWorld(c.Masters, 0)
	if err != nil {
		return false, nil
	}
	defer w.Close()
	w.AssignEven(w.Masters())
	defer sim.ProductionRefreshRate()() // stable layout: see the function
	px, err := sim.StartProxy(sim.ProxyOpts{Seeds: w.AllAddrs()})
	if err != nil {
		return false, &verdict{"proxy-start", err.Error()}
	}
	defer px.Stop(20 * time.Second)
	px.WaitTableLoaded(1, 10*time.Second)
	cl, err := sim.Dial(px.Addr)
	if err != nil {
		return false, nil
	}
	defer cl.Close()
	used := map[string]bool{}
	for ri, round := range c.Rounds {
		var all []byte
		nreq := 0
		for i, k := range round {
			key := fmt.Sprintf("hk:%d", k%c.Keys)
			key2 := fmt.Sprintf("hk:%d", (k+1)%c.Keys)
			used[key] = true
			nreq++
			if !c.Mix {
				all = ref.Encode(all, ref.Cmd("GET", key))
				continue
			}
			// a command mix: the key is not always the only argument, and values / fields / scripts are never keys
			switch (k + i) % 8 {
			case 0:
				all = ref.Encode(all, ref.Cmd("SET", key, fmt.Sprintf("val:%d", i)))
			case 1:
				all = ref.Encode(all, ref.Cmd("HSET", "h"+key, fmt.Sprintf("fld:%d", i), fmt.Sprintf("val:%d", i)))
				used["h"+key] = true
			case 2:
				all = ref.Encode(all, ref.Cmd("MGET", key, key2))
				used[key2] = true
			case 3:
				all = ref.Encode(all, ref.Cmd("MSET", key, fmt.Sprintf("val:%d", i), key2, "val:x"))
				used[key2] = true
			case 4:
				all = ref.Encode(all, ref.Cmd("DEL", key, key2))
				used[key2] = true
			case 5:
				all = ref.Encode(all, ref.Cmd("EVAL", "return 1", "1", key, "val:arg"))
			case 6:
				all = ref.Encode(all, ref.Cmd("PING"))
			default:
				all = ref.Encode(all, ref.Cmd("GET", key))
			}
		}
		go cl.Send(all, nil)
		for i := 0; i < nreq; i++ {
			if _, err := cl.Recv(20 * time.Second); err != nil {
				return nt, &verdict{"reply-missing", fmt.Sprintf("round %d: %v", ri, err)}
			}
		}
		time.Sleep(40 * time.Millisecond) // > 2 collect intervals
		r, err := cl.Do(20*time.Second, "HOTKEY")
		if err != nil || r.K != ref.Bulk {
			return nt, &verdict{"hotkey-reply-shape", fmt.Sprintf("round %d: HOTKEY answered %s (%v)", ri, r, err)}
		}
		lines := strings.Split(string(r.S), "\n")
		var n int
		if _, err := fmt.Sscanf(lines[0], "Collect %d keys in this period!", &n); err != nil || n != len(lines)-1 {
			return nt, &verdict{"hotkey-reply-shape", fmt.Sprintf("round %d: header %q with %d key lines", ri, lines[0], len(lines)-1)}
		}
		if n > 50 {
			return nt, &verdict{"report-over-capacity", fmt.Sprintf("round %d: %d keys reported, capacity 50", ri, n)}
		}
		if n >= 50 {
			nt = true
		}
		seen := map[string]bool{}
		prev := 1 << 30
		for _, l := range lines[1:] {
			var cnt int
			var name string
			parts := strings.SplitN(l, "  keyname: ", 2)
			if len(parts) != 2 || !strings.HasPrefix(parts[0], "counter: ") {
				return nt, &verdict{"hotkey-reply-shape", fmt.Sprintf("round %d: line %q", ri, l)}
			}
			cnt, err := strconv.Atoi(strings.TrimPrefix(parts[0], "counter: "))
			name = parts[1]
			if err != nil {
				return nt, &verdict{"hotkey-reply-shape", fmt.Sprintf("round %d: line %q", ri, l)}
			}
			if seen[name] {
				return nt, &verdict{"report-duplicate", fmt.Sprintf("round %d: key %q listed twice", ri, name)}
			}
			seen[name] = true
			if !used[name] {
				return nt, &verdict{"report-unaccessed-key", fmt.Sprintf("round %d: key %q was never accessed", ri, name)}
			}
			if cnt > prev {
				return nt, &verdict{"report-order", fmt.Sprintf("round %d: heat %d after %d", ri, cnt, prev)}
			}
			prev = cnt
		}
		if len(round) > 0 && n == 0 && ri > 0 {
			// keys were accessed in two rounds and at least two collections happened
			return nt, &verdict{"report-empty", fmt.Sprintf("round %d: nothing reported although %d keys were accessed", ri, len(used))}
		}
	}
	return nt, nil
}

func TestHotkeyE2E(t *testing.T) {
	rapid.Check(t, func(t *rapid.T) {
		c := e2eCase{Mix: rapid.Bool().Draw(t, "mix"), Masters: rapid.IntRange(1, 3).Draw(t, "masters"), Keys: rapid.SampledFrom([]int{1, 5, 49, 50, 51, 120}).Draw(t, "keys")}
		for i, n := 0, rapid.IntRange(1, 4).Draw(t, "rounds"); i < n; i++ {
			m := rapid.IntRange(1, 300).Draw(t, "m")
			x := rapid.Uint64().Draw(t, "x") | 1
			var round []int
			for k := 0; k < m; k++ {
				x ^= x << 13
				x ^= x >> 7
				x ^= x << 17
				round = append(round, int(x>>16)%c.Keys)
			}
			c.Rounds = append(c.Rounds, round)
		}
		vh.CurrentCase(prop, "e2e", c)
		nt, v := checkHotkeyE2E(c)
		vh.ClearCurrentCase()
		if v != nil {
			vh.Fail(t, vh.Failure{Property: prop, Part: "e2e", Signature: v.sig, Message: v.msg, Case: c})
		}
		vh.Rec().Case("e2e", nt || c.Keys > 50, vh.JSON(c))
		vh.Rec().Sample("e2e", nt, func() interface{} {
			return map[string]interface{}{"masters": c.Masters, "distinct_keys": c.Keys, "rounds": len(c.Rounds)}
		})
	})
}

func init() {
	vh.RegisterReplay("e2e", func(t *testing.T, raw json.RawMessage) {
		var c e2eCase
		json.Unmarshal(raw, &c)
		if _, v := checkHotkeyE2E(c); v != nil {
			vh.Fail(t, vh.Failure{Property: prop, Part: "e2e", Signature: v.sig, Message: v.msg, Case: c})
		}
	})
}
