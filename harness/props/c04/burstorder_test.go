package c04

import (
	"encoding/json"
	"fmt"
	"sync"
	"testing"
	"time"

	"pgregory.net/rapid"

	"verif/harness/ref"
	"verif/harness/sim"
	"verif/harness/vh"
)

// part burstorder: a slot has just moved to another node and the proxy cannot learn it yet (refreshes are spaced 5 s apart and
// the table was loaded moments ago), so a whole pipelined burst of commands on ONE key is answered MOVED by the old owner and resent, command by
// command, to the new owner - to which the proxy has no connection yet in the "fresh" cases. No table refresh falls between
// the commands, so this is not the known finding: a single server executes the burst in order, and so must the proxy.

type burstCase struct {
	N     int  `json:"n"`     // commands per burst
	Conns int  `json:"conns"` // client connections, each with its own key of the slot
	Fresh bool `json:"fresh"` // the proxy only knows the old owner: the first resend has to connect to the new one
	Ask   bool `json:"ask"`   // the slot is half migrated and the keys are absent on the owner (ASK) instead of moved (MOVED)
}

func checkBurstOrder(c burstCase) *verdict {
	w, err := sim.NewWorld(2, 0)
	if err != nil {
		return nil
	}
	defer w.Close()
	w.AssignEven(w.Masters())
	key0 := "{bo}k0"
	slot := ref.Slot([]byte(key0))
	from := w.Owner(slot)
	to := 1 - from
	seeds := w.AllAddrs()
	if c.Fresh {
		seeds = []string{w.Nodes[from].Addr}
	}
	px, err := sim.StartProxy(sim.ProxyOpts{Seeds: seeds, ConnectTimeout: 2 * time.Second})
	if err != nil {
		return &verdict{"proxy-start", err.Error()}
	}
	defer px.Stop(20 * time.Second)
	px.WaitTableLoaded(1, 10*time.Second)
	var cls []*sim.Client
	defer func() {
		for _, cl := range cls {
			cl.Close()
		}
	}()
	for i := 0; i < c.Conns; i++ {
		cl, err := sim.Dial(px.Addr)
		if err != nil {
			return nil
		}
		cls = append(cls, cl)
		if r, err := cl.Do(replyTimeout, "PING"); err != nil || r.IsErr() {
			return nil
		}
	}
	// from now on no refresh can happen for 5 s: the table was loaded moments ago and refreshes are spaced at least that far apart
	// (holding the CLUSTER NODES replies instead would also hold every reply queued behind them on the same backend connection)
	of, om := sim.SetRefreshTimers(2*time.Minute, 5*time.Second)
	defer sim.SetRefreshTimers(of, om)
	time.Sleep(20 * time.Millisecond) // a refresh under way completes
	s0 := px.Counter("upstream.slots_refresh.success_total")
	if c.Ask {
		w.BeginMigration(slot, to) // the keys do not exist yet: the owner answers ASK for each of them
	} else {
		w.BeginMigration(slot, to)
		w.Finalise(slot)
	}
	var wg sync.WaitGroup
	res := make([]*verdict, c.Conns)
	t0 := time.Now()
	for ci, cl := range cls {
		wg.Add(1)
		go func(ci int, cl *sim.Client) {
			defer wg.Done()
			key := fmt.Sprintf("{bo}k%d", ci)
			var buf []byte
			for i := 0; i < c.N; i++ {
				buf = ref.Encode(buf, ref.Cmd("APPEND", key, "x"))
			}
			go cl.Send(buf, nil)
			for i := 0; i < c.N; i++ {
				r, err := cl.Recv(replyTimeout)
				if err != nil {
					res[ci] = &verdict{"reply-missing", fmt.Sprintf("conn %d: reply %d of %d: %v", ci, i, c.N, err)}
					return
				}
				if hasRedirectText(r) {
					res[ci] = &verdict{"redirect-visible-to-client", fmt.Sprintf("conn %d: reply %d: %s", ci, i, r)}
					return
				}
				if !ref.Equal(r, ref.IntV(int64(i+1))) {
					res[ci] = &verdict{"reply-differs", fmt.Sprintf("conn %d: %d x APPEND %s x pipelined in one write right after slot %d %s (new owner without a connection: %v); reply %d is %s, a single server answers :%d - the burst was not executed in order",
						ci, c.N, key, slot, map[bool]string{true: "started migrating (ASK)", false: "moved (MOVED)"}[c.Ask], c.Fresh, i, r, i+1)}
					return
				}
			}
		}(ci, cl)
	}
	wg.Wait()
	if time.Since(t0) > 3*time.Second || px.Counter("upstream.slots_refresh.success_total") > s0 {
		return nil // the machine was too slow: a refresh may have fallen into the burst, which is the known finding's territory
	}
	for _, r := range res {
		if r != nil {
			return r
		}
	}
	return nil
}

func TestBurstOrder(t *testing.T) {
	rapid.Check(t, func(t *rapid.T) {
		c := burstCase{N: rapid.SampledFrom([]int{2, 3, 8, 32, 64, 200}).Draw(t, "n"), Conns: rapid.IntRange(1, 3).Draw(t, "conns"),
			Fresh: rapid.IntRange(0, 2).Draw(t, "fresh") != 0, Ask: rapid.IntRange(0, 2).Draw(t, "ask") == 0}
		vh.CurrentCase(prop, "burstorder", c)
		v := checkBurstOrder(c)
		vh.ClearCurrentCase()
		if v != nil {
			vh.Fail(t, vh.Failure{Property: prop, Part: "burstorder", Signature: v.sig, Message: v.msg, Case: c})
		}
		vh.Rec().Case("burstorder", true, vh.JSON(c))
		vh.Rec().ClassN("burstorder", "redirected_commands_in_same_key_bursts", int64(c.N*c.Conns))
		if c.Fresh {
			vh.Rec().Class("burstorder", "new_owner_without_a_connection")
		}
		vh.Rec().Sample("burstorder", true, func() interface{} { return c })
	})
}

func init() {
	vh.RegisterReplay("burstorder", func(t *testing.T, raw json.RawMessage) {
		var c burstCase
		if err := json.Unmarshal(raw, &c); err != nil {
			t.Fatal(err)
		}
		for i := 0; i < 5; i++ {
			if v := checkBurstOrder(c); v != nil {
				vh.Fail(t, vh.Failure{Property: prop, Part: "burstorder", Signature: v.sig, Message: v.msg, Case: c})
			}
		}
	})
}
