package c04

import (
	"encoding/json"
	"fmt"
	"testing"
	"time"

	"pgregory.net/rapid"

	redispb "github.com/samaritan-proxy/samaritan/pb/config/protocol/redis"

	"verif/harness/sim"
	"verif/harness/vh"
)

// part failover: a master dies and its replica is promoted while the periodic slot refresh runs at its PRODUCTION rate (every
// 2 minutes, i.e. never during a case). The dead master cannot redirect anybody, so nothing but the failing requests themselves
// can tell the proxy that the layout has changed. The statement allows errors "only while the owning node is actually
// unreachable": the new owner is reachable from the moment of the promotion, so requests for its slots must succeed again
// within a bounded time (10 s here: a few connect attempts and refresh rounds), not after the next periodic refresh.

type foCase struct {
	Masters   int  `json:"masters"`
	Replicas  int  `json:"replicas"`
	Victim    int  `json:"victim"`
	Strategy  int  `json:"read_strategy"`
	WarmConns bool `json:"warm"`      // traffic to every master before the fail-over (connections exist) or none
	Pipelined int  `json:"pipelined"` // requests in flight on the dying master's connection when it dies
}

func checkFailover(c foCase) *verdict {
	w, err := sim.NewWorld(c.Masters, c.Replicas)
	if err != nil {
		return nil
	}
	defer w.Close()
	w.ListFailed = true
	w.AssignEven(w.Masters())
	of, om := sim.SetRefreshTimers(2*time.Minute, 5*time.Millisecond) // read when the loop arms them: before the proxy starts
	defer sim.SetRefreshTimers(of, om)
	px, err := sim.StartProxy(sim.ProxyOpts{Seeds: w.AllAddrs(), ConnectTimeout: 500 * time.Millisecond, ReadStrategy: redispb.ReadStrategy(c.Strategy)})
	if err != nil {
		return &verdict{"proxy-start", err.Error()}
	}
	defer px.Stop(20 * time.Second)
	if !px.WaitTableLoaded(1, 10*time.Second) {
		return &verdict{"table-not-loaded", "routing table not loaded within 10s"}
	}
	cl, err := sim.Dial(px.Addr)
	if err != nil {
		return &verdict{"client-dial", err.Error()}
	}
	defer cl.Close()
	ms := w.Masters()
	victim := ms[c.Victim%len(ms)]
	key := w.KeyFor(victim, "fo:")
	if c.WarmConns {
		for _, m := range ms {
			if r, err := cl.Do(replyTimeout, "SET", w.KeyFor(m, "warm:"), "w"); err != nil || r.IsErr() {
				return nil
			}
		}
	}
	if c.Pipelined > 0 {
		var buf []byte
		for i := 0; i < c.Pipelined; i++ {
			buf = append(buf, []byte(fmt.Sprintf("*3\r\n$3\r\nSET\r\n$%d\r\n%s\r\n$1\r\nx\r\n", len(key), key))...)
		}
		go cl.Send(buf, nil)
	}
	nm := w.Failover(victim)
	if nm < 0 {
		return nil
	}
	t0 := time.Now()
	for i := 0; i < c.Pipelined; i++ {
		if _, err := cl.Recv(replyTimeout); err != nil {
			return &verdict{"reply-missing", fmt.Sprintf("request %d of %d in flight when the master died: %v", i, c.Pipelined, err)}
		}
	}
	var last string
	for {
		r, err := cl.Do(replyTimeout, "SET", key, "after")
		if err != nil {
			return &verdict{"reply-missing", fmt.Sprintf("SET %s after the fail-over: %v", key, err)}
		}
		if hasRedirectText(r) {
			return &verdict{"redirect-visible-to-client", r.String()}
		}
		if !r.IsErr() {
			break
		}
		last = r.String()
		if time.Since(t0) > 10*time.Second {
			return &verdict{"error-while-owner-reachable", fmt.Sprintf("master %d (%s) died and its replica %d (%s) was promoted %v ago; it is reachable and owns the slots, but SET %s is still answered %s (slot refreshes: %d succeeded, %d failed; the periodic refresh runs at its production rate, so only the failing requests could have triggered one)",
				victim, w.Nodes[victim].Addr, nm, w.Nodes[nm].Addr, time.Since(t0).Round(time.Millisecond), key, last,
				px.Counter("upstream.slots_refresh.success_total"), px.Counter("upstream.slots_refresh.failure_total"))}
		}
		time.Sleep(5 * time.Millisecond)
	}
	// and it stays served, by the promoted node
	for i := 0; i < 20; i++ {
		r, err := cl.Do(replyTimeout, "GET", key)
		if err != nil || r.IsErr() || string(r.S) != "after" {
			return &verdict{"reply-differs", fmt.Sprintf("GET %s after the recovery answered %s (%v), want \"after\"", key, r, err)}
		}
	}
	return nil
}

func TestFailoverRecovery(t *testing.T) {
	rapid.Check(t, func(t *rapid.T) {
		c := foCase{Masters: rapid.IntRange(2, 4).Draw(t, "masters"), Replicas: rapid.IntRange(1, 2).Draw(t, "replicas"), Victim: rapid.IntRange(0, 3).Draw(t, "victim"),
			Strategy: rapid.SampledFrom([]int{0, 0, 1, 2}).Draw(t, "strategy"), WarmConns: rapid.IntRange(0, 3).Draw(t, "warm") != 0, Pipelined: rapid.SampledFrom([]int{0, 0, 1, 8, 40}).Draw(t, "pipelined")}
		vh.CurrentCase(prop, "failover", c)
		v := checkFailover(c)
		vh.ClearCurrentCase()
		if v != nil {
			vh.Fail(t, vh.Failure{Property: prop, Part: "failover", Signature: v.sig, Message: v.msg, Case: c})
		}
		vh.Rec().Case("failover", true, vh.JSON(c))
		vh.Rec().Sample("failover", true, func() interface{} { return c })
	})
}

func init() {
	vh.RegisterReplay("failover", func(t *testing.T, raw json.RawMessage) {
		var c foCase
		if err := json.Unmarshal(raw, &c); err != nil {
			t.Fatal(err)
		}
		if v := checkFailover(c); v != nil {
			vh.Fail(t, vh.Failure{Property: prop, Part: "failover", Signature: v.sig, Message: v.msg, Case: c})
		}
	})
}
