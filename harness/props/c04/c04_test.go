// Package c04 decides property C04: slot migration and failover are invisible to clients.
package c04

import (
	"bytes"
	"encoding/json"
	"fmt"
	"github.com/samaritan-proxy/samaritan/utils/verifpoint"
	"net"
	"strconv"
	"strings"
	"sync"
	"sync/atomic"
	"testing"
	"time"

	redispb "github.com/samaritan-proxy/samaritan/pb/config/protocol/redis"
	"pgregory.net/rapid"

	"verif/harness/ref"
	"verif/harness/sim"
	"verif/harness/vh"
)

const prop = "C04"

func TestMain(m *testing.M) { vh.Main(m) }

type verdict struct{ sig, msg string }

type mop struct {
	Op    string     `json:"op"` // cmd, burst, begin, move, finalise, abort, failover, bounce
	Cmd   [][]byte   `json:"cmd,omitempty"`
	Burst [][][]byte `json:"burst,omitempty"` // pipelined on the main connection
	Bg    int        `json:"bg,omitempty"`    // background requests on a second connection during the burst
	Tag   int        `json:"tag,omitempty"`   // which hot slot
	To    int        `json:"to,omitempty"`
	N     int        `json:"n,omitempty"`
	Node  int        `json:"node,omitempty"`
}

type migCase struct {
	Masters  int   `json:"masters"`
	Replicas int   `json:"replicas"`
	Compress bool  `json:"compress"`                   // transparent compression enabled (threshold 64): resent writes pass the filter chain again
	ByName   bool  `json:"announce_by_name,omitempty"` // the nodes announce themselves (CLUSTER NODES, MOVED, ASK) as localhost:port instead of 127.0.0.1:port
	Ops      []mop `json:"ops"`
}

var tags = []string{"{a}", "{b}", "{c}"}

const replyTimeout = 20 * time.Second

type migInfo struct {
	redirectedWhileHalf int
	failovers           int
	joined              int
	bounces             int
}

func hasRedirectText(v ref.Value) bool {
	switch v.K {
	case ref.Err:
		u := strings.ToUpper(string(v.S))
		return strings.HasPrefix(u, "MOVED ") || strings.HasPrefix(u, "ASK ") || u == "MOVED" || u == "ASK"
	case ref.Arr:
		for _, e := range v.A {
			if hasRedirectText(e) {
				return true
			}
		}
	}
	return false
}

func checkMig(c migCase) (inf migInfo, v *verdict) {
	w, err := sim.NewWorld(c.Masters, c.Replicas)
	if err != nil {
		return inf, nil
	}
	defer w.Close()
	w.ListFailed = true
	if c.ByName {
		if addrs, err := net.LookupHost("localhost"); err == nil {
			for _, a := range addrs {
				if a == "127.0.0.1" {
					w.AnnounceHost = "localhost"
				}
			}
		}
	}
	w.AssignEven(w.Masters())
	opts := sim.ProxyOpts{Seeds: w.AllAddrs(), ConnectTimeout: 2 * time.Second}
	if c.Compress {
		opts.Compression = &redispb.Compression{Enable: true, Algorithm: redispb.Compression_SNAPPY, Threshold: 64}
	}
	px, err := sim.StartProxy(opts)
	if err != nil {
		return inf, &verdict{"proxy-start", err.Error()}
	}
	defer px.Stop(20 * time.Second)
	if !px.WaitTableLoaded(1, 10*time.Second) {
		return inf, &verdict{"table-not-loaded", "routing table not loaded within 10s"}
	}
	cl, err := sim.Dial(px.Addr)
	if err != nil {
		return inf, &verdict{"client-dial", err.Error()}
	}
	defer cl.Close()
	bg, err := sim.Dial(px.Addr)
	if err != nil {
		return inf, &verdict{"client-dial", err.Error()}
	}
	defer bg.Close()

	model := ref.NewKeyspace()
	var lenient time.Time // errors for keys are tolerated until then (fail-over recovery window)
	resync := func(args [][]byte) {
		// after a tolerated error the write may or may not have been executed: adopt the world's data
		for _, k := range args[1:] {
			loc := w.KeyLocation(string(k))
			delete(model.M, string(k))
			if len(loc) == 1 {
				w.Lock()
				model.M[string(k)] = w.Nodes[loc[0]].KS.M[string(k)].Clone()
				w.Unlock()
			}
		}
	}
	check := func(where string, args [][]byte, got ref.Value) *verdict {
		if hasRedirectText(got) {
			return &verdict{"redirect-visible-to-client", fmt.Sprintf("%s: %s was answered %s", where, sim.ArgsString(args), got)}
		}
		want, _, local := sim.Expect(model, args)
		if local {
			return nil
		}
		if got.K == ref.Err && want.K != ref.Err {
			if time.Now().Before(lenient) {
				resync(args)
				return nil
			}
			return &verdict{"error-while-key-reachable", fmt.Sprintf("%s: %s answered %s although every node owning its keys is reachable (a single server answers %s)", where, sim.ArgsString(args), got, want)}
		}
		if !sim.SameReply(got, want) {
			if time.Now().Before(lenient) && got.K == ref.Arr {
				resync(args)
				return nil
			}
			return &verdict{"reply-differs", fmt.Sprintf("%s: %s answered %s, a single server answers %s", where, sim.ArgsString(args), got, want)}
		}
		return nil
	}
	halfMigrated := func() bool { return len(w.MigratingSlots()) > 0 }

	for i, o := range c.Ops {
		where := fmt.Sprintf("step %d (%s)", i, o.Op)
		switch o.Op {
		case "cmd":
			m0, a0 := w.Redirects()
			got, err := cl.DoB(replyTimeout, o.Cmd...)
			if err != nil {
				return inf, &verdict{"reply-missing", fmt.Sprintf("%s: %s: %v", where, sim.ArgsString(o.Cmd), err)}
			}
			if v := check(where, o.Cmd, got); v != nil {
				return inf, v
			}
			if m1, a1 := w.Redirects(); (m1 != m0 || a1 != a0) && halfMigrated() {
				inf.redirectedWhileHalf++
			}
		case "burst":
			m0, a0 := w.Redirects()
			var all []byte
			for _, args := range o.Burst {
				all = ref.Encode(all, ref.CmdB(args...))
			}
			var wg sync.WaitGroup
			var bgErr *verdict
			if o.Bg > 0 {
				// background traffic on keys that live on other slots of every node, to interleave with ASKING+command pairs
				wg.Add(1)
				go func() {
					defer wg.Done()
					var b []byte
					for k := 0; k < o.Bg; k++ {
						b = ref.Encode(b, ref.Cmd("INCR", "bg:"+strconv.Itoa(k%23)))
					}
					go bg.Send(b, nil)
					for k := 0; k < o.Bg; k++ {
						r, err := bg.Recv(replyTimeout)
						if err != nil {
							bgErr = &verdict{"reply-missing", fmt.Sprintf("%s: background reply %d: %v", where, k, err)}
							return
						}
						if hasRedirectText(r) {
							bgErr = &verdict{"redirect-visible-to-client", fmt.Sprintf("%s: background INCR answered %s", where, r)}
							return
						}
					}
				}()
			}
			go cl.Send(all, nil)
			for k, args := range o.Burst {
				got, err := cl.Recv(replyTimeout)
				if err != nil {
					return inf, &verdict{"reply-missing", fmt.Sprintf("%s: reply %d (%s): %v", where, k, sim.ArgsString(args), err)}
				}
				if v := check(fmt.Sprintf("%s reply %d", where, k), args, got); v != nil {
					wg.Wait()
					return inf, v
				}
			}
			wg.Wait()
			if bgErr != nil {
				return inf, bgErr
			}
			if m1, a1 := w.Redirects(); (m1 != m0 || a1 != a0) && halfMigrated() {
				inf.redirectedWhileHalf++
			}
		case "joinmaster":
			// a new master joins the cluster: it owns no slot yet and is not among the service's hosts; the migrations
			// that follow may fill it (the usual way a cluster grows)
			if len(w.Masters()) < 6 {
				w.AddNode(-1)
				inf.joined++
			}
		case "begin":
			ms := w.Masters()
			to := ms[len(ms)-1] // To < 0: the newest master
			if o.To >= 0 {
				to = ms[o.To%len(ms)]
			}
			w.BeginMigration(ref.Slot([]byte(tags[o.Tag%len(tags)])), to)
		case "move":
			w.MoveKeys(ref.Slot([]byte(tags[o.Tag%len(tags)])), o.N)
		case "finalise":
			w.Finalise(ref.Slot([]byte(tags[o.Tag%len(tags)])))
		case "abort":
			w.Abort(ref.Slot([]byte(tags[o.Tag%len(tags)])))
		case "bounce":
			// a master loses its connections (crash and restart at the same address with its data, or a network reset):
			// after the reconnect allowance its keys are reachable again and must be answered like before
			ms := w.Masters()
			if w.Nodes[ms[o.Node%len(ms)]].DropConns(o.N == 1) > 0 {
				inf.bounces++
				time.Sleep(250 * time.Millisecond)
			}
		case "failover":
			ms := w.Masters()
			m := ms[o.Node%len(ms)]
			if len(w.Replicas(m)) == 0 || len(w.MigratingSlots()) > 0 {
				continue
			}
			if w.Failover(m) >= 0 {
				inf.failovers++
				// requests for the dead master's slots may fail until the proxy has fetched the new table
				// (periodic refresh every 50 ms in the harness, the dead address is refused): recovery window
				lenient = time.Now().Add(3 * time.Second)
				deadline := time.Now().Add(10 * time.Second)
				s0 := px.Counter("upstream.slots_refresh.success_total")
				for px.Counter("upstream.slots_refresh.success_total") < s0+2 {
					if time.Now().After(deadline) {
						return inf, &verdict{"no-refresh-after-failover", fmt.Sprintf("%s: no slot refresh succeeded within 10s after the fail-over (failure_total %d)", where, px.Counter("upstream.slots_refresh.failure_total"))}
					}
					time.Sleep(2 * time.Millisecond)
				}
				lenient = time.Now()
			}
		}
	}
	// settle: finish every migration, then the data must equal the reference, each key on exactly one node
	for _, s := range w.MigratingSlots() {
		w.Finalise(s)
	}
	data, dups := w.DataUnion()
	if len(dups) > 0 {
		return inf, &verdict{"key-on-two-nodes", fmt.Sprintf("keys %v exist on more than one node", dups)}
	}
	for k, o := range model.M {
		if strings.HasPrefix(k, "bg:") {
			continue
		}
		// with compression the nodes hold the compressed form: the values are judged through the final reads,
		// here only the presence of every key on exactly one node
		if d, ok := data[k]; !ok || (!c.Compress && d != o.Dump()) {
			return inf, &verdict{"final-data-differs", fmt.Sprintf("key %q: cluster holds %q, a single server would hold %q (lost or duplicated execution)", k, clipS(d), clipS(o.Dump()))}
		}
	}
	for k := range data {
		if strings.HasPrefix(k, "bg:") {
			continue
		}
		if _, ok := model.M[k]; !ok {
			return inf, &verdict{"final-data-differs", fmt.Sprintf("key %q exists in the cluster but not on a single server", k)}
		}
	}
	return inf, nil
}

func clipS(s string) string {
	if len(s) > 120 {
		return s[:120] + "..."
	}
	return s
}

var uniq int

func genCmdC(t *rapid.T, seq *int, compress bool) [][]byte {
	if !compress {
		return genCmd(t, seq)
	}
	b := func(s string) []byte { return []byte(s) }
	key := func() []byte {
		return b(tags[rapid.IntRange(0, len(tags)-1).Draw(t, "tag")] + "k" + strconv.Itoa(rapid.IntRange(0, 4).Draw(t, "kn")))
	}
	*seq++
	u := "u" + strconv.Itoa(*seq) + ";"
	big := func() []byte { return []byte(u + strings.Repeat("abcdefgh", rapid.IntRange(10, 600).Draw(t, "rep"))) }
	switch rapid.IntRange(0, 9).Draw(t, "ccmd") {
	case 0, 1:
		return [][]byte{b("SET"), key(), big()}
	case 2:
		return [][]byte{b("HMSET"), b("h" + string(key())), b("f1"), b(u), b("f2"), big()}
	case 3:
		return [][]byte{b("HSET"), b("h" + string(key())), b("f" + strconv.Itoa(*seq%3)), big()}
	case 4:
		return [][]byte{b("HGETALL"), b("h" + string(key()))}
	case 5:
		return [][]byte{b("HGET"), b("h" + string(key())), b("f2")}
	case 6:
		return [][]byte{b("MSET"), key(), big(), key(), b(u)}
	case 7:
		return [][]byte{b("MGET"), key(), key()}
	case 8:
		return [][]byte{b("GETSET"), key(), big()}
	default:
		return [][]byte{b("GET"), key()}
	}
}

func genCmd(t *rapid.T, seq *int) [][]byte {
	b := func(s string) []byte { return []byte(s) }
	key := func() []byte {
		return b(tags[rapid.IntRange(0, len(tags)-1).Draw(t, "tag")] + "k" + strconv.Itoa(rapid.IntRange(0, 4).Draw(t, "kn")))
	}
	*seq++
	u := "u" + strconv.Itoa(*seq) + ";"
	switch rapid.IntRange(0, 13).Draw(t, "cmd") {
	case 0, 1:
		return [][]byte{b("GET"), key()}
	case 2, 3:
		return [][]byte{b("SET"), key(), b(u)}
	case 4, 5:
		return [][]byte{b("APPEND"), key(), b(u)}
	case 6:
		return [][]byte{b("INCRBY"), b("n" + string(key())), b(strconv.Itoa(*seq))}
	case 7:
		return [][]byte{b("LPUSH"), b("l" + string(key())), b(u)}
	case 8:
		return [][]byte{b("LRANGE"), b("l" + string(key())), b("0"), b("-1")}
	case 9:
		return [][]byte{b("MGET"), key(), key(), key()}
	case 10:
		return [][]byte{b("DEL"), key(), key()}
	case 11:
		return [][]byte{b("EXISTS"), key(), b("n" + string(key()))}
	case 12:
		return [][]byte{b("MSET"), key(), b(u), key(), b(u + "2")}
	default:
		return [][]byte{b("STRLEN"), key()}
	}
}

func genMig(t *rapid.T) migCase {
	c := migCase{Masters: rapid.IntRange(2, 4).Draw(t, "masters"), Replicas: rapid.IntRange(0, 1).Draw(t, "replicas"), Compress: rapid.IntRange(0, 3).Draw(t, "compress") == 0, ByName: rapid.IntRange(0, 2).Draw(t, "byname") == 0}
	seq := 0
	n := rapid.IntRange(3, 40).Draw(t, "n")
	// make sure data exists before migrations start
	for i := 0; i < 4; i++ {
		c.Ops = append(c.Ops, mop{Op: "cmd", Cmd: [][]byte{[]byte("SET"), []byte(tags[i%len(tags)] + "k" + strconv.Itoa(i)), []byte("init" + strconv.Itoa(i))}})
	}
	for i := 0; i < n; i++ {
		switch x := rapid.IntRange(0, 20).Draw(t, "op"); {
		case x == 20:
			c.Ops = append(c.Ops, mop{Op: "bounce", Node: rapid.IntRange(0, 3).Draw(t, "bnode"), N: rapid.IntRange(0, 1).Draw(t, "brst")})
		case x <= 7:
			c.Ops = append(c.Ops, mop{Op: "cmd", Cmd: genCmdC(t, &seq, c.Compress)})
		case x <= 10:
			o := mop{Op: "burst", Bg: rapid.SampledFrom([]int{0, 20, 100}).Draw(t, "bg")}
			// every key is touched at most once per pipelined burst: a redirected command can be overtaken by a
			// later command of the same pipeline that is routed directly after a table refresh (known finding
			// C04 pipelined-same-key-overtaken-across-table-refresh, decided by TestKnownOvertake); excluding it
			// by construction lets the search continue behind it.
			used := map[string]bool{}
			for k, m := 0, rapid.IntRange(2, 25).Draw(t, "bn"); k < m; k++ {
				cmd := genCmdC(t, &seq, c.Compress)
				clash := false
				for _, a := range cmd[1:] {
					if used[string(a)] {
						clash = true
					}
				}
				if clash {
					continue
				}
				for _, a := range cmd[1:] {
					used[string(a)] = true
				}
				o.Burst = append(o.Burst, cmd)
			}
			if len(o.Burst) == 0 {
				continue
			}
			c.Ops = append(c.Ops, o)
		case x <= 13:
			if rapid.IntRange(0, 3).Draw(t, "join") == 0 {
				// grow the cluster first and migrate to the newcomer (the last master)
				c.Ops = append(c.Ops, mop{Op: "joinmaster"})
				c.Ops = append(c.Ops, mop{Op: "begin", Tag: rapid.IntRange(0, 2).Draw(t, "mtag"), To: -1})
			} else {
				c.Ops = append(c.Ops, mop{Op: "begin", Tag: rapid.IntRange(0, 2).Draw(t, "mtag"), To: rapid.IntRange(0, 3).Draw(t, "to")})
			}
		case x <= 15:
			c.Ops = append(c.Ops, mop{Op: "move", Tag: rapid.IntRange(0, 2).Draw(t, "mtag"), N: rapid.IntRange(1, 3).Draw(t, "mn")})
		case x <= 17:
			c.Ops = append(c.Ops, mop{Op: "finalise", Tag: rapid.IntRange(0, 2).Draw(t, "mtag")})
		case x == 18:
			c.Ops = append(c.Ops, mop{Op: "abort", Tag: rapid.IntRange(0, 2).Draw(t, "mtag")})
		default:
			c.Ops = append(c.Ops, mop{Op: "failover", Node: rapid.IntRange(0, 3).Draw(t, "fnode")})
		}
	}
	// final reads of every key
	var fin [][][]byte
	for _, tg := range tags {
		for k := 0; k < 5; k++ {
			fin = append(fin, [][]byte{[]byte("GET"), []byte(tg + "k" + strconv.Itoa(k))})
		}
	}
	if c.Compress {
		for _, tg := range tags {
			for k := 0; k < 5; k++ {
				fin = append(fin, [][]byte{[]byte("HGETALL"), []byte("h" + tg + "k" + strconv.Itoa(k))})
			}
		}
	}
	c.Ops = append(c.Ops, mop{Op: "burst", Burst: fin})
	return c
}

func describe(c migCase) interface{} {
	var ops []string
	for i, o := range c.Ops {
		if i >= 14 {
			ops = append(ops, fmt.Sprintf("...(%d steps)", len(c.Ops)))
			break
		}
		switch o.Op {
		case "cmd":
			ops = append(ops, sim.ArgsString(o.Cmd))
		case "burst":
			ops = append(ops, fmt.Sprintf("burst of %d (+%d background)", len(o.Burst), o.Bg))
		default:
			ops = append(ops, vh.JSON(o))
		}
	}
	return map[string]interface{}{"masters": c.Masters, "replicas": c.Replicas, "steps": ops}
}

func TestMigration(t *testing.T) {
	rapid.Check(t, func(t *rapid.T) {
		c := genMig(t)
		vh.CurrentCase(prop, "migration", c)
		inf, v := checkMig(c)
		vh.ClearCurrentCase()
		if v != nil {
			vh.Fail(t, vh.Failure{Property: prop, Part: "migration", Signature: v.sig, Message: v.msg, Case: c})
		}
		nt := inf.redirectedWhileHalf > 0 || inf.failovers > 0
		vh.Rec().Case("migration", nt, vh.JSON(c))
		if inf.redirectedWhileHalf > 0 {
			vh.Rec().Class("migration", "redirected_while_slot_half_migrated")
		}
		if inf.bounces > 0 {
			vh.Rec().Class("migration", "connections_lost_then_traffic")
		}
		if inf.joined > 0 {
			vh.Rec().Class("migration", "migration_to_a_master_that_just_joined_(no_slots,_not_a_configured_host)")
		}
		if inf.failovers > 0 {
			vh.Rec().Class("migration", "failover")
		}
		vh.Rec().Sample("migration", nt, func() interface{} { return describe(c) })
	})
}

// ---- known finding: a pipelined command can overtake an earlier redirected command on the same key

const sigOvertake = "pipelined-same-key-overtaken-across-table-refresh"

type overtakeCase struct {
	DelayMs int `json:"moved_reply_delay_ms"`
	WaitMs  int `json:"second_command_after_ms"`
	// NoRefresh: CLUSTER NODES is answered only after 800 ms, so the routing table cannot be refreshed between the two commands
	// (on the pinned code the table only changes through a refresh: both commands then take the same way and stay in order).
	// HoldResendMs: the first request on its way to the new owner (the resend of the redirected command) is held this long at
	// the pause point behind the upstream's quit check, as a slow first connection to that node would hold it.
	NoRefresh    bool `json:"no_refresh,omitempty"`
	HoldResendMs int  `json:"hold_resend_ms,omitempty"`
}

// checkOvertake: slot s moves from A to B; A answers the next command (a MOVED) only after DelayMs; the
// periodic refresh (50 ms) updates the table meanwhile; the client pipelines a second APPEND on the same key
// after WaitMs. A single server executes them in order.
func checkOvertake(c overtakeCase) (observed bool, v *verdict) {
	w, err := sim.NewWorld(2, 0)
	if err != nil {
		return false, nil
	}
	defer w.Close()
	w.AssignEven(w.Masters())
	px, err := sim.StartProxy(sim.ProxyOpts{Seeds: w.AllAddrs(), ConnectTimeout: 2 * time.Second})
	if err != nil {
		return false, &verdict{"proxy-start", err.Error()}
	}
	defer px.Stop(20 * time.Second)
	px.WaitTableLoaded(1, 10*time.Second)
	cl, err := sim.Dial(px.Addr)
	if err != nil {
		return false, nil
	}
	defer cl.Close()
	key := "{a}k0"
	slot := ref.Slot([]byte(key))
	from := w.Owner(slot)
	to := 1 - from
	if r, err := cl.Do(replyTimeout, "SET", key, "v"); err != nil || r.IsErr() {
		return false, &verdict{"reply-missing", fmt.Sprintf("SET: %v %v", r, err)}
	}
	if c.NoRefresh {
		w.Lock()
		w.DelayCmd = func(node int, args [][]byte) time.Duration {
			if strings.EqualFold(string(args[0]), "cluster") {
				return 800 * time.Millisecond
			}
			return 0
		}
		w.Unlock()
		time.Sleep(120 * time.Millisecond) // a refresh under way has been answered; every later one is held
	}
	if c.HoldResendMs > 0 {
		target := w.Nodes[to].Addr
		var fired int32
		verifpoint.SetHandler(func(name string, arg interface{}) {
			if name != "redis.upstream.request.after-quit-check" {
				return
			}
			if a, ok := arg.(string); !ok || a != target || !atomic.CompareAndSwapInt32(&fired, 0, 1) {
				return
			}
			time.Sleep(time.Duration(c.HoldResendMs) * time.Millisecond)
		})
		defer verifpoint.SetHandler(nil)
	}
	w.BeginMigration(slot, to)
	w.Finalise(slot)
	w.Lock()
	w.DelayCmd = func(node int, args [][]byte) time.Duration {
		if node == from && strings.EqualFold(string(args[0]), "append") {
			return time.Duration(c.DelayMs) * time.Millisecond
		}
		if c.NoRefresh && strings.EqualFold(string(args[0]), "cluster") {
			return 800 * time.Millisecond
		}
		return 0
	}
	w.Unlock()
	s0 := px.Counter("upstream.slots_refresh.success_total")
	if err := cl.Send(ref.Enc(ref.Cmd("APPEND", key, "1")), nil); err != nil {
		return false, nil
	}
	time.Sleep(time.Duration(c.WaitMs) * time.Millisecond)
	refreshed := px.Counter("upstream.slots_refresh.success_total") > s0
	if err := cl.Send(ref.Enc(ref.Cmd("APPEND", key, "2")), nil); err != nil {
		return false, nil
	}
	r1, err1 := cl.Recv(replyTimeout)
	r2, err2 := cl.Recv(replyTimeout)
	if err1 != nil || err2 != nil {
		return false, &verdict{"reply-missing", fmt.Sprintf("%v %v", err1, err2)}
	}
	if hasRedirectText(r1) || hasRedirectText(r2) {
		return false, &verdict{"redirect-visible-to-client", fmt.Sprintf("%s %s", r1, r2)}
	}
	if ref.Equal(r1, ref.IntV(2)) && ref.Equal(r2, ref.IntV(3)) {
		return false, nil
	}
	if ref.Equal(r1, ref.IntV(3)) && ref.Equal(r2, ref.IntV(2)) && refreshed {
		return true, &verdict{sigOvertake, fmt.Sprintf("APPEND %s 1 (sent first, redirected by a MOVED that took %d ms) was answered %s and the APPEND %s 2 pipelined %d ms later %s: the second command was routed directly after the table refresh and executed first",
			key, c.DelayMs, r1, key, c.WaitMs, r2)}
	}
	return false, &verdict{"reply-differs", fmt.Sprintf("APPEND/APPEND answered %s / %s, a single server answers :2 / :3", r1, r2)}
}

func TestKnownOvertake(t *testing.T) {
	for _, c := range []overtakeCase{{DelayMs: 400, WaitMs: 200}, {DelayMs: 300, WaitMs: 150}, {DelayMs: 0, WaitMs: 0}, {DelayMs: 0, WaitMs: 100},
		// no refresh possible in between: the order must hold whatever the timing (not the known finding)
		{NoRefresh: true, HoldResendMs: 150, WaitMs: 30}, {NoRefresh: true, HoldResendMs: 60, WaitMs: 5}, {NoRefresh: true, HoldResendMs: 0, WaitMs: 0},
		{NoRefresh: true, DelayMs: 50, HoldResendMs: 150, WaitMs: 100}} {
		observed, v := checkOvertake(c)
		// the periodic refresh asks a random node; when it asks the slow one it is queued behind the delayed
		// reply and the table is not refreshed in time: try a few times
		for try := 0; try < 6 && v == nil && c.DelayMs > 0; try++ {
			observed, v = checkOvertake(c)
		}
		vh.Rec().Case("overtake", observed, vh.JSON(c))
		vh.Rec().Sample("overtake", observed, func() interface{} { return c })
		if v == nil {
			continue
		}
		if v.sig == sigOvertake && vh.Known(sigOvertake) {
			vh.ReportKnown(prop, sigOvertake, v.msg)
			continue
		}
		vh.Fail(t, vh.Failure{Property: prop, Part: "overtake", Signature: v.sig, Message: v.msg, Case: c})
	}
}

func init() {
	vh.RegisterReplay("overtake", func(t *testing.T, raw json.RawMessage) {
		var c overtakeCase
		if err := json.Unmarshal(raw, &c); err != nil {
			t.Fatal(err)
		}
		if _, v := checkOvertake(c); v != nil && !(v.sig == sigOvertake && vh.Known(sigOvertake)) {
			vh.Fail(t, vh.Failure{Property: prop, Part: "overtake", Signature: v.sig, Message: v.msg, Case: c})
		}
	})
	vh.RegisterReplay("migration", func(t *testing.T, raw json.RawMessage) {
		var c migCase
		if err := json.Unmarshal(raw, &c); err != nil {
			t.Fatal(err)
		}
		for i := 0; i < 3; i++ {
			if _, v := checkMig(c); v != nil {
				vh.Fail(t, vh.Failure{Property: prop, Part: "migration", Signature: v.sig, Message: v.msg, Case: c})
			}
		}
	})
	_ = bytes.Equal
}

func TestReplay(t *testing.T) { vh.RunReplay(t) }
