// Package c10 decides property C10: the RESP decoder and encoder are inverse and
// decoding is independent of how the byte stream is split into reads.
package c10

import (
	"bytes"
	"encoding/json"
	"fmt"
	"io"
	"strconv"
	"testing"

	sut "github.com/samaritan-proxy/samaritan/proc/redis"
	"pgregory.net/rapid"

	"verif/harness/gen"
	"verif/harness/ref"
	"verif/harness/vh"
)

const prop = "C10"

func TestMain(m *testing.M) { vh.Main(m) }

var bufSizes = []int{32, 33, 64, 100, 512, 4096, 8192}

type rtCase struct {
	Values  []ref.Value `json:"values"`
	Chunks  []int       `json:"chunks"`
	BufSize int         `json:"buf_size"`
	EncBuf  int         `json:"enc_buf"`
}

type verdict struct {
	sig, msg string
}

// checkRoundTrip is the oracle of the round-trip part.
func checkRoundTrip(c rtCase) (nt bool, v *verdict) {
	defer func() {
		if p := recover(); p != nil {
			v = &verdict{"codec-panics", fmt.Sprintf("the codec panics on well-formed input: %v", p)}
		}
	}()
	var stream []byte
	for _, x := range c.Values {
		stream = ref.Encode(stream, x)
	}
	rd := &gen.ChunkReader{Data: stream, Chunks: c.Chunks}
	dec := sut.VerifNewDecoder(rd, c.BufSize)
	got := make([]*sut.RespValue, 0, len(c.Values))
	for i, want := range c.Values {
		g, err := dec.Decode()
		if err != nil {
			return true, &verdict{"decode-error", fmt.Sprintf("message %d of %d (%s): decode error %v", i, len(c.Values), want, err)}
		}
		if gv := gen.FromSUT(g); !ref.Equal(gv, want) {
			return true, &verdict{"decode-mismatch", fmt.Sprintf("message %d: decoded %s, sent %s", i, gv, want)}
		}
		got = append(got, g)
	}
	if g, err := dec.Decode(); err != io.EOF {
		return true, &verdict{"no-clean-eof", fmt.Sprintf("after the last message: got (%v, %v), want clean EOF", gen.FromSUT(g), err)}
	}
	// values must still be intact after later decodes (no aliasing of reused buffers)
	for i, want := range c.Values {
		if gv := gen.FromSUT(got[i]); !ref.Equal(gv, want) {
			return true, &verdict{"decode-aliasing", fmt.Sprintf("message %d changed after later decodes: now %s, sent %s", i, gv, want)}
		}
	}
	// encoder == reference encoder, per value and as one stream
	svals := make([]*sut.RespValue, len(c.Values))
	for i, x := range c.Values {
		svals[i] = gen.ToSUT(x)
		e, err := sut.VerifEncode(svals[i], c.EncBuf)
		if err != nil {
			return true, &verdict{"encode-error", fmt.Sprintf("encode %s: %v", x, err)}
		}
		if w := ref.Enc(x); !bytes.Equal(e, w) {
			return true, &verdict{"encode-mismatch", fmt.Sprintf("encode %s: got %q want %q", x, clip(e), clip(w))}
		}
	}
	all, err := sut.VerifEncodeAll(svals, c.EncBuf)
	if err != nil || !bytes.Equal(all, stream) {
		return true, &verdict{"encode-stream-mismatch", fmt.Sprintf("encoding %d values through one encoder differs from the reference stream (err %v)", len(svals), err)}
	}
	// decode(canonical bytes) re-encoded == the bytes
	re, err := sut.VerifEncodeAll(got, c.EncBuf)
	if err != nil || !bytes.Equal(re, stream) {
		return true, &verdict{"reencode-mismatch", fmt.Sprintf("re-encoding the decoded values differs from the canonical bytes (err %v)", err)}
	}
	// non-trivial?
	if len(c.Chunks) >= 2 {
		nt = true
	}
	for _, x := range c.Values {
		if gen.Depth(x) >= 2 || longLine(x, c.BufSize) || crosses(x) {
			nt = true
		}
	}
	return nt, nil
}

func longLine(v ref.Value, buf int) bool {
	switch v.K {
	case ref.Simple, ref.Err:
		return len(v.S)+3 > buf
	case ref.Arr:
		for _, e := range v.A {
			if longLine(e, buf) {
				return true
			}
		}
	}
	return false
}

func crosses(v ref.Value) bool {
	switch v.K {
	case ref.Bulk:
		return len(v.S) >= 510
	case ref.Arr:
		for _, e := range v.A {
			if crosses(e) {
				return true
			}
		}
	}
	return false
}

func clip(b []byte) []byte {
	if len(b) > 120 {
		return append(append([]byte{}, b[:120]...), "..."...)
	}
	return b
}

func genRT(t *rapid.T) rtCase {
	n := rapid.IntRange(1, 30).Draw(t, "n")
	if rapid.IntRange(0, 3).Draw(t, "few") != 0 {
		n = 1 + n%4
	}
	maxBulk := 600
	if rapid.IntRange(0, 9).Draw(t, "big") == 0 {
		maxBulk = 70000
	}
	vals := make([]ref.Value, n)
	var stream []byte
	for i := range vals {
		vals[i] = gen.Value(t, "v", rapid.IntRange(0, 6).Draw(t, "depth"), maxBulk, 40)
		stream = ref.Encode(stream, vals[i])
	}
	return rtCase{Values: vals, Chunks: gen.Chunks(t, "ch", stream),
		BufSize: rapid.SampledFrom(bufSizes).Draw(t, "buf"), EncBuf: rapid.SampledFrom([]int{16, 64, 4096, 8192}).Draw(t, "encbuf")}
}

func describeRT(c rtCase) interface{} {
	vs := make([]string, 0, len(c.Values))
	for i, v := range c.Values {
		if i >= 6 {
			vs = append(vs, fmt.Sprintf("...(%d values)", len(c.Values)))
			break
		}
		vs = append(vs, v.String())
	}
	ch := c.Chunks
	if len(ch) > 16 {
		ch = ch[:16]
	}
	return map[string]interface{}{"values": vs, "reads": len(c.Chunks), "first_read_sizes": ch, "buf_size": c.BufSize}
}

func TestRoundTrip(t *testing.T) {
	rapid.Check(t, func(t *rapid.T) {
		c := genRT(t)
		nt, v := checkRoundTrip(c)
		if v != nil {
			vh.Fail(t, vh.Failure{Property: prop, Part: "roundtrip", Signature: v.sig, Message: v.msg, Case: c})
		}
		vh.Rec().Case("roundtrip", nt, vh.JSON(c))
		vh.Rec().Sample("roundtrip", nt, func() interface{} { return describeRT(c) })
		if len(c.Chunks) >= 2 {
			vh.Rec().Class("roundtrip", "split_across_reads")
		}
		for _, x := range c.Values {
			if gen.Depth(x) >= 2 {
				vh.Rec().Class("roundtrip", "nesting>=2")
				break
			}
		}
		for _, x := range c.Values {
			if crosses(x) {
				vh.Rec().Class("roundtrip", "bulk>=510B")
				break
			}
		}
		for _, x := range c.Values {
			if longLine(x, c.BufSize) {
				vh.Rec().Class("roundtrip", "line_longer_than_buffer")
				break
			}
		}
	})
}

// ---- strict prefixes never decode to a value

type prefixCase struct {
	Value   ref.Value `json:"value"`
	Cut     int       `json:"cut"`
	Chunks  []int     `json:"chunks"`
	BufSize int       `json:"buf_size"`
}

func checkPrefix(c prefixCase) (v *verdict) {
	defer func() {
		if p := recover(); p != nil {
			v = &verdict{"codec-panics", fmt.Sprintf("the decoder panics on a truncated message: %v", p)}
		}
	}()
	full := ref.Enc(c.Value)
	if c.Cut <= 0 || c.Cut >= len(full) {
		return nil
	}
	p := full[:c.Cut]
	dec := sut.VerifNewDecoder(&gen.ChunkReader{Data: p, Chunks: c.Chunks}, c.BufSize)
	g, err := dec.Decode()
	if err == nil {
		return &verdict{"prefix-decoded", fmt.Sprintf("strict prefix %q of the encoding of %s decoded to %s", clip(p), c.Value, gen.FromSUT(g))}
	}
	// the error is sticky
	if g2, err2 := dec.Decode(); err2 == nil {
		return &verdict{"error-not-sticky", fmt.Sprintf("after error %v a second Decode returned %s", err, gen.FromSUT(g2))}
	}
	return nil
}

func TestPrefix(t *testing.T) {
	rapid.Check(t, func(t *rapid.T) {
		v := gen.Value(t, "v", rapid.IntRange(0, 4).Draw(t, "depth"), 600, 8)
		full := ref.Enc(v)
		if len(full) < 2 {
			t.Skip()
		}
		cut := rapid.IntRange(1, len(full)-1).Draw(t, "cut")
		if rapid.Bool().Draw(t, "tailcut") {
			cut = len(full) - rapid.IntRange(1, min(3, len(full)-1)).Draw(t, "back")
		}
		c := prefixCase{Value: v, Cut: cut, Chunks: gen.Chunks(t, "ch", full[:cut]), BufSize: rapid.SampledFrom(bufSizes).Draw(t, "buf")}
		if vd := checkPrefix(c); vd != nil {
			vh.Fail(t, vh.Failure{Property: prop, Part: "prefix", Signature: vd.sig, Message: vd.msg, Case: c})
		}
		vh.Rec().Case("prefix", true, vh.JSON(c))
		vh.Rec().Sample("prefix", true, func() interface{} {
			return map[string]interface{}{"value": v.String(), "cut_at": cut, "of": len(full), "buf_size": c.BufSize}
		})
	})
}

// ---- inline commands decode to the same request as their array form

type inlineCase struct {
	Tokens  [][]byte `json:"tokens"`
	Spaces  []int    `json:"spaces"` // spaces[i] before token i (spaces[0] may be 0), last = trailing
	Chunks  []int    `json:"chunks"`
	BufSize int      `json:"buf_size"`
	// More: further inline commands (tokens separated by one space) on the same connection. Every decoded request is kept
	// until the last one has been decoded and only then compared - a session holds its requests until they are answered.
	More [][][]byte `json:"more,omitempty"`
}

func inlineLine(c inlineCase) []byte {
	var b []byte
	for i, tk := range c.Tokens {
		b = append(b, bytes.Repeat([]byte{' '}, c.Spaces[i])...)
		b = append(b, tk...)
	}
	b = append(b, bytes.Repeat([]byte{' '}, c.Spaces[len(c.Tokens)])...)
	return append(b, '\r', '\n')
}

func checkInline(c inlineCase) (v *verdict) {
	defer func() {
		if p := recover(); p != nil {
			v = &verdict{"codec-panics", fmt.Sprintf("the decoder panics on an inline command: %v", p)}
		}
	}()
	line := inlineLine(c)
	arr := make([]ref.Value, len(c.Tokens))
	for i, tk := range c.Tokens {
		arr[i] = ref.BulkV(tk)
	}
	want := ref.ArrV(arr...)
	// inline form followed by the array form on the same stream: both decode to the same request
	stream := append(append([]byte{}, line...), ref.Enc(want)...)
	var moreWant []ref.Value
	for _, toks := range c.More {
		vs := make([]ref.Value, len(toks))
		for i, tk := range toks {
			if i > 0 {
				stream = append(stream, ' ')
			}
			stream = append(stream, tk...)
			vs[i] = ref.BulkV(tk)
		}
		stream = append(stream, '\r', '\n')
		moreWant = append(moreWant, ref.ArrV(vs...))
	}
	dec := sut.VerifNewDecoder(&gen.ChunkReader{Data: stream, Chunks: c.Chunks}, c.BufSize)
	g1, err := dec.Decode()
	if err != nil {
		return &verdict{"inline-error", fmt.Sprintf("inline %q: %v", clip(line), err)}
	}
	g2, err := dec.Decode()
	if err != nil {
		return &verdict{"array-after-inline-error", fmt.Sprintf("array form after inline %q: %v", clip(line), err)}
	}
	var gm []*sut.RespValue
	for i := range c.More {
		g, err := dec.Decode()
		if err != nil {
			return &verdict{"inline-error", fmt.Sprintf("inline command %d after %q: %v", i+2, clip(line), err)}
		}
		gm = append(gm, g)
	}
	// everything has been decoded: only now are the requests looked at
	v1, v2 := gen.FromSUT(g1), gen.FromSUT(g2)
	if !ref.Equal(v1, want) || !ref.Equal(v2, want) {
		return &verdict{"inline-mismatch", fmt.Sprintf("inline %q decoded to %s, array form to %s, want %s (looked at after %d further inline commands were decoded on the same connection)", clip(line), v1, v2, want, len(c.More))}
	}
	for i, g := range gm {
		if v := gen.FromSUT(g); !ref.Equal(v, moreWant[i]) {
			return &verdict{"inline-mismatch", fmt.Sprintf("inline command %d of the connection decoded to %s, want %s (looked at after all %d were decoded)", i+2, v, moreWant[i], len(c.More)+1)}
		}
	}
	if _, err := dec.Decode(); err != io.EOF {
		return &verdict{"no-clean-eof", fmt.Sprintf("after inline+array: %v", err)}
	}
	return nil
}

func TestInline(t *testing.T) {
	tokByte := rapid.Byte().Filter(func(b byte) bool { return b != ' ' && b != '\r' && b != '\n' })
	rapid.Check(t, func(t *rapid.T) {
		n := rapid.IntRange(1, 8).Draw(t, "n")
		c := inlineCase{BufSize: rapid.SampledFrom(bufSizes).Draw(t, "buf")}
		for i := 0; i < n; i++ {
			maxl := 12
			if rapid.IntRange(0, 9).Draw(t, "long") == 0 {
				maxl = 9000
			}
			tk := rapid.SliceOfN(tokByte, 1, maxl).Draw(t, "tok")
			if i == 0 {
				for tk[0] == '+' || tk[0] == '-' || tk[0] == ':' || tk[0] == '$' || tk[0] == '*' {
					tk[0] = 'x'
				}
			}
			c.Tokens = append(c.Tokens, tk)
			lo := 1
			if i == 0 {
				lo = 0
			}
			c.Spaces = append(c.Spaces, rapid.IntRange(lo, 3).Draw(t, "sp"))
		}
		// leading spaces before the first token only when the first byte stays a non-type byte (space is fine)
		c.Spaces = append(c.Spaces, rapid.IntRange(0, 2).Draw(t, "trail"))
		if rapid.IntRange(0, 2).Draw(t, "more") == 0 {
			for k, m := 0, rapid.IntRange(1, 5).Draw(t, "nmore"); k < m; k++ {
				var toks [][]byte
				for j, nt := 0, rapid.IntRange(1, 6).Draw(t, "mtoks"); j < nt; j++ {
					tk := rapid.SliceOfN(tokByte, 1, 8).Draw(t, "mtok")
					if j == 0 {
						for tk[0] == '+' || tk[0] == '-' || tk[0] == ':' || tk[0] == '$' || tk[0] == '*' {
							tk[0] = 'y'
						}
					}
					toks = append(toks, tk)
				}
				c.More = append(c.More, toks)
			}
		}
		line := inlineLine(c)
		c.Chunks = gen.Chunks(t, "ch", append(append([]byte{}, line...), '*'))
		if vd := checkInline(c); vd != nil {
			vh.Fail(t, vh.Failure{Property: prop, Part: "inline", Signature: vd.sig, Message: vd.msg, Case: c})
		}
		nt := len(c.Chunks) >= 2 || len(line) > c.BufSize
		vh.Rec().Case("inline", nt, vh.JSON(c))
		vh.Rec().Sample("inline", nt, func() interface{} {
			return map[string]interface{}{"line": string(clip(line)), "tokens": len(c.Tokens), "buf_size": c.BufSize, "reads": len(c.Chunks)}
		})
	})
}

// ---- integer helpers

type intCase struct {
	Text []byte `json:"text,omitempty"`
	N    int64  `json:"n"`
	Mode string `json:"mode"`
}

func checkBtoi(s []byte) *verdict {
	g, gerr := sut.VerifBtoi64(s)
	w, werr := strconv.ParseInt(string(s), 10, 64)
	if gerr == nil {
		// anything accepted must be a number strconv accepts, with the same value
		if werr != nil || g != w {
			return &verdict{"btoi-garbage-accepted", fmt.Sprintf("btoi64(%q) = %d, but ParseInt gives (%d, %v)", s, g, w, werr)}
		}
		return nil
	}
	// canonical decimal text must be accepted
	if werr == nil && strconv.FormatInt(w, 10) == string(s) {
		return &verdict{"btoi-canonical-rejected", fmt.Sprintf("btoi64(%q) failed: %v", s, gerr)}
	}
	return nil
}

func checkItoa(n int64) *verdict {
	if g, w := sut.VerifItoa(n), strconv.FormatInt(n, 10); g != w {
		return &verdict{"itoa-mismatch", fmt.Sprintf("itoa(%d) = %q, want %q", n, g, w)}
	}
	g, err := sut.VerifBtoi64([]byte(strconv.FormatInt(n, 10)))
	if err != nil || g != n {
		return &verdict{"btoi-canonical-mismatch", fmt.Sprintf("btoi64(%d) = (%d, %v)", n, g, err)}
	}
	return nil
}

// TestIntsExhaustive: all strings of length <= 5 over {0,1,9,+,-,space,a} and all ints in [-70000, 70000].
func TestIntsExhaustive(t *testing.T) {
	alpha := []byte("019+- a")
	var total int64
	var rec func(p []byte, d int)
	rec = func(p []byte, d int) {
		total++
		if vd := checkBtoi(p); vd != nil {
			vh.Fail(t, vh.Failure{Property: prop, Part: "ints", Signature: vd.sig, Message: vd.msg, Case: intCase{Text: append([]byte{}, p...), Mode: "btoi"}})
		}
		if d == 5 {
			return
		}
		for _, c := range alpha {
			rec(append(p, c), d+1)
		}
	}
	rec(make([]byte, 0, 8), 0)
	for n := int64(-70000); n <= 70000; n++ {
		total++
		if vd := checkItoa(n); vd != nil {
			vh.Fail(t, vh.Failure{Property: prop, Part: "ints", Signature: vd.sig, Message: vd.msg, Case: intCase{N: n, Mode: "itoa"}})
		}
	}
	vh.Rec().CaseN("ints", total, total)
	vh.Rec().Exhaustive("ints")
	vh.Rec().Sample("ints", true, func() interface{} { return map[string]interface{}{"text": "-19", "ints": "[-70000,70000]"} })
}

func TestIntsRandom(t *testing.T) {
	rapid.Check(t, func(t *rapid.T) {
		n := gen.Int64(t, "n")
		if vd := checkItoa(n); vd != nil {
			vh.Fail(t, vh.Failure{Property: prop, Part: "ints", Signature: vd.sig, Message: vd.msg, Case: intCase{N: n, Mode: "itoa"}})
		}
		s := rapid.SliceOfN(rapid.SampledFrom([]byte("0123456789+- a")), 0, 22).Draw(t, "s")
		if vd := checkBtoi(s); vd != nil {
			vh.Fail(t, vh.Failure{Property: prop, Part: "ints", Signature: vd.sig, Message: vd.msg, Case: intCase{Text: s, Mode: "btoi"}})
		}
		vh.Rec().Case("ints-random", true, strconv.FormatInt(n, 10)+"|"+string(s))
		vh.Rec().Sample("ints-random", true, func() interface{} { return map[string]interface{}{"n": n, "text": string(s)} })
	})
}

// ---- native fuzz target (thorough): differential against the reference parser

func fuzzOne(data []byte, chunkSeed uint64, bufSel uint8) *verdict {
	vs, rest, perr := ref.ParseAll(data)
	if perr != nil {
		return nil // malformed by the reference: only C11's no-crash claim applies
	}
	// the statement is about canonical bytes: inputs the reference accepts but would encode differently
	// (leading zeros or '+' in lengths and integers) are outside it
	var canon []byte
	for _, v := range vs {
		canon = ref.Encode(canon, v)
	}
	if !bytes.Equal(canon, data[:len(data)-len(rest)]) {
		return nil
	}
	// the proxy treats a non-type first byte as an inline command, also inside arrays; the
	// reference accepted the input, so no such byte starts a message here.
	buf := bufSizes[int(bufSel)%len(bufSizes)]
	// derive chunk sizes from the seed (deterministic)
	var chunks []int
	left := len(data)
	x := chunkSeed | 1
	for left > 0 {
		x ^= x << 13
		x ^= x >> 7
		x ^= x << 17
		n := int(x%9) + 1
		if x%5 == 0 {
			n = int(x%4096) + 1
		}
		if n > left {
			n = left
		}
		chunks = append(chunks, n)
		left -= n
	}
	dec := sut.VerifNewDecoder(&gen.ChunkReader{Data: data, Chunks: chunks}, buf)
	for i, want := range vs {
		g, err := dec.Decode()
		if err != nil {
			return &verdict{"fuzz-decode-error", fmt.Sprintf("message %d (%s): %v", i, want, err)}
		}
		if gv := gen.FromSUT(g); !ref.Equal(gv, want) {
			return &verdict{"fuzz-decode-mismatch", fmt.Sprintf("message %d: decoded %s want %s", i, gv, want)}
		}
	}
	g, err := dec.Decode()
	if len(rest) == 0 {
		if err != io.EOF {
			return &verdict{"fuzz-no-clean-eof", fmt.Sprintf("got (%s, %v) after the last message", gen.FromSUT(g), err)}
		}
	} else if err == nil {
		return &verdict{"fuzz-prefix-decoded", fmt.Sprintf("incomplete tail %q decoded to %s", clip(rest), gen.FromSUT(g))}
	}
	return nil
}

type fuzzCase struct {
	Data      []byte `json:"data"`
	ChunkSeed uint64 `json:"chunk_seed"`
	BufSel    uint8  `json:"buf_sel"`
}

func FuzzDecode(f *testing.F) {
	f.Add([]byte("*2\r\n$3\r\nfoo\r\n:-12\r\n+OK\r\n-ERR x\r\n$-1\r\n*-1\r\n*0\r\n$0\r\n\r\n"), uint64(1), uint8(0))
	f.Add([]byte(":9223372036854775807\r\n:-9223372036854775808\r\n"), uint64(7), uint8(1))
	f.Add([]byte("*1\r\n*1\r\n*1\r\n$1\r\na\r\n"), uint64(3), uint8(2))
	f.Add([]byte{}, uint64(0), uint8(0))
	f.Fuzz(func(t *testing.T, data []byte, chunkSeed uint64, bufSel uint8) {
		if vd := fuzzOne(data, chunkSeed, bufSel); vd != nil {
			vh.WriteFailure(vh.Failure{Property: prop, Part: "fuzz", Signature: vd.sig, Message: vd.msg, Case: fuzzCase{data, chunkSeed, bufSel}})
			t.Fatalf("%s: %s", vd.sig, vd.msg)
		}
	})
}

func min(a, b int) int {
	if a < b {
		return a
	}
	return b
}

func init() {
	vh.RegisterReplay("roundtrip", func(t *testing.T, raw json.RawMessage) {
		var c rtCase
		if err := json.Unmarshal(raw, &c); err != nil {
			t.Fatal(err)
		}
		if _, v := checkRoundTrip(c); v != nil {
			vh.Fail(t, vh.Failure{Property: prop, Part: "roundtrip", Signature: v.sig, Message: v.msg, Case: c})
		}
	})
	vh.RegisterReplay("longstream", func(t *testing.T, raw json.RawMessage) {
		var c rtCase
		if err := json.Unmarshal(raw, &c); err != nil {
			t.Fatal(err)
		}
		if _, v := checkRoundTrip(c); v != nil {
			vh.Fail(t, vh.Failure{Property: prop, Part: "longstream", Signature: v.sig, Message: v.msg, Case: c})
		}
	})
	vh.RegisterReplay("prefix", func(t *testing.T, raw json.RawMessage) {
		var c prefixCase
		if err := json.Unmarshal(raw, &c); err != nil {
			t.Fatal(err)
		}
		if v := checkPrefix(c); v != nil {
			vh.Fail(t, vh.Failure{Property: prop, Part: "prefix", Signature: v.sig, Message: v.msg, Case: c})
		}
	})
	vh.RegisterReplay("inline", func(t *testing.T, raw json.RawMessage) {
		var c inlineCase
		if err := json.Unmarshal(raw, &c); err != nil {
			t.Fatal(err)
		}
		if v := checkInline(c); v != nil {
			vh.Fail(t, vh.Failure{Property: prop, Part: "inline", Signature: v.sig, Message: v.msg, Case: c})
		}
	})
	vh.RegisterReplay("ints", func(t *testing.T, raw json.RawMessage) {
		var c intCase
		if err := json.Unmarshal(raw, &c); err != nil {
			t.Fatal(err)
		}
		var v *verdict
		if c.Mode == "itoa" {
			v = checkItoa(c.N)
		} else {
			v = checkBtoi(c.Text)
		}
		if v != nil {
			vh.Fail(t, vh.Failure{Property: prop, Part: "ints", Signature: v.sig, Message: v.msg, Case: c})
		}
	})
	vh.RegisterReplay("fuzz", func(t *testing.T, raw json.RawMessage) {
		var c fuzzCase
		if err := json.Unmarshal(raw, &c); err != nil {
			t.Fatal(err)
		}
		if v := fuzzOne(c.Data, c.ChunkSeed, c.BufSel); v != nil {
			vh.Fail(t, vh.Failure{Property: prop, Part: "fuzz", Signature: v.sig, Message: v.msg, Case: c})
		}
	})
}

func TestReplay(t *testing.T) { vh.RunReplay(t) }

// ---- long streams through one decoder / one encoder: state that leaks from one message into later ones

func genLongStream(t *rapid.T) rtCase {
	// a small palette of shapes that take the early-return paths of the decoder, repeated many times
	palette := []ref.Value{ref.NullArr(), ref.NullBulk(), ref.ArrV(), ref.BulkV(nil), ref.IntV(0), ref.SimpleV(""), ref.ErrV("ERR x"),
		ref.ArrV(ref.NullArr()), ref.ArrV(ref.NullBulk(), ref.NullArr(), ref.ArrV()), ref.ArrV(ref.ArrV(ref.ArrV(ref.NullArr(), ref.IntV(-1)))),
		ref.ArrV(ref.BulkV([]byte("GET")), ref.BulkV([]byte("a")))}
	for i, k := 0, rapid.IntRange(0, 3).Draw(t, "extra"); i < k; i++ {
		palette = append(palette, gen.Value(t, "pv", rapid.IntRange(0, 4).Draw(t, "pdepth"), 40, 6))
	}
	// weights: a few shapes dominate each stream
	var hot []int
	for i, k := 0, rapid.IntRange(1, 3).Draw(t, "nhot"); i < k; i++ {
		hot = append(hot, rapid.IntRange(0, len(palette)-1).Draw(t, "hot"))
	}
	n := rapid.IntRange(100, 1500).Draw(t, "n")
	vals := make([]ref.Value, n)
	var stream []byte
	for i := range vals {
		if rapid.IntRange(0, 9).Draw(t, "usehot") < 7 {
			vals[i] = palette[hot[rapid.IntRange(0, len(hot)-1).Draw(t, "h")]]
		} else {
			vals[i] = palette[rapid.IntRange(0, len(palette)-1).Draw(t, "p")]
		}
		stream = ref.Encode(stream, vals[i])
	}
	var chunks []int
	if rapid.Bool().Draw(t, "chunked") {
		chunks = gen.Chunks(t, "ch", stream)
	}
	return rtCase{Values: vals, Chunks: chunks, BufSize: rapid.SampledFrom(bufSizes).Draw(t, "buf"), EncBuf: rapid.SampledFrom([]int{16, 64, 4096, 8192}).Draw(t, "encbuf")}
}

func TestLongStream(t *testing.T) {
	rapid.Check(t, func(t *rapid.T) {
		c := genLongStream(t)
		_, v := checkRoundTrip(c)
		if v != nil {
			vh.Fail(t, vh.Failure{Property: prop, Part: "longstream", Signature: v.sig, Message: v.msg, Case: c})
		}
		nulls := 0
		for _, x := range c.Values {
			if x.K == ref.Arr && x.Null {
				nulls++
			}
		}
		vh.Rec().Case("longstream", true, vh.JSON(c))
		if nulls >= 128 {
			vh.Rec().Class("longstream", ">=128_null_arrays_on_one_decoder")
		}
		if len(c.Values) >= 1000 {
			vh.Rec().Class("longstream", ">=1000_messages")
		}
		vh.Rec().Sample("longstream", false, func() interface{} {
			return map[string]interface{}{"messages": len(c.Values), "null_arrays": nulls, "buf_size": c.BufSize, "chunks": len(c.Chunks)}
		})
	})
}
