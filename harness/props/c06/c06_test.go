// Package c06 decides property C06: TCP connections go only to current healthy
// hosts, per the balancing policy.
package c06

import (
	"encoding/json"
	"fmt"
	"net"
	"sort"
	"strings"
	"sync"
	"testing"
	"time"

	"github.com/samaritan-proxy/samaritan/host"
	hcpb "github.com/samaritan-proxy/samaritan/pb/config/hc"
	"github.com/samaritan-proxy/samaritan/pb/config/service"
	"github.com/samaritan-proxy/samaritan/proc/verifexport"
	"pgregory.net/rapid"

	"verif/harness/tcpsim"
	"verif/harness/vh"
)

const prop = "C06"

func TestMain(m *testing.M) { vh.Main(m) }

type verdict struct{ sig, msg string }

// ---- policy level

type rrCase struct {
	Hosts      int `json:"hosts"`
	K          int `json:"k"`
	Goroutines int `json:"goroutines"`
	Warmup     int `json:"warmup"` // picks before the measured window (the window may start anywhere)
	// WarmHosts: the warm-up picks are made against a list of this size (0: the same list) - the usable list changed size
	// (host added / removed / health flip) right before the measured window; Rounds repeats warm-up + window on one balancer.
	WarmHosts int `json:"warm_hosts,omitempty"`
	Rounds    int `json:"rounds,omitempty"`
}

func checkRR(c rrCase) *verdict {
	hs := make([]*host.Host, c.Hosts)
	for i := range hs {
		hs[i] = host.New(fmt.Sprintf("10.0.0.%d:80", i+1))
	}
	warm := hs
	if c.WarmHosts > 0 {
		warm = make([]*host.Host, c.WarmHosts)
		for i := range warm {
			if i < len(hs) {
				warm[i] = hs[i]
			} else {
				warm[i] = host.New(fmt.Sprintf("10.0.1.%d:80", i+1))
			}
		}
	}
	lb := verifexport.NewBalancer(service.LoadBalancePolicy_ROUND_ROBIN)
	rounds := c.Rounds
	if rounds < 1 {
		rounds = 1
	}
	for r := 0; r < rounds; r++ {
		for i := 0; i < c.Warmup; i++ {
			lb.PickHost(warm)
		}
		total := c.Hosts * c.K
		counts := make([]map[*host.Host]int, c.Goroutines)
		var wg sync.WaitGroup
		per := total / c.Goroutines
		rem := total % c.Goroutines
		start := make(chan struct{})
		for g := 0; g < c.Goroutines; g++ {
			n := per
			if g < rem {
				n++
			}
			counts[g] = map[*host.Host]int{}
			wg.Add(1)
			go func(g, n int) {
				defer wg.Done()
				<-start // the first picks against the list arrive together
				for i := 0; i < n; i++ {
					h := lb.PickHost(hs)
					counts[g][h]++
				}
			}(g, n)
		}
		close(start)
		wg.Wait()
		sum := map[*host.Host]int{}
		for _, m := range counts {
			for h, n := range m {
				sum[h] += n
			}
		}
		for i, h := range hs {
			if sum[h] != c.K {
				return &verdict{"round-robin-unfair", fmt.Sprintf("round %d: %d hosts (the picks before were made against %d), %d consecutive selections by %d goroutines: host %d was picked %d times, want exactly %d", r, c.Hosts, len(warm), total, c.Goroutines, i, sum[h], c.K)}
			}
		}
		if len(sum) != c.Hosts {
			return &verdict{"pick-not-a-member", "round robin picked a host outside the list"}
		}
	}
	return nil
}

func TestRoundRobin(t *testing.T) {
	rapid.Check(t, func(t *rapid.T) {
		c := rrCase{Hosts: rapid.IntRange(1, 16).Draw(t, "hosts"), K: rapid.IntRange(1, 50).Draw(t, "k"), Goroutines: rapid.IntRange(1, 16).Draw(t, "g"), Warmup: rapid.IntRange(0, 40).Draw(t, "warmup")}
		if rapid.Bool().Draw(t, "resized") {
			c.WarmHosts, c.Rounds = rapid.IntRange(1, 17).Draw(t, "warmhosts"), rapid.IntRange(1, 30).Draw(t, "rounds")
			if c.Warmup == 0 {
				c.Warmup = 1
			}
		}
		if v := checkRR(c); v != nil {
			vh.Fail(t, vh.Failure{Property: prop, Part: "roundrobin", Signature: v.sig, Message: v.msg, Case: c})
		}
		vh.Rec().Case("roundrobin", c.Goroutines > 1 && c.Hosts > 1, vh.JSON(c))
		if c.WarmHosts > 0 && c.WarmHosts != c.Hosts && c.Goroutines > 1 {
			vh.Rec().Class("roundrobin", "list_resized_before_concurrent_window")
		}
		vh.Rec().Sample("roundrobin", c.Goroutines > 1, func() interface{} { return c })
	})
}

type pickCase struct {
	Policy int      `json:"policy"` // 1 random, 2 least connection (service.LoadBalancePolicy values)
	Conns  []uint64 `json:"conns"`  // per host active connection count
	Rands  []int    `json:"rands"`  // scripted randInt values
}

var randMu sync.Mutex

func checkPick(c pickCase) *verdict {
	randMu.Lock()
	defer randMu.Unlock()
	hs := make([]*host.Host, len(c.Conns))
	for i := range hs {
		hs[i] = host.New(fmt.Sprintf("10.0.0.%d:80", i+1))
		for k := uint64(0); k < c.Conns[i]; k++ {
			hs[i].IncConnCount()
		}
	}
	idx := 0
	old := verifexport.SetRandInt(func() int {
		v := c.Rands[idx%len(c.Rands)]
		idx++
		return v
	})
	defer verifexport.SetRandInt(old)
	pol := service.LoadBalancePolicy_RANDOM
	if c.Policy == 2 {
		pol = service.LoadBalancePolicy_LEAST_CONNECTION
	}
	lb := verifexport.NewBalancer(pol)
	var got *host.Host
	var panicked interface{}
	func() {
		defer func() { panicked = recover() }()
		got = lb.PickHost(hs)
	}()
	if panicked != nil {
		return &verdict{"pick-panics", fmt.Sprintf("%s with %d hosts and random values %v panics: %v", lb.Name(), len(hs), c.Rands, panicked)}
	}
	if len(hs) == 0 {
		if got != nil {
			return &verdict{"pick-from-empty-list", "a host was picked from an empty list"}
		}
		return nil
	}
	member := -1
	for i, h := range hs {
		if h == got {
			member = i
		}
	}
	if member < 0 {
		return &verdict{"pick-not-a-member", fmt.Sprintf("%s picked %v which is not in the candidate list", lb.Name(), got)}
	}
	if c.Policy == 2 {
		a := hs[c.Rands[0]%len(hs)]
		b := hs[c.Rands[1%len(c.Rands)]%len(hs)]
		if got != a && got != b {
			return &verdict{"least-conn-not-a-sample", fmt.Sprintf("least connection picked host %d which is neither of its two samples", member)}
		}
		other := a
		if got == a {
			other = b
		}
		if got.ConnCount() > other.ConnCount() {
			return &verdict{"least-conn-prefers-busier", fmt.Sprintf("least connection picked the host with %d connections over the one with %d", got.ConnCount(), other.ConnCount())}
		}
	}
	return nil
}

func TestPick(t *testing.T) {
	rapid.Check(t, func(t *rapid.T) {
		c := pickCase{Policy: rapid.IntRange(1, 2).Draw(t, "policy")}
		c.Conns = rapid.SliceOfN(rapid.Uint64Range(0, 5), 0, 8).Draw(t, "conns")
		c.Rands = rapid.SliceOfN(rapid.OneOf(rapid.IntRange(0, 20), rapid.IntRange(0, 1<<62)), 2, 2).Draw(t, "rands")
		if v := checkPick(c); v != nil {
			vh.Fail(t, vh.Failure{Property: prop, Part: "pick", Signature: v.sig, Message: v.msg, Case: c})
		}
		nt := len(c.Conns) >= 2
		vh.Rec().Case("pick", nt, vh.JSON(c))
		vh.Rec().Sample("pick", nt, func() interface{} { return c })
	})
}

// ---- end to end

type eop struct {
	Op     string `json:"op"` // add, remove, replace, down, up, connect, closeconn
	Host   int    `json:"host,omitempty"`
	Backup bool   `json:"backup,omitempty"`
	Hosts  []int  `json:"hosts,omitempty"` // replace: host*2+backup
	N      int    `json:"n,omitempty"`
	Conc   bool   `json:"concurrent,omitempty"`
	// config: the new balancing policy, and the new health check (HC 0: none, 1: TCP checker with Fall / Rise)
	Policy int `json:"policy,omitempty"`
	HC     int `json:"hc,omitempty"`
	Fall   int `json:"fall,omitempty"`
	Rise   int `json:"rise,omitempty"`
}

type e2eCase struct {
	Policy int   `json:"policy"` // 0 rr, 1 random, 2 least conn
	Fall   int   `json:"fall"`
	Rise   int   `json:"rise"`
	Ops    []eop `json:"ops"`
}

const (
	hcInterval = 15 * time.Millisecond
	nBackends  = 5
)

type member struct {
	backup bool
	obj    *host.Host // the object handed to the processor for this member (its health flag is what the proxy goes by)
}

type liveConn struct {
	c       net.Conn
	backend int
}

func checkE2E(c e2eCase) (nt bool, v *verdict) {
	backends := make([]*tcpsim.Backend, nBackends)
	type acc struct {
		backend int
		conn    net.Conn
	}
	var accMu sync.Mutex
	var accepted []acc
	for i := range backends {
		i := i
		b, err := tcpsim.NewBackend(func(bc net.Conn, n int) {
			accMu.Lock()
			accepted = append(accepted, acc{i, bc})
			accMu.Unlock()
			defer bc.Close()
			bc.Write([]byte{byte('A' + i)}) // tell the client which backend it reached
			buf := make([]byte, 256)
			for {
				if _, err := bc.Read(buf); err != nil {
					return
				}
			}
		})
		if err != nil {
			return false, nil
		}
		backends[i] = b
		defer b.Close()
	}
	hc := &hcpb.HealthCheck{Interval: hcInterval, Timeout: 200 * time.Millisecond, FallThreshold: uint32(c.Fall), RiseThreshold: uint32(c.Rise),
		Checker: &hcpb.HealthCheck_TcpChecker{TcpChecker: &hcpb.TCPChecker{}}}
	px, err := tcpsim.Start(tcpsim.Opts{Policy: service.LoadBalancePolicy(c.Policy), HealthCheck: hc, ConnectTimeout: 3 * time.Second})
	if err != nil {
		return false, &verdict{"proxy-start", err.Error()}
	}
	defer px.Stop(20 * time.Second)
	members := map[int]*member{}
	up := map[int]bool{}
	for i := range backends {
		up[i] = true
	}
	var lastFlip time.Time
	flipAt := map[int]time.Time{}
	var live []*liveConn
	defer func() {
		for _, lc := range live {
			lc.c.Close()
		}
	}()
	// every host object ever handed to the processor: the per-host connection count (the input of least-connection) must
	// come back to 0 for each of them once its connections are gone
	var handed []*host.Host
	mk := func(i int, backup bool) *host.Host {
		t := host.TypeMain
		if backup {
			t = host.TypeBackup
		}
		h := host.NewWithType(backends[i].Addr, t) // fresh objects, as the controller passes them
		handed = append(handed, h)
		return h
	}
	policy, hcOn, fall, rise := c.Policy, true, c.Fall, c.Rise
	detection := 2*time.Duration(maxInt(c.Fall, c.Rise)+3)*hcInterval + 250*time.Millisecond // generous: the checker shares a busy machine
	var settleStuck string
	settle := func() {
		if d := time.Until(lastFlip.Add(detection)); d > 0 {
			time.Sleep(d)
		}
		if !hcOn {
			return
		}
		// the detection window is a lower bound on a busy machine: wait until the health flag of every member's object (the
		// one handed to the processor) says what the backend's state is - the checker's rounds may be late, not absent
		deadline := time.Now().Add(10 * time.Second)
		for {
			settleStuck = ""
			for i, m := range members {
				if m.obj != nil && m.obj.IsHealthy() != up[i] {
					settleStuck = fmt.Sprintf("member %d (%s) has been up=%v for %v but its health flag is still %v", i, backends[i].Addr, up[i], time.Since(flipAt[i]).Round(time.Millisecond), m.obj.IsHealthy())
				}
			}
			if settleStuck == "" || time.Now().After(deadline) {
				return
			}
			time.Sleep(5 * time.Millisecond)
		}
	}
	// usable set by the statement: healthy members of the preferred tier
	usable := func() []int {
		var main, backup []int
		for i, m := range members {
			if !up[i] && hcOn {
				continue // without a health check every member counts as healthy
			}
			if m.backup {
				backup = append(backup, i)
			} else {
				main = append(main, i)
			}
		}
		sort.Ints(main)
		sort.Ints(backup)
		if len(main) > 0 {
			return main
		}
		return backup
	}
	var liveMu sync.Mutex
	connect := func(where string) (int, *verdict) {
		cl, err := net.DialTimeout("tcp", px.Addr, 2*time.Second)
		if err != nil {
			return -1, &verdict{"client-dial", fmt.Sprintf("%s: %v", where, err)}
		}
		cl.SetReadDeadline(time.Now().Add(5 * time.Second))
		b := make([]byte, 1)
		n, _ := cl.Read(b)
		if n == 0 {
			cl.Close()
			return -1, nil // closed by the proxy: no usable host (or dial to the backend failed)
		}
		bi := int(b[0] - 'A')
		liveMu.Lock() // connect is also called from concurrent goroutines
		live = append(live, &liveConn{cl, bi})
		liveMu.Unlock()
		return bi, nil
	}
	for i, o := range c.Ops {
		where := fmt.Sprintf("step %d (%s)", i, vh.JSON(o))
		h := o.Host % nBackends
		switch o.Op {
		case "retype":
			// the address is announced again with the other type (a fresh object through the public OnSvcHostAdd)
			m := members[h]
			if m == nil {
				continue
			}
			m.backup = !m.backup
			m.obj = mk(h, m.backup)
			px.P.OnSvcHostAdd([]*host.Host{m.obj})
			if !up[h] {
				lastFlip = time.Now() // the replacing object starts healthy: a host that is down must first be detected again
			}
			nt = true
			// connections established to the replaced object may be closed by the proxy; forget them
			var keep []*liveConn
			for _, lc := range live {
				if lc.backend != h {
					keep = append(keep, lc)
				} else {
					lc.c.Close()
				}
			}
			live = keep
		case "add":
			if members[h] != nil {
				continue // the config store never adds a present address again
			}
			members[h] = &member{backup: o.Backup, obj: mk(h, o.Backup)}
			px.P.OnSvcHostAdd([]*host.Host{members[h].obj})
			if !up[h] {
				lastFlip = time.Now() // a host that is down when added must first be detected
			}
		case "remove":
			m := members[h]
			if m == nil {
				continue
			}
			delete(members, h)
			hadConn := false
			for _, lc := range live {
				if lc.backend == h {
					hadConn = true
				}
			}
			px.P.OnSvcHostRemove([]*host.Host{mk(h, m.backup)})
			// established connections to the OTHER hosts are none of this removal's business: they must stay open
			// (a backend that was stopped keeps its established connections, so only the proxy can have closed one)
			{
				var others []*liveConn
				for _, lc := range live {
					if lc.backend != h && len(others) < 8 {
						others = append(others, lc)
					}
				}
				cut := make([]bool, len(others))
				var swg sync.WaitGroup
				for k, lc := range others {
					swg.Add(1)
					go func(k int, lc *liveConn) {
						defer swg.Done()
						lc.c.SetReadDeadline(time.Now().Add(40 * time.Millisecond))
						_, err := lc.c.Read(make([]byte, 16))
						if err != nil {
							if ne, ok := err.(net.Error); !ok || !ne.Timeout() {
								cut[k] = true
							}
						}
					}(k, lc)
				}
				swg.Wait()
				for k, lc := range others {
					if cut[k] {
						return nt, &verdict{"connection-to-another-host-cut-by-removal", fmt.Sprintf("%s: host %s was removed; an established connection relayed to host %s, which was not touched, was closed", where, backends[h].Addr, backends[lc.backend].Addr)}
					}
				}
				if len(others) > 0 {
					nt = true
				}
			}
			if hadConn {
				nt = true
				// established connections to the removed host are closed
				var keep []*liveConn
				for _, lc := range live {
					if lc.backend != h {
						keep = append(keep, lc)
						continue
					}
					lc.c.SetReadDeadline(time.Now().Add(5 * time.Second))
					buf := make([]byte, 16)
					_, err := lc.c.Read(buf)
					if ne, ok := err.(net.Error); ok && ne.Timeout() {
						return nt, &verdict{"connection-survives-host-removal", fmt.Sprintf("%s: an established connection to the removed host %s was still open 5s after OnSvcHostRemove returned", where, backends[h].Addr)}
					}
					lc.c.Close()
				}
				live = keep
			}
		case "replace":
			if len(o.Hosts) == 0 {
				continue
			}
			members = map[int]*member{}
			var hs []*host.Host
			for _, x := range o.Hosts {
				hi := (x / 2) % nBackends
				if members[hi] != nil {
					continue
				}
				members[hi] = &member{backup: x%2 == 1, obj: mk(hi, x%2 == 1)}
				hs = append(hs, members[hi].obj)
			}
			px.P.OnSvcAllHostReplace(hs)
			lastFlip = time.Now()
			// ReplaceAll retires every host object, those of addresses that stay included (the new list consists of new
			// objects), so the proxy may close any established connection; forget them all here
			for _, lc := range live {
				lc.c.Close()
			}
			live = nil
		case "down":
			if up[h] {
				backends[h].Stop(false)
				up[h] = false
				lastFlip = time.Now()
				flipAt[h] = lastFlip
				if members[h] != nil {
					nt = true
				}
			}
		case "up":
			if !up[h] {
				backends[h].Start()
				up[h] = true
				lastFlip = time.Now()
				flipAt[h] = lastFlip
			}
		case "slowremove":
			// a member is removed while connects to it are in flight: its address is black-holed (SYNs dropped), connections
			// arrive and some are picked for it, the host is removed, then the backend accepts again and the pending connects
			// complete (SYN retransmission, ~1 s). A connection that ends up relayed to the removed host must be closed.
			m := members[h]
			if m == nil || !up[h] || len(members) < 1 {
				continue
			}
			end, err := backends[h].Blackhole()
			if err != nil {
				backends[h].Start()
				continue
			}
			type res struct {
				c  net.Conn
				bi int
			}
			k := 2*len(members) + 1
			out := make(chan res, k)
			for j := 0; j < k; j++ {
				go func() {
					cl, err := net.DialTimeout("tcp", px.Addr, 2*time.Second)
					if err != nil {
						out <- res{nil, -1}
						return
					}
					cl.SetReadDeadline(time.Now().Add(6 * time.Second))
					b := make([]byte, 1)
					if n, _ := cl.Read(b); n == 1 {
						out <- res{cl, int(b[0] - 'A')}
						return
					}
					cl.Close()
					out <- res{nil, -1}
				}()
			}
			time.Sleep(60 * time.Millisecond)
			delete(members, h)
			px.P.OnSvcHostRemove([]*host.Host{mk(h, m.backup)})
			end()
			backends[h].Start()
			lastFlip = time.Now()
			flipAt[h] = lastFlip
			nt = true
			var toRemoved []net.Conn
			for j := 0; j < k; j++ {
				r := <-out
				switch {
				case r.c == nil:
				case r.bi == h:
					toRemoved = append(toRemoved, r.c)
				default:
					live = append(live, &liveConn{r.c, r.bi})
				}
			}
			for _, cl := range toRemoved {
				cl.SetReadDeadline(time.Now().Add(5 * time.Second))
				_, err := cl.Read(make([]byte, 16))
				cl.Close()
				if ne, ok := err.(net.Error); ok && ne.Timeout() {
					return nt, &verdict{"connection-survives-host-removal", fmt.Sprintf("%s: host %s was removed while the connect to it was in flight; the connection that was then relayed to it was still open 5s later", where, backends[h].Addr)}
				}
			}
			// established connections to the removed host are closed as well; forget them
			{
				var keep []*liveConn
				for _, lc := range live {
					if lc.backend != h {
						keep = append(keep, lc)
					} else {
						lc.c.Close()
					}
				}
				live = keep
			}
		case "config":
			// the service configuration is updated at run time: another balancing policy and / or another health check
			// (other thresholds, or none at all: then every member counts as healthy, as for a service started without one)
			var nhc *hcpb.HealthCheck
			if o.HC > 0 {
				nhc = &hcpb.HealthCheck{Interval: hcInterval, Timeout: 200 * time.Millisecond, FallThreshold: uint32(o.Fall), RiseThreshold: uint32(o.Rise),
					Checker: &hcpb.HealthCheck_TcpChecker{TcpChecker: &hcpb.TCPChecker{}}}
			}
			ncfg := tcpsim.Config(tcpsim.Opts{Policy: service.LoadBalancePolicy(o.Policy), HealthCheck: nhc})
			ncfg.Listener = px.P.Config().Listener
			var uerr error
			var pan interface{}
			func() {
				// the controller calls this from its event loop: a panic there ends the whole process
				defer func() { pan = recover() }()
				uerr = px.P.OnSvcConfigUpdate(ncfg)
			}()
			if pan != nil {
				return nt, &verdict{"config-update-panics", fmt.Sprintf("%s: OnSvcConfigUpdate panics: %v", where, pan)}
			}
			if uerr != nil {
				return nt, &verdict{"config-update-rejected", fmt.Sprintf("%s: %v", where, uerr)}
			}
			policy = o.Policy
			if o.HC > 0 {
				hcOn, fall, rise = true, o.Fall, o.Rise
				detection = 2*time.Duration(maxInt(fall, rise)+3)*hcInterval + 250*time.Millisecond
			} else {
				hcOn = false
			}
			lastFlip = time.Now()
			nt = true
		case "blip":
			// a member's backend is unreachable for a moment, shorter than the health checker needs to notice: connections
			// arriving meanwhile may be picked for it and fail (or be served by another member); afterwards everything is as before
			if !up[h] || members[h] == nil {
				continue
			}
			backends[h].Stop(false)
			for k := 0; k < o.N; k++ {
				if _, v := connect(where); v != nil {
					return nt, v
				}
			}
			backends[h].Start()
			lastFlip = time.Now()
			flipAt[h] = lastFlip
			nt = true
		case "closeconn":
			if len(live) > 0 {
				k := o.N % len(live)
				live[k].c.Close()
				live = append(live[:k], live[k+1:]...)
			}
		case "burst":
			// connections opened at once, without waiting for the health state to converge: some may be dialled to a backend
			// that is down and not yet detected. Nothing is judged here but that the survivors are relayed; the failed dials
			// matter to the connection-count oracle at the end.
			for k := 0; k < o.N; k++ {
				if _, v := connect(where); v != nil {
					return nt, v
				}
			}
		case "connect":
			settle() // health state has converged: the usable set is well defined
			if settleStuck != "" {
				return nt, &verdict{"health-state-never-converges", fmt.Sprintf("%s: %s (10 s after the detection window of %v)", where, settleStuck, detection)}
			}
			us := usable()
			n := o.N
			allUp := true
			for _, u := range us {
				if !up[u] {
					allUp = false
				}
			}
			if policy == 0 && len(us) > 0 {
				n = len(us) * (1 + o.N%3) // n*k consecutive selections
			}
			counts := map[int]int{}
			var cv *verdict
			if o.Conc && n > 1 {
				var wg sync.WaitGroup
				var mu sync.Mutex
				for k := 0; k < n; k++ {
					wg.Add(1)
					go func() {
						defer wg.Done()
						bi, v := connect(where)
						mu.Lock()
						if v != nil {
							cv = v
						}
						counts[bi]++
						mu.Unlock()
					}()
				}
				wg.Wait()
			} else {
				for k := 0; k < n; k++ {
					bi, v := connect(where)
					if v != nil {
						cv = v
					}
					counts[bi]++
				}
			}
			if cv != nil {
				return nt, cv
			}
			inUsable := map[int]bool{}
			for _, u := range us {
				inUsable[u] = true
			}
			for bi, k := range counts {
				if bi < 0 {
					if len(us) > 0 && allUp { // (without a health check a member that is down is picked and cannot be reached)
						return nt, &verdict{"connection-refused-with-usable-host", fmt.Sprintf("%s: %d of %d connections were closed although hosts %v are members, up and detected", where, k, n, us)}
					}
					continue
				}
				if members[bi] == nil {
					return nt, &verdict{"relayed-to-non-member", fmt.Sprintf("%s: a connection reached backend %d which is not in the endpoint set %v", where, bi, keys(members))}
				}
				if !inUsable[bi] {
					return nt, &verdict{"relayed-to-unusable-host", fmt.Sprintf("%s: a connection reached backend %d (backup=%v); usable hosts are %v", where, bi, members[bi].backup, us)}
				}
			}
			if policy == 0 && len(us) > 0 && allUp {
				k := n / len(us)
				for _, u := range us {
					if counts[u] != k {
						return nt, &verdict{"round-robin-unfair", fmt.Sprintf("%s: %d connections over %d unchanged hosts gave %v, want %d each", where, n, len(us), counts, k)}
					}
				}
			}
		}
	}
	// quiescence: every client connection closed -> the active-connection count of every host object is 0 again
	for _, lc := range live {
		lc.c.Close()
	}
	live = nil
	deadline := time.Now().Add(15 * time.Second)
	for {
		var bad *host.Host
		for _, h := range handed {
			if h.ConnCount() != 0 {
				bad = h
				break
			}
		}
		if bad == nil {
			break
		}
		if time.Now().After(deadline) {
			stuck := ""
			for _, g := range strings.Split(vh.Stacks(), "\n\n") {
				if strings.Contains(g, "proc/tcp.(*tcpProc).HandleConn") || strings.Contains(g, "proc/tcp.(*tcpProc).pipeConn") {
					if len(g) > 900 {
						g = g[:900]
					}
					stuck += "\n--\n" + g
					if len(stuck) > 4000 {
						break
					}
				}
			}
			return nt, &verdict{"conn-count-not-zero-at-quiescence", fmt.Sprintf("15s after every client connection was closed host %s still counts %d active connection(s): least-connection keeps treating it as busier than it is; connection handlers still running:%s", bad.Addr, bad.ConnCount(), stuck)}
		}
		time.Sleep(5 * time.Millisecond)
	}
	return nt, nil
}

func keys(m map[int]*member) []int {
	var r []int
	for k := range m {
		r = append(r, k)
	}
	sort.Ints(r)
	return r
}

func maxInt(a, b int) int {
	if a > b {
		return a
	}
	return b
}

func genE2E(t *rapid.T) e2eCase {
	c := e2eCase{Policy: rapid.IntRange(0, 2).Draw(t, "policy"), Fall: rapid.IntRange(1, 3).Draw(t, "fall"), Rise: rapid.IntRange(1, 3).Draw(t, "rise")}
	// start with a few members
	for i, n := 0, rapid.IntRange(1, 3).Draw(t, "init"); i < n; i++ {
		c.Ops = append(c.Ops, eop{Op: "add", Host: i, Backup: rapid.IntRange(0, 3).Draw(t, "ib") == 0})
	}
	n := rapid.IntRange(2, 14).Draw(t, "n")
	for i := 0; i < n; i++ {
		o := eop{Host: rapid.IntRange(0, nBackends-1).Draw(t, "host")}
		switch x := rapid.IntRange(0, 18).Draw(t, "op"); {
		case x >= 17:
			o.Op, o.N = "blip", rapid.IntRange(1, 8).Draw(t, "blipn")
			if rapid.IntRange(0, 2).Draw(t, "slowrm") == 0 {
				o = eop{Op: "slowremove", Host: o.Host}
			} else if rapid.Bool().Draw(t, "cfgop") {
				o = eop{Op: "config", Policy: rapid.IntRange(0, 2).Draw(t, "npolicy"), HC: rapid.SampledFrom([]int{0, 1, 1}).Draw(t, "nhc"), Fall: rapid.IntRange(1, 3).Draw(t, "nfall"), Rise: rapid.IntRange(1, 3).Draw(t, "nrise")}
			}
		case x <= 2:
			o.Op, o.Backup = "add", rapid.IntRange(0, 2).Draw(t, "backup") == 0
		case x <= 4:
			o.Op = "remove"
		case x == 15:
			o.Op = "retype"
		case x == 5:
			o.Op, o.Hosts = "replace", rapid.SliceOfN(rapid.IntRange(0, 2*nBackends-1), 1, 4).Draw(t, "rhosts")
		case x <= 7:
			o.Op = "down"
		case x <= 9:
			o.Op = "up"
		case x == 10:
			o.Op, o.N = "closeconn", rapid.IntRange(0, 9).Draw(t, "cc")
			if rapid.Bool().Draw(t, "burst") {
				o.Op, o.N = "burst", rapid.IntRange(1, 8).Draw(t, "bn")
			}
		default:
			o.Op, o.N, o.Conc = "connect", rapid.IntRange(1, 6).Draw(t, "cn"), rapid.Bool().Draw(t, "conc")
		}
		c.Ops = append(c.Ops, o)
	}
	c.Ops = append(c.Ops, eop{Op: "connect", N: 4})
	return c
}

func TestE2E(t *testing.T) {
	rapid.Check(t, func(t *rapid.T) {
		c := genE2E(t)
		vh.CurrentCase(prop, "e2e", c)
		nt, v := checkE2E(c)
		vh.ClearCurrentCase()
		if v != nil {
			vh.Fail(t, vh.Failure{Property: prop, Part: "e2e", Signature: v.sig, Message: v.msg, Case: c})
		}
		vh.Rec().Case("e2e", nt, vh.JSON(c))
		vh.Rec().Class("e2e", fmt.Sprintf("policy_%d", c.Policy))
		vh.Rec().Sample("e2e", nt, func() interface{} { return c })
	})
}

func init() {
	vh.RegisterReplay("roundrobin", func(t *testing.T, raw json.RawMessage) {
		var c rrCase
		json.Unmarshal(raw, &c)
		for i := 0; i < 20; i++ {
			if v := checkRR(c); v != nil {
				vh.Fail(t, vh.Failure{Property: prop, Part: "roundrobin", Signature: v.sig, Message: v.msg, Case: c})
			}
		}
	})
	vh.RegisterReplay("pick", func(t *testing.T, raw json.RawMessage) {
		var c pickCase
		json.Unmarshal(raw, &c)
		if v := checkPick(c); v != nil {
			vh.Fail(t, vh.Failure{Property: prop, Part: "pick", Signature: v.sig, Message: v.msg, Case: c})
		}
	})
	vh.RegisterReplay("e2e", func(t *testing.T, raw json.RawMessage) {
		var c e2eCase
		json.Unmarshal(raw, &c)
		if _, v := checkE2E(c); v != nil {
			vh.Fail(t, vh.Failure{Property: prop, Part: "e2e", Signature: v.sig, Message: v.msg, Case: c})
		}
	})
}

func TestReplay(t *testing.T) { vh.RunReplay(t) }
