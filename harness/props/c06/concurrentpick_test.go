package c06

import (
	"encoding/json"
	"fmt"
	"sync"
	"testing"

	"pgregory.net/rapid"

	"github.com/samaritan-proxy/samaritan/host"
	"github.com/samaritan-proxy/samaritan/pb/config/service"
	"github.com/samaritan-proxy/samaritan/proc/verifexport"
	"verif/harness/vh"
)

// part concurrentpick: the random and the least-connection policy with their real random source (the pick part replaces it),
// asked by several connection handlers at once, as the listener does for connections accepted together. Every pick is a
// member of the list it was given and no pick panics (a panic in a connection handler takes the whole proxy down).
type cpCase struct {
	Policy     int `json:"policy"` // 1 RANDOM, 2 LEAST_CONNECTION
	Hosts      int `json:"hosts"`
	Goroutines int `json:"goroutines"`
	Picks      int `json:"picks_per_goroutine"`
}

func checkConcurrentPick(c cpCase) *verdict {
	hs := make([]*host.Host, c.Hosts)
	member := map[*host.Host]bool{}
	for i := range hs {
		hs[i] = host.New(fmt.Sprintf("10.0.2.%d:80", i+1))
		member[hs[i]] = true
	}
	lb := verifexport.NewBalancer(service.LoadBalancePolicy(c.Policy))
	var mu sync.Mutex
	var v *verdict
	fail := func(x *verdict) {
		mu.Lock()
		if v == nil {
			v = x
		}
		mu.Unlock()
	}
	var wg sync.WaitGroup
	start := make(chan struct{})
	for g := 0; g < c.Goroutines; g++ {
		wg.Add(1)
		go func() {
			defer wg.Done()
			defer func() {
				if r := recover(); r != nil {
					fail(&verdict{"pick-panics", fmt.Sprintf("%s with %d hosts, asked by %d goroutines at once, panics: %v", lb.Name(), c.Hosts, c.Goroutines, r)})
				}
			}()
			<-start
			for i := 0; i < c.Picks; i++ {
				if h := lb.PickHost(hs); !member[h] {
					fail(&verdict{"pick-not-a-member", fmt.Sprintf("%s picked %v which is not in the candidate list", lb.Name(), h)})
					return
				}
			}
		}()
	}
	close(start)
	wg.Wait()
	return v
}

func TestConcurrentPick(t *testing.T) {
	rapid.Check(t, func(t *rapid.T) {
		c := cpCase{Policy: rapid.IntRange(1, 2).Draw(t, "policy"), Hosts: rapid.IntRange(1, 16).Draw(t, "hosts"), Goroutines: rapid.IntRange(1, 16).Draw(t, "g"),
			Picks: rapid.SampledFrom([]int{1, 200, 2000, 20000, 100000}).Draw(t, "picks")}
		if v := checkConcurrentPick(c); v != nil {
			vh.Fail(t, vh.Failure{Property: prop, Part: "concurrentpick", Signature: v.sig, Message: v.msg, Case: c})
		}
		nt := c.Goroutines >= 2 && c.Picks >= 200
		vh.Rec().Case("concurrentpick", nt, vh.JSON(c))
		vh.Rec().Sample("concurrentpick", nt, func() interface{} { return c })
	})
}

func init() {
	vh.RegisterReplay("concurrentpick", func(t *testing.T, raw json.RawMessage) {
		var c cpCase
		if err := json.Unmarshal(raw, &c); err != nil {
			t.Fatal(err)
		}
		if v := checkConcurrentPick(c); v != nil {
			vh.Fail(t, vh.Failure{Property: prop, Part: "concurrentpick", Signature: v.sig, Message: v.msg, Case: c})
		}
	})
}
