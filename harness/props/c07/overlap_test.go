package c07

import (
	"encoding/json"
	"fmt"
	"strings"
	"testing"
	"time"

	"pgregory.net/rapid"

	"verif/harness/ref"
	"verif/harness/sim"
	"verif/harness/vh"
)

// part overlap: a second layout change happens while the refresh that the first one triggered is still in flight, and that
// refresh's answer was composed before the second change (the asked node is slow to write it out). The redirection caused by
// the second change is then the "first redirection" of the statement for that change: a bounded number of refresh rounds
// later - with no further traffic - requests for the moved slots must no longer be redirected. The periodic refresh runs at
// its production rate (2 min: never during a case), so only the redirection can teach the proxy.
type overlapCase struct {
	Masters int `json:"masters"`
	// CLUSTER NODES replies are written this long after they were composed
	DelayMs int `json:"delay_ms"`
	// the second change follows the arrival of the first refresh's request by this share of the delay (per cent)
	GapPct int `json:"gap_pct"`
	// which masters lose a slot (first, second change) and how far round the ring of masters it moves
	From1, From2, Hop1, Hop2 int
	// further changes of the same kind while refreshes are in flight (each is followed by one redirected read)
	Extra int `json:"extra,omitempty"`
}

func checkOverlap(c overlapCase) (nt bool, v *verdict) {
	w, err := sim.NewWorld(c.Masters, 0)
	if err != nil {
		return false, nil
	}
	defer w.Close()
	ms := w.Masters()
	w.AssignEven(ms)
	of, om := sim.SetRefreshTimers(2*time.Minute, 5*time.Millisecond)
	defer sim.SetRefreshTimers(of, om)
	px, err := sim.StartProxy(sim.ProxyOpts{Seeds: w.Addrs(ms)})
	if err != nil {
		return false, &verdict{"proxy-start", err.Error()}
	}
	defer px.Stop(20 * time.Second)
	if !px.WaitTableLoaded(1, 10*time.Second) {
		return false, &verdict{"table-not-loaded", "the routing table was not loaded within 10s on a healthy cluster"}
	}
	cl, err := sim.Dial(px.Addr)
	if err != nil {
		return false, &verdict{"client-dial", err.Error()}
	}
	defer cl.Close()
	delay := time.Duration(c.DelayMs) * time.Millisecond
	w.Lock()
	w.DelayCmd = func(node int, args [][]byte) time.Duration {
		if len(args) > 0 && strings.EqualFold(string(args[0]), "cluster") {
			return delay
		}
		return 0
	}
	w.Unlock()
	get := func(k string) *verdict {
		r, err := cl.Do(20*time.Second, "GET", k)
		if err != nil {
			moved, ask := w.Redirects()
			return &verdict{"no-reply", fmt.Sprintf("GET %s: %v; redirections so far %d/%d, refreshes succeeded %d; goroutines inside the proxy:\n%s", k, err, moved, ask,
				px.Counter("upstream.slots_refresh.success_total"), vh.Stacks())}
		}
		if !ref.Equal(r, ref.NullBulk()) {
			return &verdict{"reply-differs", fmt.Sprintf("GET %s (a key nobody wrote) answered %s", k, r)}
		}
		return nil
	}
	var moved []string
	move := func(from, hop int, prefix string) (string, bool) {
		a := ms[from%len(ms)]
		b := ms[(from+1+hop%(len(ms)-1))%len(ms)]
		k := w.KeyFor(a, prefix)
		if k == "" || a == b {
			return "", false
		}
		s := ref.Slot([]byte(k))
		w.AssignRange(s, s, b)
		moved = append(moved, k)
		return k, true
	}
	// first change, first redirection, first refresh
	cn0 := w.ClusterNodesServedTotal()
	k1, ok := move(c.From1, c.Hop1, "ov:a:")
	if !ok {
		return false, nil
	}
	tb := px.Counter("upstream.slots_refresh.total")
	if v := get(k1); v != nil {
		return false, v
	}
	for dl := time.Now().Add(3 * time.Second); w.ClusterNodesServedTotal() == cn0; time.Sleep(200 * time.Microsecond) {
		if time.Now().After(dl) {
			return false, &verdict{"redirection-starts-no-refresh", fmt.Sprintf("GET %s was redirected (its slot had moved) but no node was asked for the layout within 3 s", k1)}
		}
	}
	// the refresh's answer exists now and is on its way for DelayMs
	time.Sleep(delay * time.Duration(c.GapPct) / 100)
	for i := 0; i <= c.Extra; i++ {
		s0 := px.Counter("upstream.slots_refresh.success_total")
		cnA := w.ClusterNodesServedTotal()
		k, ok := move(c.From2+i, c.Hop2+i, fmt.Sprintf("ov:b%d:", i))
		if !ok {
			continue
		}
		tb = px.Counter("upstream.slots_refresh.total") // every refresh that starts from here on is composed after this change
		if v := get(k); v != nil {
			return nt, v
		}
		// in flight = asked before the change, not yet installed when the redirected read was answered
		if px.Counter("upstream.slots_refresh.success_total") == s0 && w.ClusterNodesServedTotal() == cnA {
			nt = true
		}
		time.Sleep(delay / 3)
	}
	// bounded number of refresh rounds, no traffic. Not a fixed window (a loaded machine stretches a round): the redirection of
	// the last read has asked for a refresh, so a refresh that *started* after the last change (tb: the number of started refreshes, read between that change and its read) must complete - the proxy counts
	// refreshes when they start (total) and when they end (success, failure). Gives up waiting when nothing has been in flight
	// and nothing has started for 1.5 s (then whatever was going to start has started), or after 20 s.
	cnt := func() (total, done uint64) {
		return px.Counter("upstream.slots_refresh.total"), px.Counter("upstream.slots_refresh.success_total") + px.Counter("upstream.slots_refresh.failure_total")
	}
	t0 := tb
	lastTotal, lastDone, since := t0, uint64(0), time.Now()
	for dl := time.Now().Add(20 * time.Second); time.Now().Before(dl); time.Sleep(time.Millisecond) {
		total, done := cnt()
		if total != lastTotal || done != lastDone {
			lastTotal, lastDone, since = total, done, time.Now()
		}
		if done >= t0+1 && total == done && px.Counter("upstream.slots_refresh.success_total") > 0 && time.Since(since) > 20*time.Millisecond {
			break
		}
		if total == done && time.Since(since) > 1500*time.Millisecond {
			break
		}
	}
	last := px.Counter("upstream.slots_refresh.success_total")
	m0, a0 := w.Redirects()
	for _, k := range moved {
		if v := get(k); v != nil {
			return nt, v
		}
	}
	if m1, a1 := w.Redirects(); m1 != m0 || a1 != a0 {
		return nt, &verdict{"still-redirected-after-refresh-rounds", fmt.Sprintf("%d layout changes, each followed by one redirected read (the last ones while a refresh composed before them was in flight, reply delay %v); "+
			"%d refreshes succeeded and none for the last %v, yet reading the %d moved keys once more caused %d MOVED/ASK", len(moved), delay, last, time.Since(since).Round(time.Millisecond), len(moved), m1-m0+a1-a0)}
	}
	return nt, nil
}

func TestOverlap(t *testing.T) {
	rapid.Check(t, func(t *rapid.T) {
		c := overlapCase{Masters: rapid.IntRange(2, 4).Draw(t, "masters"), DelayMs: rapid.IntRange(40, 200).Draw(t, "delay"), GapPct: rapid.IntRange(0, 60).Draw(t, "gap"),
			From1: rapid.IntRange(0, 3).Draw(t, "from1"), From2: rapid.IntRange(0, 3).Draw(t, "from2"), Hop1: rapid.IntRange(0, 2).Draw(t, "hop1"), Hop2: rapid.IntRange(0, 2).Draw(t, "hop2"),
			Extra: rapid.IntRange(0, 2).Draw(t, "extra")}
		vh.CurrentCase(prop, "overlap", c)
		nt, v := checkOverlap(c)
		vh.ClearCurrentCase()
		if v != nil {
			vh.Fail(t, vh.Failure{Property: prop, Part: "overlap", Signature: v.sig, Message: v.msg, Case: c})
		}
		vh.Rec().Case("overlap", nt, vh.JSON(c))
		if nt {
			vh.Rec().Class("overlap", "redirection_while_a_refresh_composed_before_the_change_is_in_flight")
		}
		vh.Rec().Sample("overlap", nt, func() interface{} { return c })
	})
}

func init() {
	vh.RegisterReplay("overlap", func(t *testing.T, raw json.RawMessage) {
		var c overlapCase
		if err := json.Unmarshal(raw, &c); err != nil {
			t.Fatal(err)
		}
		if _, v := checkOverlap(c); v != nil {
			vh.Fail(t, vh.Failure{Property: prop, Part: "overlap", Signature: v.sig, Message: v.msg, Case: c})
		}
	})
}
