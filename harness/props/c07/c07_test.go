// Package c07 decides property C07: the proxy heals after connection loss and
// topology change.
package c07

import (
	"encoding/json"
	"fmt"
	"net"
	"sort"
	"strconv"
	"sync"
	"testing"
	"time"

	"pgregory.net/rapid"

	redispb "github.com/samaritan-proxy/samaritan/pb/config/protocol/redis"

	"verif/harness/ref"
	"verif/harness/sim"
	"verif/harness/vh"
)

const prop = "C07"

func TestMain(m *testing.M) { vh.Main(m) }

type verdict struct{ sig, msg string }

type hop struct {
	Op    string `json:"op"` // burst, drop, kill, stop, start, relayout, addmaster, failover, blackdrop, reparent
	Node  int    `json:"node,omitempty"`
	N     int    `json:"n,omitempty"`
	RST   bool   `json:"rst,omitempty"`
	After int    `json:"after,omitempty"`
	Mid   int    `json:"mid,omitempty"`
	Kind  string `json:"kind,omitempty"`
	Seed  uint64 `json:"seed,omitempty"`
	Empty bool   `json:"empty,omitempty"` // addmaster: leave the new master without slots
}

type healCase struct {
	ByName    bool  `json:"announce_by_name"` // nodes announce themselves as localhost:port (the proxy's name differs from the peer address)
	Masters   int   `json:"masters"`
	Replicas  int   `json:"replicas"`
	Strategy  int   `json:"read_strategy,omitempty"` // 0 MASTER, 1 REPLICA, 2 BOTH
	// NoPeriodic: the periodic slot refresh runs at its production rate (2 min: never during a case), so a layout change can only
	// be learnt through refreshes that a redirection - or, after a fail-over, a failed connect to the dead master - triggers.
	NoPeriodic bool `json:"no_periodic_refresh,omitempty"`
	// Suspected: masters (by index) that the other nodes report as "master,fail?" in CLUSTER NODES for the whole case - a
	// suspicion, not a failure: they are alive and own their slots, and layout changes may give them more
	Suspected []int `json:"suspected,omitempty"`
	StartDown []int `json:"start_down"`
	Ops       []hop `json:"ops"`
}

type healInfo struct {
	faultThenTraffic, layoutMoved, dropsDuringPendingConnect, replicaSetChanged int
}

const (
	connectTimeout = 100 * time.Millisecond
	allowance      = 250 * time.Millisecond // > max(ConnectTimeout, 200ms)
	replyTimeout   = 20 * time.Second
)

type harness struct {
	w     *sim.World
	px    *sim.Proxy
	cl    *sim.Client
	seq   int
	down  map[int]bool
	inf   *healInfo
	total int
}

func (h *harness) do(args ...string) (ref.Value, *verdict) {
	v, err := h.cl.Do(replyTimeout, args...)
	if err != nil {
		sig := "reply-missing"
		if err != sim.ErrTimeout {
			sig = "client-connection-broken"
		}
		return v, &verdict{sig, fmt.Sprintf("request %v: %v", args, err)}
	}
	return v, nil
}

// probe checks that a write and a read for a key owned by master m succeed (or, while
// the node is down, that they are answered at all).
func (h *harness) probe(m int, where string) *verdict {
	key := h.w.KeyFor(m, fmt.Sprintf("probe:%d:", m))
	if key == "" {
		return nil
	}
	h.seq++
	val := "v" + strconv.Itoa(h.seq)
	r1, v := h.do("SET", key, val)
	if v != nil {
		return v
	}
	r2, v := h.do("GET", key)
	if v != nil {
		return v
	}
	if h.down[m] {
		return nil
	}
	if r1.IsErr() || r2.IsErr() {
		return &verdict{"error-while-backend-reachable", fmt.Sprintf("%s: node %d (%s) has been reachable for %v but SET/GET %s answered %s / %s",
			where, m, h.w.Nodes[m].Addr, allowance, key, r1, r2)}
	}
	if r2.K != ref.Bulk || string(r2.S) != val {
		return &verdict{"wrong-data-after-recovery", fmt.Sprintf("%s: GET %s returned %s, want %q", where, key, r2, val)}
	}
	return nil
}

// quietReads reads the keys round robin, n reads in all, and reports whether none of them was redirected.
func (h *harness) quietReads(keys []string, n int) (bool, *verdict) {
	m0, a0 := h.w.Redirects()
	for i := 0; i < n; i++ {
		if _, v := h.do("GET", keys[i%len(keys)]); v != nil {
			return false, v
		}
	}
	m1, a1 := h.w.Redirects()
	return m1 == m0 && a1 == a0, nil
}

func (h *harness) probeAll(where string) *verdict {
	for _, m := range h.w.Masters() {
		if v := h.probe(m, where); v != nil {
			return v
		}
	}
	return nil
}

func (h *harness) burst(n int) *verdict {
	ms := h.w.Masters()
	var all []byte
	cnt := 0
	for i := 0; i < n; i++ {
		m := ms[i%len(ms)]
		key := h.w.KeyFor(m, fmt.Sprintf("b%d:", i%7))
		if key == "" {
			continue
		}
		all = ref.Encode(all, ref.Cmd("SET", key, "x"+strconv.Itoa(i)))
		cnt++
	}
	errc := make(chan error, 1)
	go func() { errc <- h.cl.Send(all, nil) }()
	for i := 0; i < cnt; i++ {
		if _, err := h.cl.Recv(replyTimeout); err != nil {
			sig := "reply-missing"
			if err != sim.ErrTimeout {
				sig = "client-connection-broken"
			}
			return &verdict{sig, fmt.Sprintf("burst: reply %d of %d: %v", i, cnt, err)}
		}
	}
	<-errc
	h.total += cnt
	return nil
}

func checkHeal(c healCase) (inf healInfo, v *verdict) {
	w, err := sim.NewWorld(c.Masters, c.Replicas)
	if err != nil {
		return inf, nil
	}
	defer w.Close()
	w.ListFailed = true
	if len(c.Suspected) > 0 {
		w.Lock()
		w.Suspected = map[int]bool{}
		for _, i := range c.Suspected {
			w.Suspected[i%c.Masters] = true
		}
		w.Unlock()
	}
	if c.ByName && localhostOK() {
		w.AnnounceHost = "localhost"
	}
	ms := w.Masters()
	w.AssignEven(ms)
	h := &harness{w: w, down: map[int]bool{}, inf: &inf}
	for _, d := range c.StartDown {
		if d < c.Masters && len(h.down) < c.Masters-1 {
			w.Nodes[d].Stop()
			h.down[d] = true
		}
	}
	if c.NoPeriodic {
		of, om := sim.SetRefreshTimers(2*time.Minute, 5*time.Millisecond) // read when the refresh loop arms them: before the proxy starts
		defer sim.SetRefreshTimers(of, om)
	}
	px, err := sim.StartProxy(sim.ProxyOpts{Seeds: w.AllAddrs(), ConnectTimeout: connectTimeout, ReadStrategy: redispb.ReadStrategy(c.Strategy)})
	if err != nil {
		return inf, &verdict{"proxy-start", err.Error()}
	}
	h.px = px
	defer px.Stop(20 * time.Second)
	if !px.WaitTableLoaded(1, 10*time.Second) {
		return inf, &verdict{"table-not-loaded", fmt.Sprintf("the routing table was not loaded within 10s (nodes down at start: %v)", c.StartDown)}
	}
	cl, err := sim.Dial(px.Addr)
	if err != nil {
		return inf, &verdict{"client-dial", err.Error()}
	}
	defer cl.Close()
	h.cl = cl
	if v := h.probeAll("initially"); v != nil {
		return inf, v
	}
	faultSeen := len(h.down) > 0
	for i, o := range c.Ops {
		where := fmt.Sprintf("after step %d (%s)", i, vh.JSON(o))
		node := 0
		if len(w.Masters()) > 0 {
			node = w.Masters()[o.Node%len(w.Masters())]
		}
		switch o.Op {
		case "burst":
			if v := h.burst(o.N); v != nil {
				return inf, v
			}
			if faultSeen {
				inf.faultThenTraffic++
			}
			continue
		case "drop":
			before := w.AcceptsOf(node)
			dropped := w.Nodes[node].DropConns(o.RST)
			if dropped > 0 {
				faultSeen = true
			}
			time.Sleep(allowance)
			if v := h.probeAll(where); v != nil {
				return inf, v
			}
			if dropped > 0 && !h.down[node] && w.KeyFor(node, "probe:") != "" && w.AcceptsOf(node) <= before {
				return inf, &verdict{"no-new-connection", fmt.Sprintf("%s: node %d served a request without accepting a new connection", where, node)}
			}
			inf.faultThenTraffic++
			continue
		case "blackdrop":
			// a connect to one master hangs (the address is black-holed) while the connections to the other masters are
			// lost at once; afterwards the black-holed node comes back
			if len(h.down) > 0 || len(w.Masters()) < 2 {
				continue
			}
			bkey := w.KeyFor(node, "bh:")
			if bkey == "" {
				continue
			}
			if err := w.Nodes[node].Blackhole(); err != nil {
				continue
			}
			h.down[node] = true
			faultSeen = true
			cl2, err := sim.Dial(px.Addr)
			if err != nil {
				return inf, &verdict{"client-dial", err.Error()}
			}
			pending := make(chan error, 1)
			t0 := time.Now()
			go func() {
				_, err := cl2.Do(replyTimeout, "GET", bkey) // dials the black hole: pending for the connect time-out
				pending <- err
			}()
			time.Sleep(time.Duration(o.After) * time.Millisecond)
			before := map[int]int{}
			dropped := map[int]int{}
			for _, m := range w.Masters() {
				if m != node {
					before[m] = w.AcceptsOf(m)
				}
			}
			var dwg sync.WaitGroup
			var dmu sync.Mutex
			for _, m := range w.Masters() {
				if m == node {
					continue
				}
				dwg.Add(1)
				go func(m int) {
					defer dwg.Done()
					d := w.Nodes[m].DropConns(o.RST)
					dmu.Lock()
					dropped[m] = d
					dmu.Unlock()
				}(m)
			}
			dwg.Wait()
			perr := <-pending
			cl2.Close()
			if time.Since(t0) >= connectTimeout*8/10 {
				inf.dropsDuringPendingConnect++
			}
			if perr != nil {
				return inf, &verdict{"reply-missing", fmt.Sprintf("%s: the request for the black-holed node %d: %v", where, node, perr)}
			}
			time.Sleep(allowance)
			if v := h.probeAll(where); v != nil {
				return inf, v
			}
			for m, d := range dropped {
				if d > 0 && w.KeyFor(m, "probe:") != "" && w.AcceptsOf(m) <= before[m] {
					return inf, &verdict{"no-new-connection", fmt.Sprintf("%s: node %d served a request without accepting a new connection", where, m)}
				}
			}
			w.Nodes[node].Start()
			delete(h.down, node)
			time.Sleep(allowance)
		case "kill":
			w.Nodes[node].KillAfter(o.After, o.Mid, o.RST)
			if v := h.burst(o.N + o.After*len(w.Masters())); v != nil {
				return inf, v
			}
			w.Nodes[node].KillAfter(0, -1, false)
			faultSeen = true
			time.Sleep(allowance)
		case "stop":
			if h.down[node] || len(h.down) >= len(w.Masters())-1 {
				continue
			}
			w.Nodes[node].Stop()
			h.down[node] = true
			faultSeen = true
			// traffic while the node is down must still be answered (errors are fine for that node)
			if v := h.probeAll(where); v != nil {
				return inf, v
			}
			continue
		case "start":
			// start one of the stopped nodes
			started := false
			for d := range h.down {
				if !w.Nodes[d].Failed {
					w.Nodes[d].Start()
					delete(h.down, d)
					started = true
					break
				}
			}
			if !started {
				continue
			}
			time.Sleep(allowance)
		case "failover":
			if len(h.down) > 0 || len(w.Replicas(node)) == 0 {
				continue
			}
			nm := w.Failover(node)
			if nm < 0 {
				continue
			}
			h.down[node] = true // the old master stays down (listed as master,fail)
			faultSeen = true
			inf.layoutMoved++
			// requests for the failed master's slots may fail until the proxy has learnt the new table;
			// redirection cannot help (the old master is dead), so the periodic / error-triggered refresh must
			deadline := time.Now().Add(10 * time.Second)
			key := w.KeyFor(nm, "fo:")
			for {
				// a write: under REPLICA / BOTH a read is served by the promoted node as "replica" of the dead master
				// according to the old table, which proves nothing about the table
				r, v := h.do("SET", key, "fo")
				if v != nil {
					return inf, v
				}
				if !r.IsErr() {
					break
				}
				if time.Now().After(deadline) {
					return inf, &verdict{"error-while-backend-reachable", fmt.Sprintf("%s: the replica %d was promoted and is reachable, but requests for its slots still fail after 10s: %s (refresh success %d failure %d)",
						where, nm, r, px.Counter("upstream.slots_refresh.success_total"), px.Counter("upstream.slots_refresh.failure_total"))}
				}
				time.Sleep(5 * time.Millisecond)
			}
		case "reparent":
			// a replica is re-pointed to another master; every master keeps its address and its slots. The proxy must
			// learn the new replica sets (reads under REPLICA / BOTH go by them) within a bounded number of refreshes.
			if len(h.down) > 0 || len(w.Masters()) < 2 {
				continue
			}
			var reps []int
			for _, m := range w.Masters() {
				reps = append(reps, w.Replicas(m)...)
			}
			if len(reps) == 0 {
				continue
			}
			sort.Ints(reps)
			r := reps[o.Node%len(reps)]
			ms := w.Masters()
			w.Lock()
			cur := w.Nodes[r].Master
			nm := ms[o.N%len(ms)]
			if nm == cur {
				nm = ms[(o.N+1)%len(ms)]
			}
			w.Nodes[r].Master = nm
			w.Unlock()
			s0 := px.Counter("upstream.slots_refresh.success_total")
			kOld, kNew := w.KeyFor(cur, "rp:"), w.KeyFor(nm, "rp:")
			if kOld == "" || kNew == "" {
				continue
			}
			inf.layoutMoved++
			if c.Strategy > 0 {
				inf.replicaSetChanged++
			}
			for _, k := range []string{kOld, kNew} {
				if _, v := h.do("SET", k, "rp"); v != nil {
					return inf, v
				}
			}
			deadline := time.Now().Add(10 * time.Second)
			for px.Counter("upstream.slots_refresh.success_total") < s0+2 {
				if c.NoPeriodic {
					// only a redirection triggers a refresh, and once routing has converged nothing is redirected any more:
					// 40 reads in a row without a redirection end the wait (under MASTER nothing is ever redirected here)
					quiet, v := h.quietReads([]string{kOld, kNew}, 40)
					if v != nil {
						return inf, v
					}
					if quiet {
						break
					}
				}
				if time.Now().After(deadline) {
					return inf, &verdict{"routing-never-converges", fmt.Sprintf("%s: replica %d was re-pointed from master %d to master %d and reads keep being redirected, but routing did not converge within 10s (slot refreshes succeeded: %d -> %d; periodic refresh off: %v)",
						where, r, cur, nm, s0, px.Counter("upstream.slots_refresh.success_total"), c.NoPeriodic)}
				}
				if _, v := h.do("GET", kOld); v != nil { // a read that lands on the former replica is redirected, which triggers a refresh
					return inf, v
				}
				time.Sleep(2 * time.Millisecond)
			}
			m0, a0 := w.Redirects()
			for i := 0; i < 30; i++ {
				for _, k := range []string{kOld, kNew} {
					rr, v := h.do("GET", k)
					if v != nil {
						return inf, v
					}
					if rr.IsErr() || string(rr.S) != "rp" {
						return inf, &verdict{"error-while-backend-reachable", fmt.Sprintf("%s: GET %s answered %s on a fully reachable cluster", where, k, rr)}
					}
				}
			}
			if m1, a1 := w.Redirects(); m1 != m0 || a1 != a0 {
				return inf, &verdict{"still-redirected-after-refresh", fmt.Sprintf("%s: replica %d (%s) now follows master %d instead of %d; after two successful refreshes 60 reads of keys of these two masters still caused %d MOVED / %d ASK (read strategy %d)",
					where, r, w.Nodes[r].Addr, nm, cur, m1-m0, a1-a0, c.Strategy)}
			}
		case "relayout", "addmaster":
			if len(h.down) > 0 {
				continue
			}
			old := w.OwnerSnapshot()
			s0 := px.Counter("upstream.slots_refresh.success_total")
			if o.Op == "addmaster" {
				if len(w.Masters()) >= 6 {
					continue
				}
				n, err := w.AddNode(-1)
				if err != nil {
					continue
				}
				if !o.Empty {
					// give the new master every 5th slot
					for s := 0; s < sim.NumSlots; s += 5 {
						w.AssignRange(s, s, n.Idx)
					}
				}
			} else {
				l := sim.Layout{Masters: len(w.Masters()), Kind: o.Kind, Seed: o.Seed}
				live := w.Masters()
				if o.Empty {
					// keep slot-less masters slot-less (e.g. a freshly added, not yet resharded node)
					var owners []int
					cur := w.OwnerSnapshot()
					has := map[int]bool{}
					for _, m := range cur {
						has[m] = true
					}
					for _, m := range live {
						if has[m] {
							owners = append(owners, m)
						}
					}
					if len(owners) >= 2 {
						live = owners
					}
				}
				tmp := make([]int, sim.NumSlots)
				// apply the layout over the live masters
				lw := &layoutShim{n: len(live)}
				lw.apply(l, tmp)
				w.AssignFunc(func(s int) int { return live[tmp[s]%len(live)] })
			}
			w.Rehome()
			now := w.OwnerSnapshot()
			var changed []int
			for s := range now {
				if now[s] != old[s] {
					changed = append(changed, s)
				}
			}
			if len(changed) == 0 && !(o.Op == "addmaster" && o.Empty) {
				continue
			}
			inf.layoutMoved++
			// the first redirection triggers the refresh: touch keys of changed slots
			keys := keysForSlots(changed, 40)
			for _, k := range keys {
				if _, v := h.do("GET", k); v != nil {
					return inf, v
				}
			}
			if len(keys) == 0 {
				// slot-less new master: any redirection-free traffic; force a refresh trigger via a probe sweep only
				if v := h.probeAll(where); v != nil {
					return inf, v
				}
			}
			// bounded convergence: two successful refreshes after the change (the first may have started before it)
			deadline := time.Now().Add(10 * time.Second)
			for px.Counter("upstream.slots_refresh.success_total") < s0+2 && len(keys) > 0 {
				if c.NoPeriodic && px.Counter("upstream.slots_refresh.success_total") > s0 {
					quiet, v := h.quietReads(keys, len(keys))
					if v != nil {
						return inf, v
					}
					if quiet {
						break
					}
				}
				if time.Now().After(deadline) {
					return inf, &verdict{"routing-never-converges", fmt.Sprintf("%s: %d slots changed owner and requests were redirected, but no slot refresh succeeded within 10s (success_total %d -> %d, failure_total %d)",
						where, len(changed), s0, px.Counter("upstream.slots_refresh.success_total"), px.Counter("upstream.slots_refresh.failure_total"))}
				}
				// keep some redirected traffic flowing: each redirection triggers a refresh
				if _, v := h.do("GET", keys[0]); v != nil {
					return inf, v
				}
				time.Sleep(2 * time.Millisecond)
			}
			m0, a0 := w.Redirects()
			for _, k := range keys {
				r, v := h.do("GET", k)
				if v != nil {
					return inf, v
				}
				if r.IsErr() {
					return inf, &verdict{"error-while-backend-reachable", fmt.Sprintf("%s: GET %s answered %s on a fully reachable cluster", where, k, r)}
				}
			}
			if m1, a1 := w.Redirects(); m1 != m0 || a1 != a0 {
				return inf, &verdict{"still-redirected-after-refresh", fmt.Sprintf("%s: after two successful refreshes a sweep over %d moved slots still caused %d MOVED / %d ASK", where, len(keys), m1-m0, a1-a0)}
			}
		default:
			continue
		}
		if v := h.probeAll(where); v != nil {
			return inf, v
		}
		inf.faultThenTraffic++
	}
	return inf, nil
}

var lhOnce sync.Once
var lhOK bool

// localhostOK: "localhost" must resolve to the loopback address the simulated nodes listen on.
func localhostOK() bool {
	lhOnce.Do(func() {
		addrs, err := net.LookupHost("localhost")
		if err != nil {
			return
		}
		for _, a := range addrs {
			if a == "127.0.0.1" {
				lhOK = true
			}
		}
	})
	return lhOK
}

type layoutShim struct{ n int }

func (l *layoutShim) apply(lay sim.Layout, out []int) {
	x := lay.Seed | 1
	next := func() uint64 { x ^= x << 13; x ^= x >> 7; x ^= x << 17; return x }
	switch lay.Kind {
	case "striped":
		for s := range out {
			out[s] = s % l.n
		}
	case "random":
		for s := range out {
			out[s] = int(next() % uint64(l.n))
		}
	case "swap":
		per := sim.NumSlots / l.n
		for s := range out {
			i := s / per
			if i >= l.n {
				i = l.n - 1
			}
			out[s] = (i + 1) % l.n
		}
	default: // shifted ranges
		shift := int(next() % sim.NumSlots)
		per := sim.NumSlots / l.n
		for s := range out {
			i := ((s + shift) % sim.NumSlots) / per
			if i >= l.n {
				i = l.n - 1
			}
			out[s] = i
		}
	}
	for i := 0; i < l.n; i++ {
		out[(i*131+7)%sim.NumSlots] = i
	}
}

// keysForSlots returns up to n keys whose slots are in the given set.
func keysForSlots(slots []int, n int) []string {
	want := map[int]bool{}
	for _, s := range slots {
		want[s] = true
	}
	var r []string
	seen := map[int]bool{}
	for i := 0; i < 400000 && len(r) < n; i++ {
		k := "mv:" + strconv.Itoa(i)
		s := ref.Slot([]byte(k))
		if want[s] && !seen[s] {
			seen[s] = true
			r = append(r, k)
		}
	}
	return r
}

func genHeal(t *rapid.T) healCase {
	c := healCase{Masters: rapid.IntRange(2, 4).Draw(t, "masters"), Replicas: rapid.IntRange(0, 2).Draw(t, "replicas"), ByName: rapid.IntRange(0, 2).Draw(t, "byname") == 0,
		Strategy: rapid.SampledFrom([]int{0, 0, 1, 2}).Draw(t, "strategy"), NoPeriodic: rapid.IntRange(0, 2).Draw(t, "noperiodic") == 0}
	if rapid.IntRange(0, 3).Draw(t, "suspect") == 0 {
		c.Suspected = rapid.SliceOfN(rapid.IntRange(0, 3), 1, 2).Draw(t, "suspected")
	}
	if rapid.IntRange(0, 4).Draw(t, "startdown") == 0 {
		c.StartDown = []int{rapid.IntRange(0, c.Masters-1).Draw(t, "sd")}
	}
	n := rapid.IntRange(1, 8).Draw(t, "n")
	for i := 0; i < n; i++ {
		o := hop{Node: rapid.IntRange(0, 5).Draw(t, "node")}
		switch x := rapid.IntRange(0, 18).Draw(t, "op"); {
		case x >= 17:
			o.Op, o.N = "reparent", rapid.IntRange(0, 5).Draw(t, "rto")
		case x >= 15:
			o.Op, o.After, o.RST = "blackdrop", rapid.IntRange(0, 60).Draw(t, "bafter"), rapid.Bool().Draw(t, "brst")
		case x == 14:
			o.Op = "failover"
		case x <= 2:
			o.Op, o.N = "burst", rapid.IntRange(1, 60).Draw(t, "bn")
		case x <= 4:
			o.Op, o.RST = "drop", rapid.Bool().Draw(t, "rst")
		case x <= 6:
			o.Op, o.After, o.N = "kill", rapid.IntRange(1, 20).Draw(t, "after"), rapid.IntRange(5, 40).Draw(t, "kn")
			o.Mid = rapid.SampledFrom([]int{-1, -1, 0, 1, 3}).Draw(t, "mid")
		case x <= 8:
			o.Op = "stop"
		case x <= 10:
			o.Op = "start"
		case x <= 12:
			o.Op, o.Kind, o.Seed = "relayout", rapid.SampledFrom([]string{"shift", "striped", "random", "swap"}).Draw(t, "lk"), rapid.Uint64().Draw(t, "ls")
			o.Empty = rapid.Bool().Draw(t, "keepempty")
		default:
			o.Op, o.Empty = "addmaster", rapid.IntRange(0, 2).Draw(t, "empty") == 0
		}
		c.Ops = append(c.Ops, o)
	}
	// always end with everything up and a final check
	c.Ops = append(c.Ops, hop{Op: "start"}, hop{Op: "start"}, hop{Op: "start"})
	return c
}

func TestHeal(t *testing.T) {
	rapid.Check(t, func(t *rapid.T) {
		c := genHeal(t)
		vh.CurrentCase(prop, "heal", c)
		inf, v := checkHeal(c)
		vh.ClearCurrentCase()
		if v != nil {
			vh.Fail(t, vh.Failure{Property: prop, Part: "heal", Signature: v.sig, Message: v.msg, Case: c})
		}
		nt := inf.faultThenTraffic > 0 || inf.layoutMoved > 0
		vh.Rec().Case("heal", nt, vh.JSON(c))
		if inf.faultThenTraffic > 0 {
			vh.Rec().Class("heal", "fault_followed_by_traffic_to_same_address")
		}
		if inf.layoutMoved > 0 {
			vh.Rec().Class("heal", "layout_change_moved_slots")
		}
		if inf.replicaSetChanged > 0 {
			vh.Rec().Class("heal", "replica_set_changed_under_replica_reads")
		}
		if c.Strategy > 0 {
			vh.Rec().Class("heal", "read_strategy_replica_or_both")
		}
		if c.NoPeriodic {
			vh.Rec().Class("heal", "no_periodic_refresh:only_redirection-triggered_refreshes")
		}
		if len(c.Suspected) > 0 {
			vh.Rec().Class("heal", "live_masters_reported_as_fail?_(PFAIL)")
		}
		if inf.dropsDuringPendingConnect > 0 {
			vh.Rec().Class("heal", "connections_lost_while_a_connect_was_pending")
		}
		if len(c.StartDown) > 0 {
			vh.Rec().Class("heal", "node_down_at_proxy_start")
		}
		vh.Rec().Sample("heal", nt, func() interface{} { return c })
	})
}

func init() {
	vh.RegisterReplay("heal", func(t *testing.T, raw json.RawMessage) {
		var c healCase
		if err := json.Unmarshal(raw, &c); err != nil {
			t.Fatal(err)
		}
		if _, v := checkHeal(c); v != nil {
			vh.Fail(t, vh.Failure{Property: prop, Part: "heal", Signature: v.sig, Message: v.msg, Case: c})
		}
	})
}

func TestReplay(t *testing.T) { vh.RunReplay(t) }
