// Package c14 decides property C14: only supported commands reach backends, and
// writes only reach masters.
package c14

import (
	"encoding/json"
	"fmt"
	"sort"
	"strings"
	"testing"
	"time"

	redispb "github.com/samaritan-proxy/samaritan/pb/config/protocol/redis"
	"pgregory.net/rapid"

	"verif/harness/ref"
	"verif/harness/sim"
	"verif/harness/vh"
)

const prop = "C14"

func TestMain(m *testing.M) { vh.Main(m) }

type verdict struct{ sig, msg string }

type cmdCase struct {
	Masters  int        `json:"masters"`
	Replicas int        `json:"replicas"`
	Strategy int        `json:"strategy"` // 0 MASTER, 1 REPLICA, 2 BOTH
	Cmds     [][]string `json:"cmds"`
	// replica set changes while the proxy runs: before command At the Replica-th replica becomes a replica of the To-th master
	// (CLUSTER REPLICATE); the commands continue after the proxy has refreshed its table twice
	Topo []topoOp `json:"topo,omitempty"`
	// every InlineEvery-th command is sent in inline form ("name arg arg\r\n") where its words allow it (0: never)
	InlineEvery int `json:"inline_every,omitempty"`
	// Extra: masters (by index) that get one more replica each than Replicas says: uneven layouts
	Extra []int `json:"extra,omitempty"`
	// Switch: before command At the service configuration is updated at run time (OnSvcConfigUpdate) to read strategy To; every
	// later command is judged by the new strategy
	Switch []switchOp `json:"switch,omitempty"`
}

type switchOp struct {
	At int `json:"at"`
	To int `json:"to"`
}

type topoOp struct {
	At      int `json:"at"`
	Replica int `json:"replica"`
	To      int `json:"to"`
	// Swap: instead of re-parenting, the replica exchanges its address with a replica of another master (both keep their node
	// id and their master; only the address each id is announced under changes)
	Swap bool `json:"swap,omitempty"`
	// Failover: instead, the To-th master dies and its first replica is promoted (the failed master stays listed without slots)
	Failover bool `json:"failover,omitempty"`
}

type env struct {
	w       *sim.World
	px      *sim.Proxy
	cl      *sim.Client
	restore func()
	inline  bool // send the next commands in inline form where possible
}

func newEnv(masters, replicas, strategy int) (*env, *verdict) {
	return newEnvT(masters, replicas, strategy, true, nil)
}

// extra: indices of masters that get one more replica each (uneven layouts: a master without a replica next to one with two)
func newEnvT(masters, replicas, strategy int, stable bool, extra []int) (e *env, v *verdict) {
	w, err := sim.NewWorld(masters, replicas)
	if err != nil {
		return nil, nil
	}
	for _, m := range extra {
		if _, err := w.AddNode(w.Masters()[m%masters]); err != nil {
			w.Close()
			return nil, nil
		}
	}
	w.AssignEven(w.Masters())
	restore := func() {}
	if stable {
		restore = sim.ProductionRefreshRate() // stable layout: see the function
	}
	defer func() {
		if e == nil {
			restore()
		}
	}()
	px, err := sim.StartProxy(sim.ProxyOpts{Seeds: w.AllAddrs(), ReadStrategy: redispb.ReadStrategy(strategy)})
	if err != nil {
		w.Close()
		return nil, &verdict{"proxy-start", err.Error()}
	}
	if !px.WaitTableLoaded(1, 10*time.Second) {
		px.Stop(10 * time.Second)
		w.Close()
		return nil, &verdict{"table-not-loaded", "routing table not loaded"}
	}
	cl, err := sim.Dial(px.Addr)
	if err != nil {
		px.Stop(10 * time.Second)
		w.Close()
		return nil, &verdict{"client-dial", err.Error()}
	}
	return &env{w, px, cl, restore, false}, nil
}

func (e *env) close() {
	defer e.restore()
	e.cl.Close()
	e.px.Stop(20 * time.Second)
	e.w.Close()
}

type cmdInfo struct{ unsupportedReal, replicaRouted bool }

// checkOne sends one command and checks where it went.
// inlineable: the arguments can be written as an inline command (no empty word, no white space, not starting like RESP).
func inlineable(args []string) bool {
	for i, a := range args {
		if a == "" || strings.ContainsAny(a, " \t\r\n\"'") {
			return false
		}
		if i == 0 && strings.ContainsAny(a[:1], "*$+-:") {
			return false
		}
	}
	return len(args) > 0
}

func (e *env) checkOne(args []string, strategy int) (inf cmdInfo, v *verdict) {
	w := e.w
	w.ResetLog()
	var got ref.Value
	var err error
	if e.inline && inlineable(args) {
		// the inline form of the same command ("name arg arg\r\n")
		if err = e.cl.Send([]byte(strings.Join(args, " ")+"\r\n"), nil); err == nil {
			got, err = e.cl.Recv(20 * time.Second)
		}
	} else {
		got, err = e.cl.Do(20*time.Second, args...)
	}
	if err != nil {
		return inf, &verdict{"reply-missing", fmt.Sprintf("%q: %v", args, err)}
	}
	// let stray arrivals (a redirect bounce) settle: the reply is only sent after the last hop, so the log is complete
	var entries []*sim.Entry
	for _, en := range w.Snapshot() {
		if !sim.IsBackground(en) {
			entries = append(entries, en)
		}
	}
	name := strings.ToLower(args[0])
	isLocal := false
	for _, l := range ref.Local {
		if l == name {
			isLocal = true
		}
	}
	describe := func() string {
		var s []string
		for _, en := range entries {
			role := "master"
			if w.Nodes[en.Node].Master >= 0 {
				role = "replica"
			}
			s = append(s, fmt.Sprintf("node %d (%s): %s -> %s", en.Node, role, sim.ArgsString(en.Args), en.Outcome))
		}
		return strings.Join(s, "; ")
	}
	switch {
	case !ref.Supported(args[0]): // judged on the bytes sent, not on their lower-cased form (see ref.Supported)
		if _, real := ref.Redis50[name]; real {
			inf.unsupportedReal = true
		}
		if got.K != ref.Err {
			return inf, &verdict{"unsupported-not-rejected", fmt.Sprintf("%q is not in the supported set but was answered %s", args, got)}
		}
		if len(entries) > 0 {
			return inf, &verdict{"unsupported-reached-backend", fmt.Sprintf("%q is not in the supported set but reached a backend: %s", args, describe())}
		}
		return inf, nil
	case isLocal:
		if len(entries) > 0 {
			return inf, &verdict{"local-command-forwarded", fmt.Sprintf("%q must be answered by the proxy itself but reached a backend: %s", args, describe())}
		}
		return inf, nil
	}
	if name == "scan" {
		return inf, nil // C18
	}
	// forwarded commands: every arrival must be at an allowed node
	for _, en := range entries {
		cmd := strings.ToLower(string(en.Args[0]))
		var key []byte
		if cmd == "eval" {
			if len(en.Args) >= 4 {
				key = en.Args[3]
			}
		} else if len(en.Args) >= 2 {
			key = en.Args[1]
		}
		if key == nil {
			continue
		}
		owner := w.Owner(ref.Slot(key))
		node := w.Nodes[en.Node]
		isReplicaOfOwner := node.Master == owner
		atOwner := en.Node == owner
		if !atOwner && !isReplicaOfOwner {
			return inf, &verdict{"sent-to-wrong-shard", fmt.Sprintf("%q: %s arrived at node %d which is neither the owner %d of the key's slot nor one of its replicas", args, sim.ArgsString(en.Args), en.Node, owner)}
		}
		if isReplicaOfOwner {
			inf.replicaRouted = true
		}
		if !ref.IsReadOnly(cmd) {
			if !atOwner {
				return inf, &verdict{"write-sent-to-replica", fmt.Sprintf("%q (read strategy %s): %s can modify data (Redis flags %q) but was sent to replica node %d: %s",
					args, redispb.ReadStrategy(strategy), strings.ToUpper(cmd), ref.Redis50[cmd], en.Node, describe())}
			}
			continue
		}
		nrep := len(w.Replicas(owner))
		switch redispb.ReadStrategy(strategy) {
		case redispb.ReadStrategy_MASTER:
			if !atOwner {
				return inf, &verdict{"read-sent-to-replica-under-master-strategy", fmt.Sprintf("%q: %s was sent to a replica although the read strategy is MASTER", args, sim.ArgsString(en.Args))}
			}
		}
		// NOTE: the statement only restricts what may go to replicas; a read-only command that the proxy
		// keeps on the master under REPLICA/BOTH (its read-only set is a subset of Redis's) is allowed.
		_ = nrep
	}
	return inf, nil
}

// confusable replaces the letters k and i of a name by the Kelvin sign (U+212A) and the dotted capital I (U+0130), which
// strings.ToLower maps to "k" and "i": a different byte string, hence a different (unsupported) command name.
func confusable(name string) string {
	r := strings.NewReplacer("k", "\u212a", "K", "\u212a", "i", "\u0130", "I", "\u0130")
	return r.Replace(name)
}

func randomCase(t *rapid.T, s string) string {
	b := []byte(s)
	for i := range b {
		if rapid.Bool().Draw(t, "up") {
			b[i] = strings.ToUpper(string(b[i]))[0]
		}
	}
	return string(b)
}

func allNames() []string {
	set := map[string]bool{}
	for n := range ref.Redis50 {
		set[n] = true
	}
	for _, n := range ref.Forwarded {
		set[n] = true
	}
	for _, n := range ref.Local {
		set[n] = true
	}
	for _, n := range []string{"nosuchcommand", "getx", "sets", "", "g", "psync", "failover", "copy", "getdel", "lmove"} {
		set[n] = true
	}
	var r []string
	for n := range set {
		if n != "" {
			r = append(r, n)
		}
	}
	sort.Strings(r)
	return r
}

func argsFor(name string, extra int) []string {
	args := []string{name}
	if strings.EqualFold(name, "eval") {
		return append(args, "return 1", "1", "{t}key", "x")[:min(5, 4+extra)]
	}
	keys := []string{"{t}key", "{t}k2", "3", "{t}k4", "5", "6"}
	return append(args, keys[:extra]...)
}

func min(a, b int) int {
	if a < b {
		return a
	}
	return b
}

// TestAllNames sends every known command name (Redis 5.0 table, the proxy's tables, a few others) in
// lower, upper and mixed case with 1..3 arguments under one read strategy per shard.
func TestAllNames(t *testing.T) {
	sh, n := vh.Shard()
	var total, nt int64
	for strategy := 0; strategy < 3; strategy++ {
		for replicas := 0; replicas <= 2; replicas++ {
			if (strategy*3+replicas)%n != sh {
				continue
			}
			e, v := newEnv(2, replicas, strategy)
			if v != nil {
				vh.Fail(t, vh.Failure{Property: prop, Part: "names", Signature: v.sig, Message: v.msg, Case: cmdCase{}})
			}
			if e == nil {
				continue
			}
			for _, name := range allNames() {
				variants := []string{name, strings.ToUpper(name), strings.ToUpper(name[:1]) + name[1:], name}
				if cf := confusable(name); cf != name {
					variants = append(variants, cf) // a spelling that Unicode case folding maps onto the name: not the name
				}
				for variant, nm := range variants {
					e.inline = variant == 3 // the fourth variant is the inline form
					args := argsFor(nm, 1+variant%3)
					c := cmdCase{Masters: 2, Replicas: replicas, Strategy: strategy, Cmds: [][]string{args}}
					inf, v := e.checkOne(args, strategy)
					if v != nil {
						e.close()
						vh.Fail(t, vh.Failure{Property: prop, Part: "names", Signature: v.sig, Message: v.msg, Case: c})
					}
					total++
					if inf.unsupportedReal || (inf.replicaRouted && strategy > 0) || (replicas > 0 && strategy > 0 && ref.Supported(name)) {
						nt++
					}
				}
			}
			e.close()
		}
	}
	vh.Rec().CaseN("names", total, nt)
	vh.Rec().Sample("names", true, func() interface{} {
		return map[string]interface{}{"names": len(allNames()), "case_variants": 3, "strategies": "MASTER,REPLICA,BOTH", "replicas_per_master": "0,1,2"}
	})
}

func TestRandomCommands(t *testing.T) {
	names := allNames()
	rapid.Check(t, func(t *rapid.T) {
		c := cmdCase{Masters: rapid.IntRange(1, 3).Draw(t, "masters"), Replicas: rapid.IntRange(0, 2).Draw(t, "replicas"), Strategy: rapid.IntRange(0, 2).Draw(t, "strategy")}
		n := rapid.IntRange(1, 25).Draw(t, "n")
		c.InlineEvery = rapid.SampledFrom([]int{0, 0, 1, 2, 3}).Draw(t, "inline")
		if c.Masters >= 2 && rapid.Bool().Draw(t, "uneven") {
			c.Extra = rapid.SliceOfN(rapid.IntRange(0, c.Masters-1), 1, 3).Draw(t, "extra")
		}
		if rapid.IntRange(0, 2).Draw(t, "switch") == 0 {
			for k, m := 0, rapid.IntRange(1, 3).Draw(t, "nswitch"); k < m; k++ {
				c.Switch = append(c.Switch, switchOp{At: rapid.IntRange(0, n-1).Draw(t, "swat"), To: rapid.IntRange(0, 2).Draw(t, "swto")})
			}
		}
		if c.Masters >= 2 && c.Replicas >= 1 && rapid.IntRange(0, 2).Draw(t, "topo") == 0 {
			for k, m := 0, rapid.IntRange(1, 2).Draw(t, "ntopo"); k < m; k++ {
				c.Topo = append(c.Topo, topoOp{At: rapid.IntRange(0, n-1).Draw(t, "at"), Replica: rapid.IntRange(0, 5).Draw(t, "trep"), To: rapid.IntRange(0, 2).Draw(t, "tto"), Swap: rapid.Bool().Draw(t, "swap"), Failover: rapid.IntRange(0, 3).Draw(t, "failover") == 0})
			}
		}
		for i := 0; i < n; i++ {
			var name string
			switch rapid.IntRange(0, 9).Draw(t, "ncls") {
			case 0:
				name = rapid.StringMatching(`[a-z]{1,10}`).Draw(t, "rname")
			case 1, 2, 3:
				name = rapid.SampledFrom(ref.Forwarded).Draw(t, "fname")
			default:
				name = rapid.SampledFrom(names).Draw(t, "name")
			}
			name = randomCase(t, name)
			if rapid.IntRange(0, 7).Draw(t, "confusable") == 0 {
				name = confusable(name)
			}
			var args []string
			if strings.EqualFold(name, "eval") {
				args = []string{name, "return 1", "1", rapid.StringMatching(`\{[ab]\}k[0-3]`).Draw(t, "key")}
			} else {
				args = []string{name}
				for k, m := 0, rapid.IntRange(0, 6).Draw(t, "argc"); k < m; k++ {
					if rapid.IntRange(0, 5).Draw(t, "oddbraces") == 0 {
						// braces where a hash tag is not: a closing one first, empty tags, two tags, an unclosed one
						args = append(args, rapid.SampledFrom([]string{"v}1:{a}x", "}{b}", "}a{b}k", "a{}b{a}", "{a}{b}", "x{a", "{}{a}", "}}{a}{", "{a}}", "{{a}}"}).Draw(t, "oddarg"))
						continue
					}
					args = append(args, rapid.StringMatching(`(\{[ab]\})?[a-z0-9]{1,5}`).Draw(t, "arg"))
				}
			}
			c.Cmds = append(c.Cmds, args)
		}
		vh.CurrentCase(prop, "random", c)
		nt, v := runCase(c)
		vh.ClearCurrentCase()
		if v != nil {
			vh.Fail(t, vh.Failure{Property: prop, Part: "random", Signature: v.sig, Message: v.msg, Case: c})
		}
		vh.Rec().Case("random", nt, vh.JSON(c))
		vh.Rec().Sample("random", nt, func() interface{} { return c })
	})
}

func runCase(c cmdCase) (bool, *verdict) {
	e, v := newEnvT(c.Masters, c.Replicas, c.Strategy, len(c.Topo) == 0, c.Extra)
	if v != nil {
		return false, v
	}
	if e == nil {
		return false, nil
	}
	defer e.close()
	nt := false
	strategy, switched := c.Strategy, false
	for i, args := range c.Cmds {
		for _, op := range c.Topo {
			if op.At != i {
				continue
			}
			w := e.w
			ms := w.Masters()
			var reps []int
			for _, m := range ms {
				reps = append(reps, w.Replicas(m)...)
			}
			if len(reps) == 0 || len(ms) < 2 {
				continue
			}
			sort.Ints(reps)
			r := reps[op.Replica%len(reps)]
			nm := ms[op.To%len(ms)]
			if op.Failover {
				w.Lock()
				w.ListFailed = true
				w.Unlock()
				if w.Failover(ms[op.To%len(ms)]) < 0 {
					continue
				}
				// requests fail until the proxy has learned the new layout; only then are arrivals judged again
				s0 := e.px.Counter("upstream.slots_refresh.success_total")
				for dl := time.Now().Add(10 * time.Second); e.px.Counter("upstream.slots_refresh.success_total") < s0+2 && time.Now().Before(dl); {
					time.Sleep(2 * time.Millisecond)
				}
				if c.Strategy > 0 {
					nt = true
				}
				continue
			}
			w.Lock()
			cur := w.Nodes[r].Master
			if op.Swap {
				// the node listening at r's address takes over the identity (id, master) of a replica of another master and vice versa
				for k := 0; k < len(reps); k++ {
					o := w.Nodes[reps[(op.To+k)%len(reps)]]
					if o.Master != cur {
						n1 := w.Nodes[r]
						n1.ID, o.ID = o.ID, n1.ID
						n1.Master, o.Master = o.Master, n1.Master
						break
					}
				}
			} else {
				if nm == cur {
					nm = ms[(op.To+1)%len(ms)]
				}
				w.Nodes[r].Master = nm
			}
			w.Unlock()
			// the proxy learns the new replica sets with its periodic refresh (50 ms here); two successes: the first may
			// have been under way when the change happened
			s0 := e.px.Counter("upstream.slots_refresh.success_total")
			deadline := time.Now().Add(10 * time.Second)
			for e.px.Counter("upstream.slots_refresh.success_total") < s0+2 {
				if time.Now().After(deadline) {
					return nt, nil // no refresh: not this property's business (C07)
				}
				time.Sleep(2 * time.Millisecond)
			}
			if c.Strategy > 0 {
				nt = true
			}
		}
		for _, sw := range c.Switch {
			if sw.At != i || sw.To == strategy {
				continue
			}
			ncfg := sim.RedisConfig(sim.ProxyOpts{ReadStrategy: redispb.ReadStrategy(sw.To)})
			ncfg.Listener = e.px.Cfg.Listener
			if err := e.px.P.OnSvcConfigUpdate(ncfg); err != nil {
				return nt, &verdict{"config-update-rejected", err.Error()}
			}
			strategy = sw.To
			switched = true
		}
		e.inline = c.InlineEvery > 0 && i%c.InlineEvery == c.InlineEvery-1
		inf, v := e.checkOne(args, strategy)
		if v != nil && switched {
			v.msg += fmt.Sprintf(" [the read strategy was switched at run time; in force now: %v]", redispb.ReadStrategy(strategy))
		}
		if switched && (c.Replicas > 0 || len(c.Extra) > 0) && ref.Supported(args[0]) {
			nt = true
		}
		if v != nil {
			return nt, v
		}
		if inf.unsupportedReal || ((c.Replicas > 0 || len(c.Extra) > 0) && strategy > 0 && ref.Supported(args[0])) {
			nt = true
		}
	}
	return nt, nil
}

func init() {
	for _, part := range []string{"names", "random"} {
		part := part
		vh.RegisterReplay(part, func(t *testing.T, raw json.RawMessage) {
			var c cmdCase
			if err := json.Unmarshal(raw, &c); err != nil {
				t.Fatal(err)
			}
			if _, v := runCase(c); v != nil {
				vh.Fail(t, vh.Failure{Property: prop, Part: part, Signature: v.sig, Message: v.msg, Case: c})
			}
		})
	}
}

func TestReplay(t *testing.T) { vh.RunReplay(t) }
