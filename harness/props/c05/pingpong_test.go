package c05

import (
	"encoding/json"
	"fmt"
	"io"
	"net"
	"testing"
	"time"

	"github.com/samaritan-proxy/samaritan/host"
	"pgregory.net/rapid"

	"verif/harness/tcpsim"
	"verif/harness/vh"
)

// part pingpong: request/response traffic. The client sends a message and waits for the backend's echo of exactly that
// message before it sends the next one, so every byte has to be relayed when it arrives - not when more data, an end of
// stream or a time-out follows. Message sizes include 1 byte, the relay buffer size and its neighbours.

type ppCase struct {
	Sizes  []int `json:"sizes"`
	IdleMs int   `json:"idle_ms"`
}

func checkPingPong(c ppCase) *verdict {
	b, err := tcpsim.NewBackend(func(bc net.Conn, n int) {
		defer bc.Close()
		buf := make([]byte, 65536)
		for {
			k, err := bc.Read(buf)
			if k > 0 {
				if _, werr := bc.Write(buf[:k]); werr != nil {
					return
				}
			}
			if err != nil {
				return
			}
		}
	})
	if err != nil {
		return nil
	}
	defer b.Close()
	px, err := tcpsim.Start(tcpsim.Opts{Hosts: []*host.Host{host.New(b.Addr)}, IdleTimeout: time.Duration(c.IdleMs) * time.Millisecond})
	if err != nil {
		return &verdict{"proxy-start", err.Error()}
	}
	defer px.Stop(20 * time.Second)
	cl, err := net.DialTimeout("tcp", px.Addr, 5*time.Second)
	if err != nil {
		return &verdict{"client-dial", err.Error()}
	}
	defer cl.Close()
	off := 0
	for i, n := range c.Sizes {
		msg := make([]byte, n)
		tcpsim.Fill(msg, 1, 0, off)
		off += n
		cl.SetDeadline(time.Now().Add(10 * time.Second))
		if _, err := cl.Write(msg); err != nil {
			return &verdict{"write-failed", fmt.Sprintf("message %d (%d bytes): %v", i, n, err)}
		}
		got := make([]byte, n)
		k, err := io.ReadFull(cl, got)
		if err != nil {
			return &verdict{"bytes-held-back", fmt.Sprintf("message %d of %d bytes was sent and the client waited for its echo before sending more: %d of %d bytes came back within 10s (%v); sizes so far %v", i, n, k, n, err, c.Sizes[:i+1])}
		}
		for j := range got {
			if got[j] != msg[j] {
				return &verdict{"client-to-backend-content", fmt.Sprintf("message %d: echoed byte %d differs", i, j)}
			}
		}
	}
	return nil
}

func TestPingPong(t *testing.T) {
	rapid.Check(t, func(t *rapid.T) {
		c := ppCase{IdleMs: rapid.SampledFrom([]int{0, 0, 15000}).Draw(t, "idle")}
		for i, n := 0, rapid.IntRange(1, 12).Draw(t, "n"); i < n; i++ {
			c.Sizes = append(c.Sizes, rapid.SampledFrom([]int{1, 1, 1, 2, 3, 5, 100, 16383, 16384, 16385, 32769, 70000}).Draw(t, "size"))
		}
		vh.CurrentCase(prop, "pingpong", c)
		v := checkPingPong(c)
		vh.ClearCurrentCase()
		if v != nil {
			vh.Fail(t, vh.Failure{Property: prop, Part: "pingpong", Signature: v.sig, Message: v.msg, Case: c})
		}
		vh.Rec().Case("pingpong", true, vh.JSON(c))
		vh.Rec().ClassN("pingpong", "messages_echoed_before_the_next_was_sent", int64(len(c.Sizes)))
		vh.Rec().Sample("pingpong", true, func() interface{} { return c })
	})
}

func init() {
	vh.RegisterReplay("pingpong", func(t *testing.T, raw json.RawMessage) {
		var c ppCase
		json.Unmarshal(raw, &c)
		if v := checkPingPong(c); v != nil {
			vh.Fail(t, vh.Failure{Property: prop, Part: "pingpong", Signature: v.sig, Message: v.msg, Case: c})
		}
	})
}
