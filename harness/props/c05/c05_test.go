// Package c05 decides property C05: the TCP proxy relays bytes unmodified, in
// order, both ways, with half-close.
package c05

import (
	"encoding/json"
	"fmt"
	"io"
	"net"
	"sync"
	"testing"
	"time"

	"github.com/samaritan-proxy/samaritan/host"
	"pgregory.net/rapid"

	"verif/harness/tcpsim"
	"verif/harness/vh"
)

const prop = "C05"

func TestMain(m *testing.M) { vh.Main(m) }

type verdict struct{ sig, msg string }

type stream struct {
	Len    int   `json:"len"`
	Chunks []int `json:"chunks"`  // write sizes, cycled
	GapUs  []int `json:"gap_us"`  // gap before each write, cycled
	ReadSz int   `json:"read_sz"` // reader buffer size on the receiving side
}

type connCase struct {
	C2B   stream `json:"c2b"`
	B2C   stream `json:"b2c"`
	Close string `json:"close"` // both-half, client-first, backend-first, client-full-after-eof, backend-full-after-eof
	// ExtraAfterPeerEOF: bytes the later closer sends only after it has seen the peer's EOF
	Extra int `json:"extra"`
}

type relayCase struct {
	Conns  []connCase `json:"conns"`
	IdleMs int        `json:"idle_ms,omitempty"` // configured idle time-out (0: the 10 min default)
}

const ioDeadline = 30 * time.Second

// send writes stream s of connection id / direction dir, starting at offset off.
func send(c net.Conn, s stream, id, dir, off, n int) error {
	buf := make([]byte, 0, 65536)
	sent := 0
	i := 0
	for sent < n {
		sz := 4096
		if len(s.Chunks) > 0 {
			sz = s.Chunks[i%len(s.Chunks)]
		}
		if sz > n-sent {
			sz = n - sent
		}
		if sz <= 0 {
			sz = 1
		}
		if len(s.GapUs) > 0 {
			if g := s.GapUs[i%len(s.GapUs)]; g > 0 {
				time.Sleep(time.Duration(g) * time.Microsecond)
			}
		}
		buf = buf[:sz]
		tcpsim.Fill(buf, id, dir, off+sent)
		c.SetWriteDeadline(time.Now().Add(ioDeadline))
		if _, err := c.Write(buf); err != nil {
			return fmt.Errorf("write at %d: %v", off+sent, err)
		}
		sent += sz
		i++
	}
	return nil
}

// recvAll reads until EOF verifying the pattern; it returns the number of bytes and the first mismatch.
func recvAll(c net.Conn, id, dir, readSz int, onEOF func()) (int, error) {
	if readSz <= 0 {
		readSz = 32768
	}
	buf := make([]byte, readSz)
	total := 0
	for {
		c.SetReadDeadline(time.Now().Add(ioDeadline))
		n, err := c.Read(buf)
		for i := 0; i < n; i++ {
			if buf[i] != tcpsim.Pattern(id, dir, total+i) {
				return total + i, fmt.Errorf("byte %d differs: got %#x want %#x", total+i, buf[i], tcpsim.Pattern(id, dir, total+i))
			}
		}
		total += n
		if err == io.EOF {
			if onEOF != nil {
				onEOF()
			}
			return total, nil
		}
		if err != nil {
			return total, fmt.Errorf("read after %d bytes: %v", total, err)
		}
	}
}

func checkRelay(c relayCase) (nt bool, v *verdict) {
	// one backend; the connection id is announced by the client in the first 2 bytes of the pattern? no:
	// ids are assigned by accept order on a dedicated backend per connection, so streams never mix silently.
	type side struct {
		got  int
		err  error
		werr error
	}
	var wg sync.WaitGroup
	res := make([]*verdict, len(c.Conns))
	backends := make([]*tcpsim.Backend, len(c.Conns))
	var hosts []*host.Host
	bres := make([]side, len(c.Conns))
	bdone := make([]chan struct{}, len(c.Conns))
	for i := range c.Conns {
		i := i
		cc := c.Conns[i]
		bdone[i] = make(chan struct{})
		b, err := tcpsim.NewBackend(func(bc net.Conn, n int) {
			defer close(bdone[i])
			defer bc.Close()
			tc := bc.(*net.TCPConn)
			var swg sync.WaitGroup
			peerEOF := make(chan struct{})
			swg.Add(1)
			go func() {
				defer swg.Done()
				bres[i].got, bres[i].err = recvAll(bc, i, 0, cc.C2B.ReadSz, func() { close(peerEOF) })
			}()
			bres[i].werr = send(bc, cc.B2C, i, 1, 0, cc.B2C.Len)
			switch cc.Close {
			case "client-first", "client-full-after-eof":
				// the backend keeps its direction open until the client has finished, then sends the extra bytes
				select {
				case <-peerEOF:
				case <-time.After(ioDeadline):
				}
				if bres[i].werr == nil && cc.Close == "client-first" {
					bres[i].werr = send(bc, cc.B2C, i, 1, cc.B2C.Len, cc.Extra)
				}
			}
			tc.CloseWrite()
			swg.Wait()
		})
		if err != nil {
			return false, nil
		}
		backends[i] = b
		defer b.Close()
		_ = hosts
	}
	// one proxy per connection would hide buffer-pool sharing; use ONE proxy with round robin over all
	// backends and connect sequentially so that connection i reaches backend i, then run all streams concurrently.
	for _, b := range backends {
		hosts = append(hosts, host.New(b.Addr))
	}
	// Healthy() is sorted by address: map connection i to the backend it will reach
	px, err := tcpsim.Start(tcpsim.Opts{Hosts: hosts, IdleTimeout: time.Duration(c.IdleMs) * time.Millisecond})
	if err != nil {
		return false, &verdict{"proxy-start", err.Error()}
	}
	defer px.Stop(20 * time.Second)
	conns := make([]net.Conn, len(c.Conns))
	which := make([]int, len(c.Conns)) // backend index reached by client connection k
	for k := range c.Conns {
		cl, err := net.DialTimeout("tcp", px.Addr, 2*time.Second)
		if err != nil {
			return false, &verdict{"client-dial", err.Error()}
		}
		conns[k] = cl
		defer cl.Close()
		// learn which backend accepted: wait until exactly one more backend has accepted
		deadline := time.Now().Add(5 * time.Second)
		found := -1
		for found < 0 && time.Now().Before(deadline) {
			for bi, b := range backends {
				if b.AcceptCount() == 1 && !contains(which[:k], bi) {
					found = bi
				}
			}
			if found < 0 {
				time.Sleep(200 * time.Microsecond)
			}
		}
		if found < 0 {
			return false, &verdict{"no-backend-connection", fmt.Sprintf("client connection %d was not relayed to any backend within 5s", k)}
		}
		which[k] = found
	}
	cres := make([]side, len(c.Conns))
	for k := range c.Conns {
		wg.Add(1)
		go func(k int) {
			defer wg.Done()
			i := which[k]
			cc := c.Conns[i]
			cl := conns[k]
			tc := cl.(*net.TCPConn)
			var swg sync.WaitGroup
			peerEOF := make(chan struct{})
			swg.Add(1)
			go func() {
				defer swg.Done()
				cres[i].got, cres[i].err = recvAll(cl, i, 1, cc.B2C.ReadSz, func() { close(peerEOF) })
			}()
			cres[i].werr = send(cl, cc.C2B, i, 0, 0, cc.C2B.Len)
			switch cc.Close {
			case "backend-first", "backend-full-after-eof":
				select {
				case <-peerEOF:
				case <-time.After(ioDeadline):
				}
				if cres[i].werr == nil && cc.Close == "backend-first" {
					cres[i].werr = send(cl, cc.C2B, i, 0, cc.C2B.Len, cc.Extra)
				}
			}
			tc.CloseWrite()
			swg.Wait()
		}(k)
	}
	wg.Wait()
	for i := range c.Conns {
		select {
		case <-bdone[i]:
		case <-time.After(ioDeadline):
			return nt, &verdict{"backend-side-never-finished", fmt.Sprintf("connection %d: the backend side did not see EOF within %v", i, ioDeadline)}
		}
	}
	for i, cc := range c.Conns {
		wantB := cc.C2B.Len
		wantC := cc.B2C.Len
		switch cc.Close {
		case "client-first":
			wantC += cc.Extra
		case "backend-first":
			wantB += cc.Extra
		}
		if cres[i].werr != nil || bres[i].werr != nil {
			res[i] = &verdict{"write-failed", fmt.Sprintf("connection %d (%s): client write error %v, backend write error %v", i, cc.Close, cres[i].werr, bres[i].werr)}
			continue
		}
		if bres[i].err != nil {
			res[i] = &verdict{"client-to-backend-corrupted", fmt.Sprintf("connection %d (%s): backend received: %v", i, cc.Close, bres[i].err)}
		} else if bres[i].got != wantB {
			res[i] = &verdict{"client-to-backend-length", fmt.Sprintf("connection %d (%s): backend received %d bytes before EOF, client sent %d", i, cc.Close, bres[i].got, wantB)}
		} else if cres[i].err != nil {
			res[i] = &verdict{"backend-to-client-corrupted", fmt.Sprintf("connection %d (%s): client received: %v", i, cc.Close, cres[i].err)}
		} else if cres[i].got != wantC {
			res[i] = &verdict{"backend-to-client-length", fmt.Sprintf("connection %d (%s): client received %d bytes before EOF, backend sent %d", i, cc.Close, cres[i].got, wantC)}
		}
		if (cc.C2B.Len > 16384 && cc.B2C.Len > 16384) || (cc.Extra > 0 && cc.Close != "both-half") || c.IdleMs > 0 {
			nt = true
		}
	}
	for _, r := range res {
		if r != nil {
			return nt, r
		}
	}
	return nt, nil
}

func contains(s []int, x int) bool {
	for _, y := range s {
		if y == x {
			return true
		}
	}
	return false
}

func genStream(t *rapid.T, label string, maxLen int) stream {
	var s stream
	switch rapid.IntRange(0, 7).Draw(t, label+".lencls") {
	case 0:
		s.Len = 0
	case 1:
		s.Len = rapid.SampledFrom([]int{1, 16383, 16384, 16385, 32768, 32769, 65536}).Draw(t, label+".edge")
	case 2:
		s.Len = rapid.IntRange(0, maxLen).Draw(t, label+".big")
	default:
		s.Len = rapid.IntRange(0, 70000).Draw(t, label+".len")
	}
	s.Chunks = rapid.SliceOfN(rapid.SampledFrom([]int{1, 7, 100, 1000, 4096, 16384, 16385, 65536}), 1, 4).Draw(t, label+".chunks")
	if s.Len > 200000 {
		for i := range s.Chunks {
			if s.Chunks[i] < 1000 {
				s.Chunks[i] = 4096
			}
		}
	} else if s.Len > 3000 {
		for i := range s.Chunks {
			if s.Chunks[i] == 1 {
				s.Chunks[i] = 13
			}
		}
	}
	s.GapUs = rapid.SliceOfN(rapid.SampledFrom([]int{0, 0, 0, 50, 500, 2000}), 1, 3).Draw(t, label+".gaps")
	if (s.Len/avg(s.Chunks)+1)*avg(s.GapUs) > 40000 { // keep the paced part of a stream below ~40 ms
		s.GapUs = []int{0}
	}
	s.ReadSz = rapid.SampledFrom([]int{1, 100, 4096, 16384, 65536}).Draw(t, label+".readsz")
	if s.Len > 20000 && s.ReadSz < 100 {
		s.ReadSz = 4096
	}
	return s
}

func avg(xs []int) int {
	t := 0
	for _, x := range xs {
		t += x
	}
	return t/len(xs) + 1
}

// genPaced: one side says little and half-closes (or stays silent), the other streams for about 2.5x the idle
// time-out with gaps far below it: the stream must arrive completely (an idle cut-off is per read).
func genPaced(t *rapid.T) relayCase {
	const idle = 1200
	c := relayCase{IdleMs: idle}
	small := stream{Len: rapid.IntRange(0, 100).Draw(t, "small"), Chunks: []int{100}, GapUs: []int{0}, ReadSz: 4096}
	long := stream{Len: 30 * 1024, Chunks: []int{1024}, GapUs: []int{100000}, ReadSz: 4096}
	// silentOpen: the side that says little does not half-close either; it stays open and silent until it has seen the streaming
	// side's EOF. Its direction then runs into the idle time-out, which ends that direction only (the proxy's own tests
	// assert the per-direction cut-off): the stream in the other direction must still arrive completely.
	silentOpen := rapid.Bool().Draw(t, "silentopen")
	if rapid.Bool().Draw(t, "backendstreams") {
		c.Conns = []connCase{{C2B: small, B2C: long, Close: "both-half"}}
		if silentOpen {
			c.Conns[0].Close = "backend-full-after-eof"
		}
	} else {
		c.Conns = []connCase{{C2B: long, B2C: small, Close: "both-half"}}
		if silentOpen {
			c.Conns[0].Close = "client-full-after-eof"
		}
	}
	return c
}

// genLongGap: a stream that says something early (0.2 T after the connection is up), pauses for 0.85 T - less than the idle
// time-out T, but ending later than T after the start - and goes on: the idle time-out counts from the last byte, not from
// when a deadline was armed. T is 4 s: the pause keeps 600 ms distance to it.
func genLongGap(t *rapid.T) relayCase {
	const idle = 4000
	c := relayCase{IdleMs: idle}
	small := stream{Len: rapid.IntRange(0, 100).Draw(t, "small"), Chunks: []int{100}, GapUs: []int{0}, ReadSz: 4096}
	long := stream{Len: 3 * 1000, Chunks: []int{1000}, GapUs: []int{idle * 200, idle * 850, 1000}, ReadSz: 4096}
	if rapid.Bool().Draw(t, "backendstreams") {
		c.Conns = []connCase{{C2B: small, B2C: long, Close: "both-half"}}
	} else {
		c.Conns = []connCase{{C2B: long, B2C: small, Close: "both-half"}}
	}
	return c
}

func genRelay(t *rapid.T) relayCase {
	switch rapid.IntRange(0, 14).Draw(t, "paced") {
	case 0:
		return genPaced(t)
	case 1:
		return genLongGap(t)
	}
	var c relayCase
	n := rapid.SampledFrom([]int{1, 1, 2, 4, 8, 16}).Draw(t, "conns")
	maxLen := 1 << 20
	if vh.Thorough() && rapid.IntRange(0, 9).Draw(t, "huge") == 0 {
		maxLen = 16 << 20
	}
	for i := 0; i < n; i++ {
		cc := connCase{C2B: genStream(t, "c2b", maxLen), B2C: genStream(t, "b2c", maxLen),
			Close: rapid.SampledFrom([]string{"both-half", "client-first", "backend-first", "client-full-after-eof", "backend-full-after-eof"}).Draw(t, "close")}
		if cc.Close == "client-first" || cc.Close == "backend-first" {
			cc.Extra = rapid.SampledFrom([]int{0, 1, 100, 20000, 70000}).Draw(t, "extra")
		}
		c.Conns = append(c.Conns, cc)
	}
	return c
}

func TestRelay(t *testing.T) {
	rapid.Check(t, func(t *rapid.T) {
		c := genRelay(t)
		vh.CurrentCase(prop, "relay", c)
		nt, v := checkRelay(c)
		vh.ClearCurrentCase()
		if v != nil {
			vh.Fail(t, vh.Failure{Property: prop, Part: "relay", Signature: v.sig, Message: v.msg, Case: c})
		}
		vh.Rec().Case("relay", nt, vh.JSON(c))
		for _, cc := range c.Conns {
			vh.Rec().Class("relay", "close_"+cc.Close)
		}
		if len(c.Conns) > 1 {
			vh.Rec().Class("relay", "concurrent_connections")
		}
		if c.IdleMs > 0 {
			vh.Rec().Class("relay", "one_direction_streams_longer_than_the_idle_timeout")
			if len(c.Conns) == 1 && c.Conns[0].Close != "both-half" && c.IdleMs == 1200 {
				vh.Rec().Class("relay", "silent_open_direction_runs_into_the_idle_timeout_while_the_other_streams")
			}
			if c.IdleMs == 4000 {
				vh.Rec().Class("relay", "pause_of_0.85_idle_timeout_after_an_early_byte")
			}
		}
		vh.Rec().Sample("relay", nt, func() interface{} { return c })
	})
}

func init() {
	vh.RegisterReplay("relay", func(t *testing.T, raw json.RawMessage) {
		var c relayCase
		json.Unmarshal(raw, &c)
		if _, v := checkRelay(c); v != nil {
			vh.Fail(t, vh.Failure{Property: prop, Part: "relay", Signature: v.sig, Message: v.msg, Case: c})
		}
	})
}

func TestReplay(t *testing.T) { vh.RunReplay(t) }
