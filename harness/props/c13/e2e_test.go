package c13

import (
	"encoding/json"
	"fmt"
	"strings"
	"sync"
	"testing"
	"time"

	redispb "github.com/samaritan-proxy/samaritan/pb/config/protocol/redis"
	"pgregory.net/rapid"

	"verif/harness/ref"
	"verif/harness/sim"
	"verif/harness/vh"
)

type eop struct {
	Op       string   `json:"op"` // cmd, toggle, redirect
	Cmd      [][]byte `json:"cmd,omitempty"`
	Enable   bool     `json:"enable,omitempty"`
	Key      string   `json:"key,omitempty"`
	Finalise bool     `json:"finalise,omitempty"` // redirect: true = MOVED (ownership moved), false = ASK (slot migrating)
}

type e2eCase struct {
	Masters   int    `json:"masters"`
	Threshold uint32 `json:"threshold"`
	Ops       []eop  `json:"ops"`
	// StartWithout: the service starts WITHOUT a compression section in its configuration; the section arrives with the first
	// toggle (a configuration update at run time). Backend connections opened before that must behave like the others afterwards.
	StartWithout bool `json:"start_without_section,omitempty"`
	Replicas     int  `json:"replicas,omitempty"`      // replicas per master (reads may use other connections than writes)
	Strategy     int  `json:"read_strategy,omitempty"` // 0 MASTER, 1 REPLICA, 2 BOTH
}

type e2eInfo struct{ compressedRedirected, compressedAfterToggle, compressedMulti, compressed bool }

var banned = map[string]bool{"append": true, "eval": true, "setbit": true, "getbit": true, "setrange": true, "getrange": true}

func checkE2E(c e2eCase) (inf e2eInfo, v *verdict) {
	w, err := sim.NewWorld(c.Masters, c.Replicas)
	if err != nil {
		return inf, nil
	}
	defer w.Close()
	w.AssignEven(w.Masters())
	cps := &redispb.Compression{Enable: true, Algorithm: redispb.Compression_SNAPPY, Threshold: c.Threshold}
	if c.StartWithout {
		cps = nil
	}
	px, err := sim.StartProxy(sim.ProxyOpts{Seeds: w.AllAddrs(), Compression: cps, ReadStrategy: redispb.ReadStrategy(c.Strategy)})
	if err != nil {
		return inf, &verdict{"proxy-start", err.Error()}
	}
	defer px.Stop(20 * time.Second)
	px.WaitTableLoaded(1, 10*time.Second)
	cl, err := sim.Dial(px.Addr)
	if err != nil {
		return inf, &verdict{"client-dial", err.Error()}
	}
	defer cl.Close()
	model := ref.NewKeyspace()
	enabled := !c.StartWithout
	toggled := false
	redirectArmed := false
	for i, o := range c.Ops {
		where := fmt.Sprintf("step %d", i)
		switch o.Op {
		case "toggle":
			ncfg := sim.RedisConfig(sim.ProxyOpts{Compression: &redispb.Compression{Enable: o.Enable, Algorithm: redispb.Compression_SNAPPY, Threshold: c.Threshold}, ReadStrategy: redispb.ReadStrategy(c.Strategy)})
			ncfg.Listener = px.Cfg.Listener
			if err := px.P.OnSvcConfigUpdate(ncfg); err != nil {
				return inf, &verdict{"config-update-rejected", err.Error()}
			}
			enabled = o.Enable
			toggled = true
		case "redirect":
			// move the key's slot to another node right before the next command so that it is redirected
			slot := ref.Slot([]byte(o.Key))
			from := w.Owner(slot)
			ms := w.Masters()
			if len(ms) < 2 || len(w.MigratingSlots()) > 0 {
				continue
			}
			to := ms[0]
			if to == from {
				to = ms[1]
			}
			if w.BeginMigration(slot, to) {
				if o.Finalise {
					w.Finalise(slot)
				}
				redirectArmed = true
			}
		case "cmd":
			name := strings.ToLower(string(o.Cmd[0]))
			w.ResetLog()
			m0, a0 := w.Redirects()
			got, err := cl.DoB(20*time.Second, o.Cmd...)
			if err != nil {
				return inf, &verdict{"reply-missing", fmt.Sprintf("%s: %s: %v", where, sim.ArgsString(o.Cmd), err)}
			}
			m1, a1 := w.Redirects()
			redirected := m1 != m0 || a1 != a0
			if banned[name] && enabled {
				if got.K != ref.Err {
					return inf, &verdict{"banned-not-rejected", fmt.Sprintf("%s: %s is disabled under compression but answered %s", where, name, got)}
				}
				for _, e := range w.Snapshot() {
					if !sim.IsBackground(e) && strings.EqualFold(string(e.Args[0]), name) {
						return inf, &verdict{"banned-reached-backend", fmt.Sprintf("%s: %s reached node %d", where, name, e.Node)}
					}
				}
				continue
			}
			orig := make([][]byte, len(o.Cmd))
			for k, a := range o.Cmd {
				orig[k] = append([]byte{}, a...)
			}
			want, _, _ := sim.Expect(model, orig)
			if !sim.SameReply(got, want) {
				return inf, &verdict{"read-back-differs", fmt.Sprintf("%s: %s (compression enabled=%v, redirected=%v) answered %s, written data gives %s", where, sim.ArgsString(orig), enabled, redirected, got, want)}
			}
			// what reached the backend for the value arguments
			anyCompressed := false
			checkStored := func(args [][]byte) *verdict {
				for _, p := range valuePositions(args) {
					key := string(args[1])
					loc := w.KeyLocation(key)
					if len(loc) != 1 {
						continue
					}
					w.Lock()
					obj := w.Nodes[loc[0]].KS.M[key]
					var stored []byte
					switch {
					case obj == nil:
					case obj.T == 's':
						stored = obj.Str
					case obj.T == 'h':
						stored = obj.H[string(args[p-1])]
					}
					w.Unlock()
					if stored == nil {
						continue
					}
					// only judge when this write actually set the value (SETNX / HSETNX may not)
					mo := model.M[key]
					var mv []byte
					if mo != nil && mo.T == 's' {
						mv = mo.Str
					} else if mo != nil && mo.T == 'h' {
						mv = mo.H[string(args[p-1])]
					}
					if string(mv) != string(args[p]) {
						continue
					}
					thr := c.Threshold
					if !enabled {
						thr = 1 << 31 // nothing may be compressed while disabled
					}
					compressed, vd := storedOK(args[p], stored, thr)
					if vd != nil {
						vd.msg = fmt.Sprintf("%s: %s value at position %d (redirected=%v): %s", where, args[0], p, redirected, vd.msg)
						return vd
					}
					if compressed {
						anyCompressed = true
					}
				}
				return nil
			}
			switch name {
			case "mset":
				for k := 1; k+1 < len(orig); k += 2 {
					if vd := checkStored([][]byte{[]byte("set"), orig[k], orig[k+1]}); vd != nil {
						return inf, vd
					}
				}
				if anyCompressed {
					inf.compressedMulti = true
				}
			default:
				if vd := checkStored(orig); vd != nil {
					return inf, vd
				}
				if anyCompressed && name == "hmset" {
					inf.compressedMulti = true
				}
			}
			if anyCompressed {
				inf.compressed = true
				if redirected && redirectArmed {
					inf.compressedRedirected = true
				}
				if toggled {
					inf.compressedAfterToggle = true
				}
			}
			if redirected {
				redirectArmed = false
				for _, s := range w.MigratingSlots() {
					w.Finalise(s)
				}
			}
		}
	}
	return inf, nil
}

func genE2E(t *rapid.T) e2eCase {
	thr := rapid.IntRange(1, 400).Draw(t, "thr")
	if rapid.IntRange(0, 5).Draw(t, "bigthr") == 0 {
		thr = rapid.IntRange(400, 20000).Draw(t, "thr2")
	}
	c := e2eCase{Masters: rapid.IntRange(1, 3).Draw(t, "masters"), Threshold: uint32(thr), StartWithout: rapid.IntRange(0, 3).Draw(t, "startwithout") == 0}
	if rapid.IntRange(0, 2).Draw(t, "replicas") == 0 {
		c.Replicas, c.Strategy = 1, rapid.IntRange(0, 2).Draw(t, "strategy")
	}
	b := func(s string) []byte { return []byte(s) }
	key := func() []byte { return b(fmt.Sprintf("k%d", rapid.IntRange(0, 5).Draw(t, "k"))) }
	hkey := func() []byte { return b(fmt.Sprintf("h%d", rapid.IntRange(0, 3).Draw(t, "hk"))) }
	field := func() []byte { return b(fmt.Sprintf("f%d", rapid.IntRange(0, 3).Draw(t, "f"))) }
	val := func() []byte {
		v := genVal(t, "v", thr)
		if len(v) > 70000 {
			v = v[:70000]
		}
		return v
	}
	n := rapid.IntRange(2, 30).Draw(t, "n")
	for i := 0; i < n; i++ {
		switch x := rapid.IntRange(0, 24).Draw(t, "op"); {
		case x <= 2:
			c.Ops = append(c.Ops, eop{Op: "cmd", Cmd: [][]byte{b("SET"), key(), val()}})
		case x == 3:
			if rapid.Bool().Draw(t, "setget") {
				// SET with the GET option answers with the OLD value: a read-back of whatever was stored before
				c.Ops = append(c.Ops, eop{Op: "cmd", Cmd: [][]byte{b(rapid.SampledFrom([]string{"SET", "set"}).Draw(t, "sg")), key(), val(), b(rapid.SampledFrom([]string{"GET", "get"}).Draw(t, "sgo"))}})
				break
			}
			c.Ops = append(c.Ops, eop{Op: "cmd", Cmd: [][]byte{b("set"), key(), val(), b("EX"), b("100")}})
		case x == 4:
			c.Ops = append(c.Ops, eop{Op: "cmd", Cmd: [][]byte{b("SETNX"), key(), val()}})
		case x == 5:
			c.Ops = append(c.Ops, eop{Op: "cmd", Cmd: [][]byte{b("GETSET"), key(), val()}})
		case x == 6:
			c.Ops = append(c.Ops, eop{Op: "cmd", Cmd: [][]byte{b(rapid.SampledFrom([]string{"SETEX", "psetex"}).Draw(t, "sx")), key(), b("1000"), val()}})
		case x <= 8:
			c.Ops = append(c.Ops, eop{Op: "cmd", Cmd: [][]byte{b("MSET"), b("k0"), val(), b("k3"), val(), b("k5"), val()}})
		case x == 9:
			c.Ops = append(c.Ops, eop{Op: "cmd", Cmd: [][]byte{b("HSET"), hkey(), field(), val()}})
		case x == 10:
			c.Ops = append(c.Ops, eop{Op: "cmd", Cmd: [][]byte{b("HMSET"), hkey(), b("f0"), val(), b("f1"), val()}})
		case x == 11:
			c.Ops = append(c.Ops, eop{Op: "cmd", Cmd: [][]byte{b("HSETNX"), hkey(), field(), val()}})
		case x <= 14:
			c.Ops = append(c.Ops, eop{Op: "cmd", Cmd: [][]byte{b("GET"), key()}})
		case x == 15:
			c.Ops = append(c.Ops, eop{Op: "cmd", Cmd: [][]byte{b("MGET"), b("k0"), b("k1"), b("k3"), b("k5")}})
		case x == 16:
			c.Ops = append(c.Ops, eop{Op: "cmd", Cmd: [][]byte{b(rapid.SampledFrom([]string{"HGET", "hget"}).Draw(t, "hg")), hkey(), field()}})
		case x == 17:
			if rapid.IntRange(0, 2).Draw(t, "hscan") == 0 {
				c.Ops = append(c.Ops, eop{Op: "cmd", Cmd: [][]byte{b(rapid.SampledFrom([]string{"HSCAN", "hscan"}).Draw(t, "hs")), hkey(), b("0")}})
				break
			}
			c.Ops = append(c.Ops, eop{Op: "cmd", Cmd: [][]byte{b(rapid.SampledFrom([]string{"HGETALL", "HVALS"}).Draw(t, "ha")), hkey()}})
		case x == 18:
			c.Ops = append(c.Ops, eop{Op: "cmd", Cmd: [][]byte{b("HMGET"), hkey(), b("f0"), b("f1"), b("f3")}})
		case x == 19:
			c.Ops = append(c.Ops, eop{Op: "toggle", Enable: rapid.Bool().Draw(t, "enable")})
		case x <= 22:
			c.Ops = append(c.Ops, eop{Op: "redirect", Key: string(key()), Finalise: rapid.Bool().Draw(t, "fin")})
			// followed by a write on that key
			k := c.Ops[len(c.Ops)-1].Key
			c.Ops = append(c.Ops, eop{Op: "cmd", Cmd: [][]byte{b(rapid.SampledFrom([]string{"SET", "GETSET", "SETNX"}).Draw(t, "rw")), b(k), val()}})
		default:
			bc := rapid.SampledFrom([]string{"APPEND", "eval", "SETBIT", "getbit", "SETRANGE", "GETRANGE"}).Draw(t, "banned")
			if strings.EqualFold(bc, "eval") {
				c.Ops = append(c.Ops, eop{Op: "cmd", Cmd: [][]byte{b(bc), b("return 1"), b("1"), key()}})
			} else {
				c.Ops = append(c.Ops, eop{Op: "cmd", Cmd: [][]byte{b(bc), key(), b("1"), b("1")}})
			}
		}
	}
	// final read-back of everything
	for k := 0; k < 6; k++ {
		c.Ops = append(c.Ops, eop{Op: "cmd", Cmd: [][]byte{b("GET"), b(fmt.Sprintf("k%d", k))}})
	}
	for k := 0; k < 4; k++ {
		c.Ops = append(c.Ops, eop{Op: "cmd", Cmd: [][]byte{b("HGETALL"), b(fmt.Sprintf("h%d", k))}})
		c.Ops = append(c.Ops, eop{Op: "cmd", Cmd: [][]byte{b("HSCAN"), b(fmt.Sprintf("h%d", k)), b("0")}})
	}
	return c
}

func describeE2E(c e2eCase) interface{} {
	var ops []string
	for i, o := range c.Ops {
		if i >= 12 {
			ops = append(ops, fmt.Sprintf("...(%d steps)", len(c.Ops)))
			break
		}
		if o.Op == "cmd" {
			ops = append(ops, sim.ArgsString(o.Cmd))
		} else {
			ops = append(ops, vh.JSON(o))
		}
	}
	return map[string]interface{}{"masters": c.Masters, "threshold": c.Threshold, "steps": ops}
}

func TestE2E(t *testing.T) {
	rapid.Check(t, func(t *rapid.T) {
		c := genE2E(t)
		vh.CurrentCase(prop, "e2e", c)
		inf, v := checkE2E(c)
		vh.ClearCurrentCase()
		if v != nil {
			vh.Fail(t, vh.Failure{Property: prop, Part: "e2e", Signature: v.sig, Message: v.msg, Case: c})
		}
		nt := inf.compressedRedirected || inf.compressedAfterToggle || inf.compressedMulti
		vh.Rec().Case("e2e", nt, vh.JSON(c))
		if inf.compressedRedirected {
			vh.Rec().Class("e2e", "compressed_write_redirected")
		}
		if inf.compressedAfterToggle {
			vh.Rec().Class("e2e", "compressed_after_toggle")
		}
		if inf.compressedMulti {
			vh.Rec().Class("e2e", "compressed_by_multi_value_command")
		}
		vh.Rec().Sample("e2e", nt, func() interface{} { return describeE2E(c) })
	})
}

func init() {
	vh.RegisterReplay("e2e", func(t *testing.T, raw json.RawMessage) {
		var c e2eCase
		if err := json.Unmarshal(raw, &c); err != nil {
			t.Fatal(err)
		}
		if _, v := checkE2E(c); v != nil {
			vh.Fail(t, vh.Failure{Property: prop, Part: "e2e", Signature: v.sig, Message: v.msg, Case: c})
		}
	})
}

// ---- concurrent writers and readers over the same backend connection

type concE2ECase struct {
	Masters   int    `json:"masters"`
	Threshold uint32 `json:"threshold"`
	Keys      int    `json:"keys"`
	Writers   int    `json:"writers"`
	Readers   int    `json:"readers"`
	Rounds    int    `json:"rounds"`
	Seed      uint64 `json:"seed"`
}

func concValue(seed uint64, i int) []byte {
	// compressible, distinct per key
	return []byte(fmt.Sprintf("k%d-%d;", i, seed) + strings.Repeat(fmt.Sprintf("abcdefgh%d", i%7), 20+i%60))
}

func checkConcE2E(c concE2ECase) *verdict {
	w, err := sim.NewWorld(c.Masters, 0)
	if err != nil {
		return nil
	}
	defer w.Close()
	w.AssignEven(w.Masters())
	defer sim.ProductionRefreshRate()() // stable layout: see the function
	px, err := sim.StartProxy(sim.ProxyOpts{Seeds: w.AllAddrs(), Compression: &redispb.Compression{Enable: true, Algorithm: redispb.Compression_SNAPPY, Threshold: c.Threshold}})
	if err != nil {
		return &verdict{"proxy-start", err.Error()}
	}
	defer px.Stop(20 * time.Second)
	px.WaitTableLoaded(1, 10*time.Second)
	key := func(i int) string { return fmt.Sprintf("cc:%d", i) }
	// phase 1: sequential
	cl, err := sim.Dial(px.Addr)
	if err != nil {
		return nil
	}
	for i := 0; i < c.Keys; i++ {
		if r, err := cl.DoB(20*time.Second, []byte("SET"), []byte(key(i)), concValue(c.Seed, i)); err != nil || r.IsErr() {
			cl.Close()
			return &verdict{"reply-missing", fmt.Sprintf("SET: %s %v", r, err)}
		}
	}
	cl.Close()
	// phase 2: writers re-write the same values while readers read them, all through the same backend connections
	var wg sync.WaitGroup
	res := make([]*verdict, c.Writers+c.Readers)
	for g := 0; g < c.Writers+c.Readers; g++ {
		wg.Add(1)
		go func(g int) {
			defer wg.Done()
			cl, err := sim.Dial(px.Addr)
			if err != nil {
				return
			}
			defer cl.Close()
			for r := 0; r < c.Rounds; r++ {
				i := (g*31 + r*7) % c.Keys
				if g < c.Writers {
					if rep, err := cl.DoB(20*time.Second, []byte("SET"), []byte(key(i)), concValue(c.Seed, i)); err != nil || rep.IsErr() {
						res[g] = &verdict{"reply-missing", fmt.Sprintf("concurrent SET: %s %v", rep, err)}
						return
					}
					continue
				}
				rep, err := cl.Do(20*time.Second, "GET", key(i))
				if err != nil {
					res[g] = &verdict{"reply-missing", fmt.Sprintf("concurrent GET: %v", err)}
					return
				}
				if want := concValue(c.Seed, i); rep.K != ref.Bulk || string(rep.S) != string(want) {
					res[g] = &verdict{"read-back-differs", fmt.Sprintf("GET %s under %d concurrent writers and %d readers returned %q, written %q", key(i), c.Writers, c.Readers, clip(rep.S), clip(want))}
					return
				}
			}
		}(g)
	}
	wg.Wait()
	for _, r := range res {
		if r != nil {
			return r
		}
	}
	// what the backends hold
	for i := 0; i < c.Keys; i++ {
		loc := w.KeyLocation(key(i))
		if len(loc) != 1 {
			return &verdict{"stored-neither-original-nor-framed", fmt.Sprintf("key %s is on %d nodes", key(i), len(loc))}
		}
		w.Lock()
		stored := append([]byte{}, w.Nodes[loc[0]].KS.M[key(i)].Str...)
		w.Unlock()
		if _, vd := storedOK(concValue(c.Seed, i), stored, c.Threshold); vd != nil {
			vd.msg = fmt.Sprintf("key %s after concurrent writes: %s", key(i), vd.msg)
			return vd
		}
	}
	return nil
}

func TestE2EConcurrent(t *testing.T) {
	rapid.Check(t, func(t *rapid.T) {
		c := concE2ECase{Masters: rapid.IntRange(1, 2).Draw(t, "masters"), Threshold: uint32(rapid.IntRange(16, 128).Draw(t, "thr")), Keys: rapid.IntRange(4, 40).Draw(t, "keys"),
			Writers: rapid.IntRange(1, 6).Draw(t, "writers"), Readers: rapid.IntRange(1, 6).Draw(t, "readers"), Rounds: rapid.IntRange(50, 600).Draw(t, "rounds"), Seed: rapid.Uint64Range(1, 1<<20).Draw(t, "seed")}
		vh.CurrentCase(prop, "e2e-concurrent", c)
		v := checkConcE2E(c)
		vh.ClearCurrentCase()
		if v != nil {
			vh.Fail(t, vh.Failure{Property: prop, Part: "e2e-concurrent", Signature: v.sig, Message: v.msg, Case: c})
		}
		vh.Rec().Case("e2e-concurrent", true, vh.JSON(c))
		vh.Rec().Sample("e2e-concurrent", true, func() interface{} { return c })
	})
}

func init() {
	vh.RegisterReplay("e2e-concurrent", func(t *testing.T, raw json.RawMessage) {
		var c concE2ECase
		json.Unmarshal(raw, &c)
		for i := 0; i < 5; i++ {
			if v := checkConcE2E(c); v != nil {
				vh.Fail(t, vh.Failure{Property: prop, Part: "e2e-concurrent", Signature: v.sig, Message: v.msg, Case: c})
			}
		}
	})
}
