// Package c13 decides property C13: transparent compression never changes what
// clients read back.
package c13

import (
	"bytes"
	"encoding/json"
	"fmt"
	"io"
	"strings"
	"sync"
	"testing"

	"github.com/golang/snappy"
	"github.com/samaritan-proxy/samaritan/pb/config/protocol"
	redispb "github.com/samaritan-proxy/samaritan/pb/config/protocol/redis"
	"github.com/samaritan-proxy/samaritan/pb/config/service"
	sut "github.com/samaritan-proxy/samaritan/proc/redis"
	"pgregory.net/rapid"

	"verif/harness/gen"
	"verif/harness/ref"
	"verif/harness/vh"
)

const prop = "C13"

func TestMain(m *testing.M) { vh.Main(m) }

type verdict struct{ sig, msg string }

var header = []byte("(P$\x00\r\n")

func cpsConfig(enable bool, threshold uint32) *service.Config {
	return &service.Config{Protocol: protocol.Redis, ProtocolOptions: &service.Config_RedisOption{RedisOption: &protocol.RedisOption{
		Compression: &redispb.Compression{Enable: enable, Algorithm: redispb.Compression_SNAPPY, Threshold: threshold}}}}
}

// valuePositions returns the indices of value arguments of a supported write command.
func valuePositions(args [][]byte) []int {
	var pos []int
	switch strings.ToLower(string(args[0])) {
	case "set", "getset", "setnx":
		if len(args) > 2 {
			pos = append(pos, 2)
		}
	case "setex", "psetex", "hset", "hsetnx":
		if len(args) > 3 {
			pos = append(pos, 3)
		}
	case "hmset":
		for i := 3; i < len(args); i += 2 {
			pos = append(pos, i)
		}
	}
	return pos
}

type unitCase struct {
	Args      [][]byte `json:"args"`
	Threshold uint32   `json:"threshold"`
	Times     int      `json:"times"`        // how often the filter chain runs on the write (1 + number of resends)
	ReadOff   bool     `json:"read_disabled"` // read back with compression switched off (config still present)
}

// storedOK checks the documented relation between an original value and what reaches the backend.
func storedOK(orig, stored []byte, threshold uint32) (compressed bool, v *verdict) {
	if bytes.Equal(orig, stored) {
		return false, nil
	}
	if uint32(len(orig)) < threshold {
		return false, &verdict{"below-threshold-modified", fmt.Sprintf("value of %d bytes (< threshold %d) was modified", len(orig), threshold)}
	}
	if !bytes.HasPrefix(stored, header) {
		return false, &verdict{"stored-neither-original-nor-framed", fmt.Sprintf("stored bytes %q are neither the original nor header+stream", clip(stored))}
	}
	dec, err := io.ReadAll(snappy.NewReader(bytes.NewReader(stored[len(header):])))
	if err != nil || !bytes.Equal(dec, orig) {
		return true, &verdict{"stored-does-not-decompress-to-original", fmt.Sprintf("stored stream decodes to %d bytes (err %v), original has %d bytes", len(dec), err, len(orig))}
	}
	if len(stored) >= len(orig) {
		return true, &verdict{"stored-not-shorter", fmt.Sprintf("stored %d bytes for an original of %d bytes", len(stored), len(orig))}
	}
	return true, nil
}

func checkUnit(c unitCase) (nt bool, v *verdict) {
	orig := make([][]byte, len(c.Args))
	for i, a := range c.Args {
		orig[i] = append([]byte{}, a...)
	}
	body := gen.ToSUT(ref.CmdB(c.Args...))
	stopped, early, finish := sut.VerifFilterRequest(cpsConfig(true, c.Threshold), body, c.Times)
	if stopped {
		return false, &verdict{"supported-write-rejected", fmt.Sprintf("%s was rejected by the filter: %v", orig[0], gen.FromSUT(early))}
	}
	if len(body.Array) != len(orig) {
		return false, &verdict{"argument-count-changed", "filter changed the number of arguments"}
	}
	pos := map[int]bool{}
	for _, p := range valuePositions(orig) {
		pos[p] = true
	}
	for i := range orig {
		stored := body.Array[i].Text
		if !pos[i] {
			if !bytes.Equal(stored, orig[i]) {
				return false, &verdict{"non-value-argument-modified", fmt.Sprintf("argument %d of %s changed from %q to %q", i, orig[0], clip(orig[i]), clip(stored))}
			}
			continue
		}
		compressed, vd := storedOK(orig[i], stored, c.Threshold)
		if vd != nil {
			vd.msg = fmt.Sprintf("%s argument %d (filter ran %d time(s)): %s", orig[0], i, c.Times, vd.msg)
			return compressed, vd
		}
		if compressed {
			nt = true
		}
		// read it back through a fresh read request, as a later GET/HGET would
		_, _, rfinish := sut.VerifFilterRequest(cpsConfig(!c.ReadOff, c.Threshold), gen.ToSUT(ref.Cmd("get", "k")), 1)
		got := rfinish(gen.ToSUT(ref.BulkV(stored)))
		if gv := gen.FromSUT(got); gv.K != ref.Bulk || !bytes.Equal(gv.S, orig[i]) {
			return nt, &verdict{"read-back-differs", fmt.Sprintf("%s argument %d: read back %q, written %q", orig[0], i, clip(gv.S), clip(orig[i]))}
		}
		// and inside an array reply (HGETALL / MGET children)
		_, _, rfinish = sut.VerifFilterRequest(cpsConfig(!c.ReadOff, c.Threshold), gen.ToSUT(ref.Cmd("hgetall", "k")), 1)
		got = rfinish(gen.ToSUT(ref.ArrV(ref.BulkS("f"), ref.BulkV(stored))))
		if gv := gen.FromSUT(got); gv.K != ref.Arr || len(gv.A) != 2 || !bytes.Equal(gv.A[1].S, orig[i]) || !bytes.Equal(gv.A[0].S, []byte("f")) {
			return nt, &verdict{"read-back-differs", fmt.Sprintf("%s argument %d: array read back %s, written %q", orig[0], i, gv, clip(orig[i]))}
		}
		// and one level deeper, as HSCAN (and SSCAN / ZSCAN) replies carry their values: [cursor, [field, value, ...]]
		_, _, rfinish = sut.VerifFilterRequest(cpsConfig(!c.ReadOff, c.Threshold), gen.ToSUT(ref.Cmd("hscan", "k", "0")), 1)
		got = rfinish(gen.ToSUT(ref.ArrV(ref.BulkS("0"), ref.ArrV(ref.BulkS("f"), ref.BulkV(stored)))))
		if gv := gen.FromSUT(got); gv.K != ref.Arr || len(gv.A) != 2 || gv.A[1].K != ref.Arr || len(gv.A[1].A) != 2 || !bytes.Equal(gv.A[1].A[1].S, orig[i]) || !bytes.Equal(gv.A[0].S, []byte("0")) {
			return nt, &verdict{"read-back-differs", fmt.Sprintf("%s argument %d: HSCAN-shaped reply read back %s, written %q", orig[0], i, gv, clip(orig[i]))}
		}
	}
	// the write's own reply passes through untouched for plain replies
	if finish != nil {
		r := finish(gen.ToSUT(ref.OKV()))
		if gv := gen.FromSUT(r); !ref.Equal(gv, ref.OKV()) {
			return nt, &verdict{"write-reply-changed", fmt.Sprintf("+OK became %s", gv)}
		}
	}
	return nt, nil
}

func clip(b []byte) []byte {
	if len(b) > 60 {
		return append(append([]byte{}, b[:60]...), "..."...)
	}
	return b
}

// Val generates a value of a given entropy class around the threshold.
func genVal(t *rapid.T, label string, threshold int) []byte {
	var n int
	switch rapid.IntRange(0, 5).Draw(t, label+".lc") {
	case 0:
		n = threshold + rapid.IntRange(-2, 2).Draw(t, label+".d")
	case 1:
		n = rapid.IntRange(0, 262144).Draw(t, label+".big")
	case 2:
		n = rapid.IntRange(0, 64).Draw(t, label+".small")
	default:
		n = threshold + rapid.IntRange(0, 4000).Draw(t, label+".above")
	}
	if n < 0 {
		n = 0
	}
	var b []byte
	switch rapid.IntRange(0, 4).Draw(t, label+".cls") {
	case 0: // constant
		b = bytes.Repeat([]byte{rapid.Byte().Draw(t, label+".c")}, n)
	case 1: // short period
		blk := rapid.SliceOfN(rapid.Byte(), 1, 9).Draw(t, label+".blk")
		b = bytes.Repeat(blk, n/len(blk)+1)[:n]
	case 2: // text-like
		words := []string{"the ", "quick ", "brown ", "fox ", "samaritan ", "proxy ", "redis ", "\r\n", "0123456789 "}
		var sb bytes.Buffer
		x := rapid.Uint64().Draw(t, label+".x") | 1
		for sb.Len() < n {
			x ^= x << 13
			x ^= x >> 7
			x ^= x << 17
			sb.WriteString(words[x%uint64(len(words))])
		}
		b = sb.Bytes()[:n]
	case 3: // incompressible
		b = make([]byte, n)
		x := rapid.Uint64().Draw(t, label+".x") | 1
		for i := range b {
			x ^= x << 13
			x ^= x >> 7
			x ^= x << 17
			b[i] = byte(x >> 24)
		}
	default: // a snappy framed stream without our header (looks like compressed data)
		var sb bytes.Buffer
		w := snappy.NewBufferedWriter(&sb)
		w.Write(bytes.Repeat([]byte("abcdefgh"), n/8+1))
		w.Close()
		b = sb.Bytes()
		if len(b) > n && n > 0 {
			b = b[:n]
		}
	}
	// the statement excludes values that themselves start with the compression header
	if bytes.HasPrefix(b, []byte("(P$")) {
		b[0] = 'X'
	}
	return b
}

func genUnit(t *rapid.T) unitCase {
	thr := rapid.IntRange(1, 70000).Draw(t, "thr")
	if rapid.IntRange(0, 2).Draw(t, "smallthr") != 0 {
		thr = rapid.IntRange(1, 300).Draw(t, "thr2")
	}
	c := unitCase{Threshold: uint32(thr), Times: 1, ReadOff: rapid.IntRange(0, 3).Draw(t, "readoff") == 0}
	if rapid.IntRange(0, 2).Draw(t, "resend") == 0 {
		c.Times = rapid.IntRange(2, 3).Draw(t, "times")
	}
	key := []byte(rapid.StringMatching(`[a-z{}]{1,8}`).Draw(t, "key"))
	cmd := rapid.SampledFrom([]string{"set", "SET", "getset", "setnx", "setex", "psetex", "hset", "hsetnx", "hmset", "HMSET", "Set"}).Draw(t, "cmd")
	switch strings.ToLower(cmd) {
	case "set":
		c.Args = [][]byte{[]byte(cmd), key, genVal(t, "v", thr)}
		switch rapid.IntRange(0, 3).Draw(t, "opt") {
		case 1:
			c.Args = append(c.Args, []byte("EX"), []byte(fmt.Sprint(rapid.IntRange(1, 100000).Draw(t, "ex"))))
		case 2:
			c.Args = append(c.Args, []byte("NX"))
		case 3:
			c.Args = append(c.Args, []byte("PX"), []byte("1000"), []byte("XX"))
		}
	case "getset", "setnx":
		c.Args = [][]byte{[]byte(cmd), key, genVal(t, "v", thr)}
	case "setex", "psetex":
		c.Args = [][]byte{[]byte(cmd), key, []byte(fmt.Sprint(rapid.IntRange(1, 1000000).Draw(t, "ttl"))), genVal(t, "v", thr)}
	case "hset", "hsetnx":
		c.Args = [][]byte{[]byte(cmd), key, genVal(t, "f", 4), genVal(t, "v", thr)}
	case "hmset":
		c.Args = [][]byte{[]byte(cmd), key}
		for i, n := 0, rapid.IntRange(1, 4).Draw(t, "pairs"); i < n; i++ {
			c.Args = append(c.Args, genVal(t, "f", 4), genVal(t, "v", thr))
		}
	}
	return c
}

func describeUnit(c unitCase) interface{} {
	var args []string
	for _, a := range c.Args {
		if len(a) > 24 {
			args = append(args, fmt.Sprintf("%q...(%d bytes)", a[:24], len(a)))
		} else {
			args = append(args, fmt.Sprintf("%q", a))
		}
	}
	return map[string]interface{}{"args": args, "threshold": c.Threshold, "filter_runs": c.Times, "read_with_compression_off": c.ReadOff}
}

func TestUnit(t *testing.T) {
	rapid.Check(t, func(t *rapid.T) {
		c := genUnit(t)
		nt, v := checkUnit(c)
		if v != nil {
			vh.Fail(t, vh.Failure{Property: prop, Part: "unit", Signature: v.sig, Message: v.msg, Case: c})
		}
		vh.Rec().Case("unit", nt, vh.JSON(c))
		if nt && c.Times > 1 {
			vh.Rec().Class("unit", "compressed_and_resent")
		}
		if nt && c.ReadOff {
			vh.Rec().Class("unit", "compressed_read_with_compression_off")
		}
		if nt {
			vh.Rec().Class("unit", "compressed")
		}
		vh.Rec().Sample("unit", nt, func() interface{} { return describeUnit(c) })
	})
}

// TestUnitConcurrent runs several generated cases at once: the pooled snappy
// writers/readers and buffers must not leak bytes between requests.
func TestUnitConcurrent(t *testing.T) {
	rapid.Check(t, func(t *rapid.T) {
		n := rapid.IntRange(2, 8).Draw(t, "g")
		cases := make([]unitCase, n)
		for i := range cases {
			cases[i] = genUnit(t)
			cases[i].Times = 1
		}
		var wg sync.WaitGroup
		res := make([]*verdict, n)
		for i := range cases {
			wg.Add(1)
			go func(i int) {
				defer wg.Done()
				for r := 0; r < 4 && res[i] == nil; r++ {
					cc := cases[i]
					cc.Args = make([][]byte, len(cases[i].Args))
					for j, a := range cases[i].Args {
						cc.Args[j] = append([]byte{}, a...)
					}
					_, res[i] = checkUnit(cc)
				}
			}(i)
		}
		wg.Wait()
		for i, v := range res {
			if v != nil {
				vh.Fail(t, vh.Failure{Property: prop, Part: "unit", Signature: v.sig, Message: "(concurrent) " + v.msg, Case: cases[i]})
			}
		}
		vh.Rec().Case("unit-concurrent", true, vh.JSON(cases))
		vh.Rec().Sample("unit-concurrent", true, func() interface{} { return map[string]interface{}{"goroutines": n, "first": describeUnit(cases[0])} })
	})
}

// TestBanned: commands documented as disabled under compression are stopped by the filter.
func TestBanned(t *testing.T) {
	rapid.Check(t, func(t *rapid.T) {
		cmd := rapid.SampledFrom([]string{"append", "eval", "setbit", "getbit", "setrange", "getrange", "APPEND", "GetRange", "EVAL"}).Draw(t, "cmd")
		args := []string{cmd, "k", "1", "k2", "v"}
		enable := rapid.Bool().Draw(t, "enable")
		stopped, early, _ := sut.VerifFilterRequest(cpsConfig(enable, 8), gen.ToSUT(ref.Cmd(args...)), 1)
		if enable && (!stopped || early == nil || gen.FromSUT(early).K != ref.Err) {
			vh.Fail(t, vh.Failure{Property: prop, Part: "banned", Signature: "banned-not-rejected", Message: cmd + " was not rejected while compression is enabled", Case: args})
		}
		if !enable && stopped {
			vh.Fail(t, vh.Failure{Property: prop, Part: "banned", Signature: "banned-rejected-while-off", Message: cmd + " was rejected while compression is off", Case: args})
		}
		vh.Rec().Case("banned", enable, cmd+fmt.Sprint(enable))
		vh.Rec().Sample("banned", enable, func() interface{} { return map[string]interface{}{"cmd": cmd, "enabled": enable, "stopped": stopped} })
	})
}

func init() {
	vh.RegisterReplay("unit", func(t *testing.T, raw json.RawMessage) {
		var c unitCase
		if err := json.Unmarshal(raw, &c); err != nil {
			t.Fatal(err)
		}
		if _, v := checkUnit(c); v != nil {
			vh.Fail(t, vh.Failure{Property: prop, Part: "unit", Signature: v.sig, Message: v.msg, Case: c})
		}
	})
}

func TestReplay(t *testing.T) { vh.RunReplay(t) }
