package c20

import (
	"encoding/json"
	"fmt"
	"sync/atomic"
	"testing"
	"time"

	"pgregory.net/rapid"

	"github.com/samaritan-proxy/samaritan/proc"
	_ "github.com/samaritan-proxy/samaritan/proc/redis"

	"verif/harness/memnet"
	"verif/harness/sim"
	"verif/harness/statpurge"
	"verif/harness/vh"
)

// part churn: the listener's connection accounting under connections that end at exactly the same instant. The service
// listens on an in-memory listener (package memnet); each round hands it m connections, each of which sends one PING, and
// then all peers vanish at once (one channel close wakes every reader). After every round the service is quiescent.

type churnCase struct {
	Limit   int   `json:"limit"`
	Rounds  []int `json:"rounds"`        // connections per round
	Split   bool  `json:"split"`         // the peers vanish in two groups a moment apart instead of all at once
	EndStop bool  `json:"end_with_stop"` // the last round ends with Stop while its connections are open
}

var churnPort int64 = 20000

func checkChurn(c churnCase) (closings int, v *verdict) {
	memnet.Install()
	defer sim.ProductionRefreshRate()() // no backend at all: keep the refresh loop quiet
	port := int(atomic.AddInt64(&churnPort, 1))
	ml := memnet.Register("127.0.0.1", port)
	defer ml.Unregister()
	cfg := sim.RedisConfig(sim.ProxyOpts{ConnLimit: uint32(c.Limit)})
	cfg.Listener.Address.Port = uint32(port)
	name := fmt.Sprintf("churn%d", port)
	statpurge.Sweep()
	p, err := proc.New(name, cfg, nil)
	if err != nil {
		return 0, &verdict{"proxy-start", err.Error()}
	}
	if err := p.Start(); err != nil {
		return 0, &verdict{"proxy-start", err.Error()}
	}
	stopped := false
	stop := func() bool {
		stopped = true
		done := make(chan struct{})
		go func() { p.Stop(); close(done) }()
		select {
		case <-done:
			statpurge.MarkStopped(name)
			return true
		case <-time.After(20 * time.Second):
			return false
		}
	}
	defer func() {
		if !stopped {
			stop()
		}
	}()
	ctr := func(path string) uint64 { return statpurge.Counter(name, path) }
	id := 0
	restrictedWant := uint64(0)
	for ri, m := range c.Rounds {
		where := fmt.Sprintf("round %d (%d connections)", ri, m)
		goneA, goneB := make(chan struct{}), make(chan struct{})
		conns := make([]*memnet.Conn, 0, m)
		for k := 0; k < m; k++ {
			g := goneA
			if c.Split && k%2 == 1 {
				g = goneB
			}
			id++
			mc, err := ml.Dial([]byte("PING\r\n"), g, id)
			if err != nil {
				return closings, &verdict{"listener-closed", where + ": the service closed its listener while running"}
			}
			conns = append(conns, mc)
		}
		// every connection is either served (its PING was answered) or was closed by the service (connection limit)
		deadline := time.Now().Add(10 * time.Second)
		served, rejected := 0, 0
		for {
			served, rejected = 0, 0
			for _, mc := range conns {
				select {
				case <-mc.ClosedBy:
					rejected++
				default:
					if mc.BytesWritten() > 0 {
						served++
					}
				}
			}
			if served+rejected == m {
				break
			}
			if time.Now().After(deadline) {
				return closings, &verdict{"connection-not-served", fmt.Sprintf("%s: %d served, %d closed by the service, %d neither after 10s", where, served, rejected, m-served-rejected)}
			}
			time.Sleep(20 * time.Microsecond)
		}
		if c.Limit == 0 && rejected > 0 {
			return closings, &verdict{"connection-not-served", fmt.Sprintf("%s: %d connections were closed without service although no limit is configured", where, rejected)}
		}
		if c.Limit > 0 && served > c.Limit {
			return closings, &verdict{"limit-exceeded", fmt.Sprintf("%s: %d connections served at once, limit %d", where, served, c.Limit)}
		}
		restrictedWant += uint64(rejected)
		if x := statpurge.Gauge(name, "downstream.cx_active"); x > 1<<62 {
			return closings, &verdict{"gauge-wrapped", fmt.Sprintf("%s: downstream.cx_active = %d (wrapped below zero)", where, x)}
		}
		last := ri == len(c.Rounds)-1
		if last && c.EndStop {
			if !stop() {
				return closings, &verdict{"stop-never-returns", "Stop did not return within 20s (C09's subject)"}
			}
		} else {
			close(goneA)
			if c.Split {
				time.Sleep(time.Duration(ri%5) * 10 * time.Microsecond)
			}
			close(goneB)
		}
		closings += served
		// quiescent: no connection, no request
		deadline = time.Now().Add(5 * time.Second)
		for {
			msg := ""
			if a, b := ctr("downstream.cx_total"), ctr("downstream.cx_destroy_total"); a != b {
				msg = fmt.Sprintf("downstream.cx_total = %d but cx_destroy_total = %d", a, b)
			} else if x := statpurge.Gauge(name, "downstream.cx_active"); x != 0 {
				msg = fmt.Sprintf("downstream.cx_active = %d with cx_total = cx_destroy_total = %d", x, a)
			} else if t, s, f := ctr("downstream.rq_total"), ctr("downstream.rq_success_total"), ctr("downstream.rq_failure_total"); t != s+f {
				msg = fmt.Sprintf("downstream.rq_total = %d but success %d + failure %d", t, s, f)
			} else if got := ctr("downstream.cx_restricted"); got != restrictedWant {
				msg = fmt.Sprintf("downstream.cx_restricted = %d but the service closed %d connections without serving them", got, restrictedWant)
			}
			if msg == "" {
				break
			}
			if time.Now().After(deadline) {
				return closings, &verdict{"stats-not-conserved", fmt.Sprintf("%s: 5s after all %d connections of the round had ended at the same instant (by Stop: %v): %s", where, served, last && c.EndStop, msg)}
			}
			time.Sleep(50 * time.Microsecond)
		}
	}
	return closings, nil
}

func TestChurn(t *testing.T) {
	rapid.Check(t, func(t *rapid.T) {
		c := churnCase{Limit: rapid.SampledFrom([]int{0, 0, 0, 1, 3, 8}).Draw(t, "limit"), Split: rapid.IntRange(0, 3).Draw(t, "split") == 0, EndStop: rapid.Bool().Draw(t, "endstop")}
		n := rapid.IntRange(1, 400).Draw(t, "rounds")
		msel := rapid.SampledFrom([]int{2, 2, 3, 8, 32, 64}).Draw(t, "m")
		for i := 0; i < n; i++ {
			c.Rounds = append(c.Rounds, msel)
		}
		if rapid.Bool().Draw(t, "vary") {
			for i := range c.Rounds {
				c.Rounds[i] = 1 + (i*7+msel)%(msel+1)
			}
		}
		vh.CurrentCase(prop, "churn", c)
		closings, v := checkChurn(c)
		vh.ClearCurrentCase()
		if v != nil {
			vh.Fail(t, vh.Failure{Property: prop, Part: "churn", Signature: v.sig, Message: v.msg, Case: c})
		}
		vh.Rec().Case("churn", true, vh.JSON(c))
		vh.Rec().ClassN("churn", "quiescent_points_checked", int64(len(c.Rounds)))
		vh.Rec().ClassN("churn", "connections_ended_simultaneously", int64(closings))
		if c.Limit > 0 {
			vh.Rec().Class("churn", "with_connection_limit")
		}
		vh.Rec().Sample("churn", true, func() interface{} {
			return map[string]interface{}{"limit": c.Limit, "rounds": len(c.Rounds), "first_round": c.Rounds[0], "split": c.Split, "end_with_stop": c.EndStop}
		})
	})
}

func init() {
	vh.RegisterReplay("churn", func(t *testing.T, raw json.RawMessage) {
		var c churnCase
		if err := json.Unmarshal(raw, &c); err != nil {
			t.Fatal(err)
		}
		for i := 0; i < 20; i++ {
			if _, v := checkChurn(c); v != nil {
				vh.Fail(t, vh.Failure{Property: prop, Part: "churn", Signature: v.sig, Message: v.msg, Case: c})
			}
		}
	})
}
