// Package c20 decides property C20: connection and request statistics are conserved.
package c20

import (
	"encoding/json"
	"fmt"
	redispb "github.com/samaritan-proxy/samaritan/pb/config/protocol/redis"
	"github.com/samaritan-proxy/samaritan/proc"
	"net"
	"testing"
	"time"

	"github.com/samaritan-proxy/samaritan/host"
	"pgregory.net/rapid"
	"strings"
	"sync"

	"verif/harness/ref"
	"verif/harness/sim"
	"verif/harness/statpurge"
	"verif/harness/tcpsim"
	"verif/harness/vh"
)

const prop = "C20"

func TestMain(m *testing.M) { vh.Main(m) }

type verdict struct{ sig, msg string }

type sop struct {
	Op   string     `json:"op"` // open, close, abort, cmds, drop, kill, migrate, overlimit
	Conn int        `json:"conn,omitempty"`
	Cmds [][]string `json:"cmds,omitempty"`
	N    int        `json:"n,omitempty"`
}

type statCase struct {
	Kind     string `json:"kind"` // redis, tcp
	Masters  int    `json:"masters"`
	Limit    int    `json:"limit"`
	EndStop  bool   `json:"end_with_stop"`      // quiescence by Stop() with connections open instead of closing the clients
	Compress bool   `json:"compress,omitempty"` // Redis service with transparent compression enabled: APPEND, EVAL, SETBIT, GETBIT, SETRANGE, GETRANGE are refused
	Ops      []sop  `json:"ops"`
}

func counter(svc, path string) uint64 { return statpurge.Counter(svc, path) }

func gauge(svc, path string) uint64 { return statpurge.Gauge(svc, path) }

type statInfo struct {
	redirected, backendFailure, rejected, stopWithOpen, clientGone, massClose bool
	midQuiescent                                                              int
}

func checkStats(c statCase) (inf statInfo, v *verdict) {
	var svc, addr string
	var stop func() bool
	var w *sim.World
	var tb *tcpsim.Backend
	var tcpProc, redisProc proc.Proc
	if c.Kind == "redis" {
		var err error
		w, err = sim.NewWorld(c.Masters, 0)
		if err != nil {
			return inf, nil
		}
		defer w.Close()
		w.AssignEven(w.Masters())
		popts := sim.ProxyOpts{Seeds: w.AllAddrs(), ConnLimit: uint32(c.Limit), ConnectTimeout: 100 * time.Millisecond}
		if c.Compress {
			popts.Compression = &redispb.Compression{Enable: true, Algorithm: redispb.Compression_SNAPPY, Threshold: 16}
		}
		px, err := sim.StartProxy(popts)
		if err != nil {
			return inf, &verdict{"proxy-start", err.Error()}
		}
		px.WaitTableLoaded(1, 10*time.Second)
		svc, addr = px.Name, px.Addr
		stop = func() bool { return px.Stop(20 * time.Second) }
		redisProc = px.P
	} else {
		var err error
		tb, err = tcpsim.NewBackend(func(bc net.Conn, n int) {
			defer bc.Close()
			buf := make([]byte, 256)
			for {
				k, err := bc.Read(buf)
				if err != nil {
					return
				}
				bc.Write(buf[:k])
			}
		})
		if err != nil {
			return inf, nil
		}
		defer tb.Close()
		px, err := tcpsim.Start(tcpsim.Opts{Hosts: []*host.Host{host.New(tb.Addr)}, ConnLimit: uint32(c.Limit), IdleTimeout: 2 * time.Second, ConnectTimeout: 5 * time.Second})
		if err != nil {
			return inf, &verdict{"proxy-start", err.Error()}
		}
		svc, addr = px.Name, px.Addr
		stop = func() bool { return px.Stop(20 * time.Second) }
		tcpProc = px.P
	}
	backendUp, hostPresent := true, true
	stopped := false
	defer func() {
		if !stopped {
			stop()
		}
	}()
	type cconn struct {
		c      net.Conn
		cl     *sim.Client
		served bool
	}
	conns := map[int]*cconn{}
	rejected, rejectedForSure := uint64(0), uint64(0)
	sampleGauges := func(where string) *verdict {
		for _, g := range []string{"downstream.cx_active", "upstream.cx_active"} {
			if x := gauge(svc, g); x > 1<<62 {
				return &verdict{"gauge-wrapped", fmt.Sprintf("%s: gauge %s = %d (wrapped below zero)", where, g, x)}
			}
		}
		return nil
	}
	served := func() int {
		n := 0
		for _, cc := range conns {
			if cc.served {
				n++
			}
		}
		return n
	}
	checkAll := func() string {
		if x := gauge(svc, "downstream.cx_active"); x != 0 {
			return fmt.Sprintf("downstream.cx_active = %d at quiescence", x)
		}
		if a, b := counter(svc, "downstream.cx_total"), counter(svc, "downstream.cx_destroy_total"); a != b {
			return fmt.Sprintf("downstream.cx_total = %d but cx_destroy_total = %d", a, b)
		}
		{ // both kinds (a Redis service that records no upstream connection statistics satisfies the equations with zeros)
			if x := gauge(svc, "upstream.cx_active"); x != 0 {
				return fmt.Sprintf("upstream.cx_active = %d at quiescence", x)
			}
			if a, b := counter(svc, "upstream.cx_total"), counter(svc, "upstream.cx_destroy_total"); a != b {
				return fmt.Sprintf("upstream.cx_total = %d but cx_destroy_total = %d", a, b)
			}
		}
		for _, side := range []string{"downstream", "upstream"} {
			t, s, f := counter(svc, side+".rq_total"), counter(svc, side+".rq_success_total"), counter(svc, side+".rq_failure_total")
			if t != s+f {
				return fmt.Sprintf("%s.rq_total = %d but success %d + failure %d = %d", side, t, s, f, s+f)
			}
		}
		if c.Kind == "redis" {
			for _, cmd := range []string{"get", "set", "mget", "mset", "del", "incr", "ping", "lpush", "scan", "eval", "append", "getrange", "setbit", "hset", "hgetall"} {
				t, s, e := counter(svc, "redis."+cmd+".total"), counter(svc, "redis."+cmd+".success"), counter(svc, "redis."+cmd+".error")
				if t != s+e {
					return fmt.Sprintf("redis.%s.total = %d but success %d + error %d", cmd, t, s, e)
				}
			}
		}
		if got := counter(svc, "downstream.cx_restricted"); got < rejectedForSure || got > rejected {
			return fmt.Sprintf("downstream.cx_restricted = %d but %d connections were opened while the limit was reached and %d in all were closed without service", got, rejectedForSure, rejected)
		}
		return ""
	}
	// waitQuiescent: no connection and no request is in flight; the equations must hold (the proxy notices the end of a
	// connection asynchronously: 5 s)
	waitQuiescent := func(where string) *verdict {
		deadline := time.Now().Add(5 * time.Second)
		for {
			msg := checkAll()
			if msg == "" {
				return nil
			}
			if time.Now().After(deadline) {
				sig := "stats-not-conserved"
				if strings.Contains(msg, "cx_restricted") {
					sig = "restricted-count-wrong"
				}
				return &verdict{sig, fmt.Sprintf("%s: 5s after the service became quiescent: %s", where, msg)}
			}
			time.Sleep(5 * time.Millisecond)
		}
	}
	var kept []*sim.Client // mass connections that stay open until the end
	for i, o := range c.Ops {
		where := fmt.Sprintf("step %d (%s)", i, o.Op)
		switch o.Op {
		case "open":
			if conns[o.Conn] != nil {
				continue
			}
			cl, err := sim.Dial(addr)
			if err != nil {
				continue
			}
			cc := &cconn{c: cl.C, cl: cl}
			// is it served or rejected by the connection limit?
			if c.Kind == "redis" {
				r, err := cl.Do(5*time.Second, "PING")
				cc.served = err == nil && ref.Equal(r, ref.SimpleV("PONG"))
			} else {
				cl.C.Write([]byte("x"))
				cl.C.SetReadDeadline(time.Now().Add(5 * time.Second))
				b := make([]byte, 1)
				n, _ := cl.C.Read(b)
				cc.served = n == 1
			}
			if !cc.served {
				// an accepted connection that is closed without service was rejected by the connection limit
				// (the proxy notices client closes asynchronously, so this can also happen shortly after a close)
				if c.Limit == 0 && c.Kind == "tcp" && (!backendUp || !hostPresent) {
					cl.Close() // the backend is down or not a member: the proxy rightly closes the connection
					continue
				}
				if c.Limit == 0 {
					cl.Close()
					return inf, &verdict{"connection-not-served", fmt.Sprintf("%s: a new connection was closed without service although no limit is configured", where)}
				}
				// Not every such connection can be pinned on the limit: the proxy notices client closes asynchronously
				// (so it may still be at the limit shortly after a close), and a TCP connection can also end unserved
				// because the backend connect timed out on a busy machine. Certain: the model itself is at the limit
				// (the proxy's count is never below the model's). Possible: every other unserved connection.
				rejected++
				if served() >= c.Limit {
					rejectedForSure++
					inf.rejected = true
				}
				cl.Close()
				continue
			}
			conns[o.Conn] = cc
		case "mass":
			// many connections at once: opened together, and either closed together right away (all of them at the same instant,
			// FIN and RST mixed) or kept until the end of the history, where everything that is still open ends together
			if c.Limit != 0 {
				continue
			}
			m := 4 + o.N%45
			got := make([]*sim.Client, m)
			var mwg sync.WaitGroup
			for k := 0; k < m; k++ {
				mwg.Add(1)
				go func(k int) {
					defer mwg.Done()
					cl, err := sim.Dial(addr)
					if err != nil {
						return
					}
					ok := false
					if c.Kind == "redis" {
						r, err := cl.Do(10*time.Second, "PING")
						ok = err == nil && ref.Equal(r, ref.SimpleV("PONG"))
					} else {
						cl.C.Write([]byte("x"))
						cl.C.SetReadDeadline(time.Now().Add(10 * time.Second))
						b := make([]byte, 1)
						n, _ := cl.C.Read(b)
						ok = n == 1
					}
					if !ok {
						cl.Close()
						return
					}
					got[k] = cl
				}(k)
			}
			mwg.Wait()
			if o.N%2 == 1 {
				for _, cl := range got {
					if cl != nil {
						kept = append(kept, cl)
					}
				}
				continue
			}
			closeTogether(got, o.N)
			inf.massClose = true
			if len(conns) == 0 && len(kept) == 0 {
				// a quiescent point in the middle of the history
				if v := waitQuiescent(where); v != nil {
					return inf, v
				}
				inf.midQuiescent++
			}
		case "close":
			if cc := conns[o.Conn]; cc != nil {
				cc.c.Close()
				delete(conns, o.Conn)
			}
		case "abort":
			if cc := conns[o.Conn]; cc != nil {
				cc.cl.Close() // linger 0: RST
				delete(conns, o.Conn)
			}
		case "flood":
			// the client asks for far more than it reads and goes away: the proxy is blocked writing replies to it (its socket
			// buffers are full) when the connection ends
			cc := conns[o.Conn]
			if cc == nil || c.Kind != "redis" {
				continue
			}
			big := strings.Repeat("v", 8192)
			if r, err := cc.cl.Do(20*time.Second, "SET", "kflood", big); err != nil || r.IsErr() {
				break
			}
			var all []byte
			one := ref.Enc(ref.Cmd("GET", "kflood"))
			for k := 0; k < 200+o.N*300; k++ {
				all = append(all, one...)
			}
			cc.c.SetWriteDeadline(time.Now().Add(10 * time.Second))
			cc.c.Write(all)
			time.Sleep(time.Duration(5+o.N*10) * time.Millisecond)
			if o.N%2 == 0 {
				cc.cl.Close() // RST
			} else {
				if tc, ok := cc.c.(*net.TCPConn); ok {
					tc.SetLinger(-1)
				}
				cc.c.Close() // FIN
			}
			delete(conns, o.Conn)
			inf.clientGone = true
		case "cmds":
			cc := conns[o.Conn]
			if cc == nil {
				continue
			}
			if c.Kind == "tcp" {
				cc.c.Write([]byte("hello"))
				cc.c.SetReadDeadline(time.Now().Add(5 * time.Second))
				b := make([]byte, 5)
				cc.c.Read(b)
				continue
			}
			var all []byte
			for _, args := range o.Cmds {
				all = ref.Encode(all, ref.Cmd(args...))
			}
			go cc.cl.Send(all, nil)
			for range o.Cmds {
				if _, err := cc.cl.Recv(20 * time.Second); err != nil {
					if err == sim.ErrTimeout {
						return inf, &verdict{"reply-missing", where}
					}
					break
				}
			}
		case "drop", "kill":
			if c.Kind != "tcp" {
				break
			}
			// TCP service: the backend goes down / comes back (drop), the host leaves / re-joins the endpoint set (kill).
			// Either way every established connection ends; the model forgets them so that it never counts more served
			// connections than the proxy does.
			if o.Op == "drop" {
				if backendUp {
					tb.Stop(true)
				} else {
					tb.Start()
				}
				backendUp = !backendUp
			} else {
				if hostPresent {
					tcpProc.OnSvcHostRemove([]*host.Host{host.New(tb.Addr)})
				} else {
					tcpProc.OnSvcHostAdd([]*host.Host{host.New(tb.Addr)})
				}
				hostPresent = !hostPresent
			}
			inf.backendFailure = true
			for k, cc := range conns {
				cc.c.SetReadDeadline(time.Now().Add(5 * time.Second))
				cc.c.Read(make([]byte, 8)) // EOF / reset from the proxy
				cc.cl.Close()
				delete(conns, k)
			}
			time.Sleep(2 * time.Millisecond)
		}
		switch o.Op {
		case "drop":
			if w != nil {
				if w.Nodes[o.N%len(w.Nodes)].DropConns(o.N%2 == 0) > 0 {
					inf.backendFailure = true
				}
			}
		case "kill":
			if w != nil {
				w.Nodes[o.N%len(w.Nodes)].KillAfter(1+o.N%5, -1, false)
				inf.backendFailure = true
			}
		case "replace":
			// the endpoint set of the Redis service is replaced by an equal list while backend connections are open
			if w != nil && redisProc != nil {
				var hs []*host.Host
				for _, a := range w.AllAddrs() {
					hs = append(hs, host.New(a))
				}
				redisProc.OnSvcAllHostReplace(hs)
				inf.backendFailure = true
				time.Sleep(2 * time.Millisecond)
			}
		case "migrate":
			if w != nil && len(w.Masters()) >= 2 {
				ms := w.Masters()
				slot := ref.Slot([]byte(fmt.Sprintf("k%d", o.N%6)))
				from := w.Owner(slot)
				to := ms[0]
				if to == from {
					to = ms[1]
				}
				if w.BeginMigration(slot, to) {
					if o.N%2 == 0 {
						w.Finalise(slot)
					}
					inf.redirected = true
				}
			}
		}
		if v := sampleGauges(where); v != nil {
			return inf, v
		}
	}
	// quiescence
	if c.EndStop && len(conns)+len(kept) > 0 {
		inf.stopWithOpen = true
	}
	if c.EndStop {
		stopped = true
		if !stop() {
			return inf, &verdict{"stop-never-returns", "Stop did not return within 20s (C09's subject)"}
		}
	}
	if len(kept) > 0 {
		// everything that is still open ends at the same instant
		for _, cc := range conns {
			kept = append(kept, cc.cl)
		}
		closeTogether(kept, len(kept))
		inf.massClose = true
	} else {
		for _, cc := range conns {
			cc.c.Close()
		}
	}
	deadline := time.Now().Add(5 * time.Second)
	var msg string
	for {
		msg = checkAll()
		if msg == "" {
			break
		}
		if time.Now().After(deadline) {
			sig := "stats-not-conserved"
			if strings.Contains(msg, "cx_restricted") {
				sig = "restricted-count-wrong"
			}
			return inf, &verdict{sig, fmt.Sprintf("5s after the service became quiescent (ended by Stop: %v): %s", c.EndStop, msg)}
		}
		time.Sleep(5 * time.Millisecond)
	}
	if v := sampleGauges("at quiescence"); v != nil {
		return inf, v
	}
	return inf, nil
}

// closeTogether closes the given client connections at the same instant, one goroutine each behind a barrier; every third one
// with a reset instead of a FIN.
func closeTogether(cls []*sim.Client, salt int) {
	start := make(chan struct{})
	var wg sync.WaitGroup
	for k, cl := range cls {
		if cl == nil {
			continue
		}
		wg.Add(1)
		go func(k int, cl *sim.Client) {
			defer wg.Done()
			<-start
			if (k+salt)%3 == 0 {
				cl.Close() // linger 0: RST
				return
			}
			if tc, ok := cl.C.(*net.TCPConn); ok {
				tc.SetLinger(-1)
			}
			cl.C.Close()
		}(k, cl)
	}
	close(start)
	wg.Wait()
}

func genStats(t *rapid.T) statCase {
	c := statCase{Kind: rapid.SampledFrom([]string{"redis", "redis", "tcp"}).Draw(t, "kind"), Masters: rapid.IntRange(1, 3).Draw(t, "masters"),
		Limit: rapid.SampledFrom([]int{0, 0, 1, 2, 3}).Draw(t, "limit"), EndStop: rapid.Bool().Draw(t, "endstop"), Compress: rapid.IntRange(0, 3).Draw(t, "compress") == 0}
	key := func() string { return fmt.Sprintf("k%d", rapid.IntRange(0, 5).Draw(t, "k")) }
	n := rapid.IntRange(2, 20).Draw(t, "n")
	for i := 0; i < n; i++ {
		o := sop{Conn: rapid.IntRange(0, 4).Draw(t, "conn")}
		switch x := rapid.IntRange(0, 17).Draw(t, "op"); {
		case x >= 16:
			o.Op, o.N = "mass", rapid.IntRange(0, 89).Draw(t, "massn")
			if o.N%2 == 0 {
				// a few rounds of open-together / close-together in a row
				for k, m := 0, rapid.IntRange(0, 5).Draw(t, "rounds"); k < m; k++ {
					c.Ops = append(c.Ops, sop{Op: "mass", N: 2 * rapid.IntRange(0, 44).Draw(t, "roundn")})
				}
			}
		case x <= 3:
			o.Op = "open"
		case x == 4:
			o.Op = "close"
		case x == 5:
			o.Op = "abort"
			if rapid.Bool().Draw(t, "flood") {
				o.Op, o.N = "flood", rapid.IntRange(0, 5).Draw(t, "fn")
			}
		case x <= 11:
			o.Op = "cmds"
			for k, m := 0, rapid.IntRange(1, 12).Draw(t, "m"); k < m; k++ {
				switch rapid.IntRange(0, 10).Draw(t, "cmd") {
				case 0:
					o.Cmds = append(o.Cmds, []string{"GET", key()})
				case 1:
					o.Cmds = append(o.Cmds, []string{"SET", key(), "v"})
				case 2:
					o.Cmds = append(o.Cmds, []string{"MGET", key(), key(), key()})
				case 3:
					o.Cmds = append(o.Cmds, []string{"MSET", key(), "a", key(), "b"})
				case 4:
					o.Cmds = append(o.Cmds, []string{"DEL", key(), key()})
				case 5:
					o.Cmds = append(o.Cmds, []string{"KEYS", "*"}) // unsupported
				case 6:
					o.Cmds = append(o.Cmds, []string{"GET"}) // invalid arity
				case 7:
					o.Cmds = append(o.Cmds, []string{"INCR", key()})
				case 8:
					o.Cmds = append(o.Cmds, []string{"LPUSH", key(), "x"}) // wrong type errors from the backend
				case 9:
					// commands that a service with compression refuses (and plain ones otherwise), and a compressible value
					switch rapid.IntRange(0, 4).Draw(t, "ccmd") {
					case 0:
						o.Cmds = append(o.Cmds, []string{"APPEND", key(), "x"})
					case 1:
						o.Cmds = append(o.Cmds, []string{"GETRANGE", key(), "0", "1"})
					case 2:
						o.Cmds = append(o.Cmds, []string{"EVAL", "return 1", "1", key()})
					case 3:
						o.Cmds = append(o.Cmds, []string{"SETBIT", key(), "1", "1"})
					default:
						o.Cmds = append(o.Cmds, []string{"SET", key(), strings.Repeat("ab", 40)})
					}
				default:
					o.Cmds = append(o.Cmds, []string{"PING"})
				}
			}
		case x == 12:
			o.Op, o.N = "drop", rapid.IntRange(0, 5).Draw(t, "dn")
		case x == 13:
			o.Op, o.N = "kill", rapid.IntRange(0, 9).Draw(t, "kn")
			if rapid.IntRange(0, 2).Draw(t, "replace") == 0 {
				o.Op = "replace"
			}
		default:
			o.Op, o.N = "migrate", rapid.IntRange(0, 11).Draw(t, "mn")
		}
		c.Ops = append(c.Ops, o)
	}
	if c.Limit == 0 && rapid.IntRange(0, 2).Draw(t, "endmass") == 0 {
		// the history ends with many connections going away at once (or with Stop while they are open)
		c.Ops = append(c.Ops, sop{Op: "mass", N: 2*rapid.IntRange(0, 44).Draw(t, "endmassn") + 1})
	}
	return c
}

func TestStats(t *testing.T) {
	rapid.Check(t, func(t *rapid.T) {
		c := genStats(t)
		vh.CurrentCase(prop, "stats", c)
		inf, v := checkStats(c)
		vh.ClearCurrentCase()
		if v != nil {
			vh.Fail(t, vh.Failure{Property: prop, Part: "stats", Signature: v.sig, Message: v.msg, Case: c})
		}
		nt := inf.redirected || inf.backendFailure || inf.rejected || inf.stopWithOpen || inf.clientGone || inf.massClose
		vh.Rec().Case("stats", nt, vh.JSON(c))
		for name, b := range map[string]bool{"redirection": inf.redirected, "backend_failure": inf.backendFailure, "limit_rejection": inf.rejected, "stop_with_open_connections": inf.stopWithOpen,
			"client_gone_while_the_proxy_writes_replies": inf.clientGone, "many_connections_ending_at_the_same_instant": inf.massClose, "quiescent_point_inside_the_history": inf.midQuiescent > 0} {
			if b {
				vh.Rec().Class("stats", name)
			}
		}
		vh.Rec().Class("stats", "kind_"+c.Kind)
		vh.Rec().Sample("stats", nt, func() interface{} { return c })
	})
}

func init() {
	vh.RegisterReplay("stats", func(t *testing.T, raw json.RawMessage) {
		var c statCase
		json.Unmarshal(raw, &c)
		if _, v := checkStats(c); v != nil {
			vh.Fail(t, vh.Failure{Property: prop, Part: "stats", Signature: v.sig, Message: v.msg, Case: c})
		}
	})
}

func TestReplay(t *testing.T) { vh.RunReplay(t) }
