// Package c16 decides property C16: discovery subscriptions track the dependency
// set and survive stream failures.
package c16

import (
	"context"
	"encoding/json"
	"errors"
	"fmt"
	"io"
	"runtime"
	"sort"
	"strings"
	"sync"
	"testing"
	"time"

	"github.com/samaritan-proxy/samaritan/config"
	"google.golang.org/grpc/codes"
	"google.golang.org/grpc/status"
	"pgregory.net/rapid"

	"verif/harness/vh"
)

const prop = "C16"

func TestMain(m *testing.M) { vh.Main(m) }

type verdict struct{ sig, msg string }

type dop struct {
	Op    string `json:"op"` // sub, unsub, burst, failcreate, failsend, failrecv, up, yield
	Names []int  `json:"names,omitempty"`
	Subs  []bool `json:"subs,omitempty"` // burst: per name subscribe (true) or unsubscribe
	N     int    `json:"n,omitempty"`
}

type discCase struct {
	StartDown bool  `json:"start_down"` // stream creation fails until the first "up"
	RealRun   bool  `json:"real_run"`   // use the real Run (≈1s back-off) instead of the harness retry loop
	ErrKind   int   `json:"err_kind,omitempty"` // what the scripted failures return: see (*server).fail
	Ops       []dop `json:"ops"`
}

type request struct{ sub, unsub []string }

type stream struct {
	srv       *server
	id        int
	mu        sync.Mutex
	reqs      []request
	sendLeft  int           // fail the Send after this many successful ones (-1: never)
	snapDelay time.Duration // the first Send (the resubscribe snapshot) takes this long: a slow or flow-controlled peer
	broken    bool
	recvFail  chan struct{}
}

func (s *stream) Send(sub, unsub []string) error {
	defer s.srv.touch()
	s.mu.Lock()
	first := len(s.reqs) == 0 && !s.broken
	d := s.snapDelay
	s.mu.Unlock()
	if first && d > 0 {
		time.Sleep(d) // the request is on its way; changes made meanwhile are not part of it
	}
	s.mu.Lock()
	defer s.mu.Unlock()
	if s.broken {
		return s.srv.fail("stream broken")
	}
	if s.sendLeft == 0 {
		s.broken = true
		select {
		case <-s.recvFail:
		default:
			close(s.recvFail)
		}
		return s.srv.fail("scripted send failure")
	}
	if s.sendLeft > 0 {
		s.sendLeft--
	}
	s.reqs = append(s.reqs, request{append([]string{}, sub...), append([]string{}, unsub...)})
	return nil
}

func (s *stream) Recv() error {
	select {
	case <-s.recvFail:
		s.mu.Lock()
		s.broken = true
		s.mu.Unlock()
		return s.srv.fail("scripted recv failure")
	case <-s.srv.ctx.Done():
		return s.srv.ctx.Err()
	}
}

func (s *stream) breakRecv() {
	s.mu.Lock()
	defer s.mu.Unlock()
	s.broken = true
	select {
	case <-s.recvFail:
	default:
		close(s.recvFail)
	}
}

// fold returns the subscribed set of the stream and the names whose state is ambiguous
// (present in both lists of one request: the wire format defines no order).
func (s *stream) fold() (map[string]bool, map[string]bool, int) {
	s.mu.Lock()
	defer s.mu.Unlock()
	set, amb := map[string]bool{}, map[string]bool{}
	for _, r := range s.reqs {
		both := map[string]bool{}
		for _, n := range r.sub {
			for _, u := range r.unsub {
				if n == u {
					both[n] = true
				}
			}
		}
		for _, n := range r.sub {
			set[n] = true
			delete(amb, n)
		}
		for _, n := range r.unsub {
			delete(set, n)
			delete(amb, n)
		}
		for n := range both {
			amb[n] = true
			delete(set, n)
		}
	}
	return set, amb, len(s.reqs)
}

type server struct {
	ctx           context.Context
	mu            sync.Mutex
	failCreate    int  // creations that fail next
	down          bool // creation fails until brought up
	nextSendCap   int  // sendLeft for the next created stream (-1 never)
	nextSnapDelay time.Duration
	streams       []*stream
	lastTouch     time.Time
	creations     int
	errKind       int
}

// fail builds the error of a scripted failure. A gRPC stream reports a failure of the peer or of the transport with any of
// these while the client's own context is alive: a plain error, io.EOF (stream closed by the server), a status with code
// Unavailable / Canceled (the server or a proxy in between reset the stream) / DeadlineExceeded / Internal, or the bare
// context errors some interceptors hand through.
func (srv *server) fail(msg string) error {
	switch srv.errKind {
	case 1:
		return io.EOF
	case 2:
		return status.Error(codes.Canceled, msg)
	case 3:
		return status.Error(codes.Unavailable, msg)
	case 4:
		return context.Canceled
	case 5:
		return status.Error(codes.DeadlineExceeded, msg)
	case 6:
		return context.DeadlineExceeded
	case 7:
		return status.Error(codes.Internal, msg)
	}
	return errors.New(msg)
}

func (srv *server) touch() {
	srv.mu.Lock()
	srv.lastTouch = time.Now()
	srv.mu.Unlock()
}

func (srv *server) maker(ctx context.Context) (config.VerifStream, error) {
	srv.mu.Lock()
	defer srv.mu.Unlock()
	srv.creations++
	srv.lastTouch = time.Now()
	if srv.down {
		return nil, srv.fail("scripted: discovery server down")
	}
	if srv.failCreate > 0 {
		srv.failCreate--
		return nil, srv.fail("scripted creation failure")
	}
	s := &stream{srv: srv, id: len(srv.streams), sendLeft: srv.nextSendCap, snapDelay: srv.nextSnapDelay, recvFail: make(chan struct{})}
	srv.nextSendCap = -1
	srv.nextSnapDelay = 0
	srv.streams = append(srv.streams, s)
	return s, nil
}

func (srv *server) current() *stream {
	srv.mu.Lock()
	if len(srv.streams) == 0 {
		srv.mu.Unlock()
		return nil
	}
	s := srv.streams[len(srv.streams)-1]
	srv.mu.Unlock()
	s.mu.Lock()
	defer s.mu.Unlock()
	if s.broken {
		return nil
	}
	return s
}

type discInfo struct {
	pendingWhileDown int
	faultAfterSnap   bool
	ambiguous        int
}

func svcName(i int) string { return fmt.Sprintf("svc%02d", i) }

func checkDisc(c discCase) (inf discInfo, v *verdict) {
	ctx, cancel := context.WithCancel(context.Background())
	srv := &server{ctx: ctx, nextSendCap: -1, down: c.StartDown, lastTouch: time.Now(), errKind: c.ErrKind}
	cl := config.VerifNewSvcDiscoveryClient("verif", srv.maker)
	runDone := make(chan struct{})
	go func() {
		defer close(runDone)
		if c.RealRun {
			cl.Run(ctx)
			return
		}
		for ctx.Err() == nil {
			cl.RunOnce(ctx)
			runtime.Gosched()
			time.Sleep(50 * time.Microsecond)
		}
	}()
	// the caller goroutine issues Subscribe/Unsubscribe sequentially, like the dependency hook
	type call struct {
		sub  bool
		name string
	}
	calls := make(chan call, 4096)
	var issued, returned int64
	var cmu sync.Mutex
	callerDone := make(chan struct{})
	go func() {
		defer close(callerDone)
		for cc := range calls {
			if cc.sub {
				cl.Subscribe(cc.name)
			} else {
				cl.Unsubscribe(cc.name)
			}
			cmu.Lock()
			returned++
			cmu.Unlock()
		}
	}()
	finish := func() {
		cancel()
		close(calls)
		select {
		case <-runDone:
		case <-time.After(5 * time.Second):
		}
	}
	deps := map[string]bool{}
	issue := func(sub bool, i int) {
		n := svcName(i)
		if sub {
			deps[n] = true
		} else {
			delete(deps, n)
		}
		cmu.Lock()
		issued++
		cmu.Unlock()
		calls <- call{sub, n}
		if srv.current() == nil {
			inf.pendingWhileDown++
		}
	}
	for _, o := range c.Ops {
		switch o.Op {
		case "sub":
			for _, i := range o.Names {
				issue(true, i)
			}
		case "unsub":
			for _, i := range o.Names {
				issue(false, i)
			}
		case "burst":
			for k, i := range o.Names {
				issue(k < len(o.Subs) && o.Subs[k], i)
			}
		case "failcreate":
			srv.mu.Lock()
			srv.failCreate += o.N
			srv.mu.Unlock()
		case "down":
			srv.mu.Lock()
			srv.down = true
			srv.mu.Unlock()
			if s := srv.current(); s != nil {
				s.breakRecv()
			}
		case "failsend":
			// the j-th Send of the next stream fails (j = 0: the snapshot itself)
			srv.mu.Lock()
			srv.nextSendCap = o.N
			srv.mu.Unlock()
			if o.N <= 1 {
				inf.faultAfterSnap = true
			}
			if s := srv.current(); s != nil {
				s.breakRecv()
			}
		case "failrecv":
			if s := srv.current(); s != nil {
				s.breakRecv()
			}
		case "slowsnap":
			// the next stream's resubscribe request takes N x 100 us; break the current stream so a new one is made,
			// and keep issuing changes while the snapshot is being sent
			srv.mu.Lock()
			srv.nextSnapDelay = time.Duration(o.N) * 100 * time.Microsecond
			srv.down = false
			srv.failCreate = 0
			srv.mu.Unlock()
			if s := srv.current(); s != nil {
				s.breakRecv()
			}
			inf.faultAfterSnap = true
			t0 := time.Now()
			for k := 0; time.Since(t0) < time.Duration(o.N)*150*time.Microsecond && k < len(o.Names); k++ {
				issue(k < len(o.Subs) && o.Subs[k], o.Names[k])
				time.Sleep(time.Duration(o.N) * 100 * time.Microsecond / time.Duration(len(o.Names)+1))
			}
		case "up":
			srv.mu.Lock()
			srv.down = false
			srv.failCreate = 0
			srv.mu.Unlock()
		case "yield":
			time.Sleep(time.Duration(o.N) * 100 * time.Microsecond)
		}
	}
	// stop issuing changes, clear all faults, let the stream come up
	srv.mu.Lock()
	srv.down, srv.failCreate, srv.nextSendCap = false, 0, -1
	srv.mu.Unlock()

	deadline := time.Now().Add(15 * time.Second)
	if c.RealRun {
		deadline = time.Now().Add(25 * time.Second)
	}
	var lastDiff string
	dlChecked := false
	for {
		cmu.Lock()
		allReturned := issued == returned
		cmu.Unlock()
		ok := false
		if s := srv.current(); s != nil && allReturned {
			set, amb, _ := s.fold()
			inf.ambiguous = len(amb)
			lastDiff = diff(set, amb, deps)
			ok = lastDiff == ""
		} else if !allReturned {
			lastDiff = "some Subscribe/Unsubscribe calls have not returned"
		} else {
			lastDiff = "no stream is up"
		}
		if ok {
			break
		}
		if !dlChecked && time.Now().After(deadline.Add(-13*time.Second)) {
			// a goroutine parked in Subscribe/Unsubscribe's channel send while the run loop
			// waits for the lock, in two dumps 1 s apart, is the deadlock: no need to wait longer
			dlChecked = true
			if deadlocked(vh.Stacks()) {
				time.Sleep(time.Second)
				if deadlocked(vh.Stacks()) {
					deadline = time.Now()
				}
			}
		}
		if time.Now().After(deadline) {
			stacks := vh.Stacks()
			finish()
			cmu.Lock()
			ir := fmt.Sprintf("%d of %d Subscribe/Unsubscribe calls returned", returned, issued)
			cmu.Unlock()
			sig := "never-converges"
			if strings.Contains(stacks, "svcDiscoveryClient).Subscribe") || strings.Contains(stacks, "svcDiscoveryClient).Unsubscribe") {
				sig = "subscribe-blocked-forever"
			}
			return inf, &verdict{sig, fmt.Sprintf("after all changes were issued and all faults cleared the stream did not converge within the deadline: %s; %s; stream creations %d\n%s",
				lastDiff, ir, srv.creations, filterStacks(stacks))}
		}
		time.Sleep(200 * time.Microsecond)
	}
	// it stays equal: wait for a quiet period and re-check, and the number of requests on the
	// final stream after the snapshot is bounded by the number of changes
	for i := 0; i < 200; i++ {
		srv.mu.Lock()
		quiet := time.Since(srv.lastTouch) > 3*time.Millisecond
		srv.mu.Unlock()
		if quiet {
			break
		}
		time.Sleep(time.Millisecond)
	}
	if s := srv.current(); s != nil {
		set, amb, _ := s.fold()
		if d := diff(set, amb, deps); d != "" {
			finish()
			return inf, &verdict{"diverges-after-convergence", "the subscribed set changed again after it had converged: " + d}
		}
	}
	finish()
	return inf, nil
}

func deadlocked(stacks string) bool {
	blockedCaller, blockedRun := false, false
	for _, g := range strings.Split(stacks, "\n\n") {
		if strings.Contains(g, "[chan send") && (strings.Contains(g, "svcDiscoveryClient).Subscribe") || strings.Contains(g, "svcDiscoveryClient).Unsubscribe")) {
			blockedCaller = true
		}
		if strings.Contains(g, "RWMutex") && strings.Contains(g, "svcDiscoveryClient).resubscribe") {
			blockedRun = true
		}
	}
	return blockedCaller && blockedRun
}

func diff(set, amb, deps map[string]bool) string {
	var d []string
	for n := range deps {
		if !set[n] && !amb[n] {
			d = append(d, "+"+n)
		}
	}
	for n := range set {
		if !deps[n] {
			d = append(d, "-"+n)
		}
	}
	sort.Strings(d)
	if len(d) > 12 {
		d = append(d[:12], "...")
	}
	if len(d) == 0 {
		return ""
	}
	return "missing(+)/surplus(-) on the stream: " + strings.Join(d, " ")
}

func filterStacks(s string) string {
	var keep []string
	for _, g := range strings.Split(s, "\n\n") {
		if strings.Contains(g, "samaritan/config.") {
			keep = append(keep, g)
		}
	}
	r := strings.Join(keep, "\n\n")
	if len(r) > 6000 {
		r = r[:6000]
	}
	return r
}

func genDisc(t *rapid.T, realRun bool) discCase {
	c := discCase{StartDown: rapid.IntRange(0, 2).Draw(t, "startdown") == 0, RealRun: realRun, ErrKind: rapid.SampledFrom([]int{0, 0, 1, 2, 2, 3, 4, 5, 6, 7}).Draw(t, "errkind")}
	n := rapid.IntRange(1, 25).Draw(t, "n")
	if realRun {
		n = rapid.IntRange(1, 8).Draw(t, "n2")
	}
	for i := 0; i < n; i++ {
		switch x := rapid.IntRange(0, 19).Draw(t, "op"); {
		case x <= 4:
			c.Ops = append(c.Ops, dop{Op: "sub", Names: rapid.SliceOfN(rapid.IntRange(0, 23), 1, 4).Draw(t, "names")})
		case x <= 7:
			c.Ops = append(c.Ops, dop{Op: "unsub", Names: rapid.SliceOfN(rapid.IntRange(0, 23), 1, 3).Draw(t, "names")})
		case x <= 9:
			k := rapid.IntRange(10, 60).Draw(t, "burst")
			o := dop{Op: "burst"}
			for j := 0; j < k; j++ {
				o.Names = append(o.Names, rapid.IntRange(0, 23).Draw(t, "bn"))
				o.Subs = append(o.Subs, rapid.IntRange(0, 3).Draw(t, "bs") != 0)
			}
			c.Ops = append(c.Ops, o)
		case x == 10:
			c.Ops = append(c.Ops, dop{Op: "failcreate", N: rapid.IntRange(1, 3).Draw(t, "fc")})
		case x == 11:
			c.Ops = append(c.Ops, dop{Op: "down"})
		case x <= 13:
			c.Ops = append(c.Ops, dop{Op: "failsend", N: rapid.IntRange(0, 3).Draw(t, "fs")})
		case x == 14:
			c.Ops = append(c.Ops, dop{Op: "failrecv"})
		case x == 15 && !realRun:
			o := dop{Op: "slowsnap", N: rapid.IntRange(5, 40).Draw(t, "snapdelay")}
			for j, k := 0, rapid.IntRange(2, 10).Draw(t, "during"); j < k; j++ {
				o.Names = append(o.Names, rapid.IntRange(0, 23).Draw(t, "sn"))
				o.Subs = append(o.Subs, rapid.Bool().Draw(t, "ss"))
			}
			c.Ops = append(c.Ops, o)
		case x <= 16:
			c.Ops = append(c.Ops, dop{Op: "up"})
		default:
			c.Ops = append(c.Ops, dop{Op: "yield", N: rapid.IntRange(0, 20).Draw(t, "y")})
		}
	}
	return c
}

func runCase(t *rapid.T, part string, c discCase) {
	inf, v := checkDisc(c)
	if v != nil {
		vh.Fail(t, vh.Failure{Property: prop, Part: part, Signature: v.sig, Message: v.msg, Case: c})
	}
	nt := inf.pendingWhileDown > 16 || inf.faultAfterSnap
	vh.Rec().Case(part, nt, vh.JSON(c))
	if inf.pendingWhileDown > 16 {
		vh.Rec().Class(part, ">16_changes_while_no_stream")
	}
	if inf.faultAfterSnap {
		vh.Rec().Class(part, "send_failure_at_or_right_after_snapshot")
	}
	if inf.ambiguous > 0 {
		vh.Rec().Class(part, "ambiguous_same_request_sub_and_unsub")
	}
	vh.Rec().Sample(part, nt, func() interface{} {
		ops := c.Ops
		if len(ops) > 8 {
			ops = ops[:8]
		}
		return map[string]interface{}{"start_down": c.StartDown, "real_run": c.RealRun, "ops": len(c.Ops), "first_ops": ops}
	})
}

func TestDiscovery(t *testing.T) {
	rapid.Check(t, func(t *rapid.T) { runCase(t, "discovery", genDisc(t, false)) })
}

// TestDiscoveryRealRun uses the real Run loop with its ≈1 s back-off: retrying never stops.
func TestDiscoveryRealRun(t *testing.T) {
	rapid.Check(t, func(t *rapid.T) { runCase(t, "discovery-realrun", genDisc(t, true)) })
}

func init() {
	for _, part := range []string{"discovery", "discovery-realrun"} {
		part := part
		vh.RegisterReplay(part, func(t *testing.T, raw json.RawMessage) {
			var c discCase
			if err := json.Unmarshal(raw, &c); err != nil {
				t.Fatal(err)
			}
			for i := 0; i < 5; i++ {
				if _, v := checkDisc(c); v != nil {
					vh.Fail(t, vh.Failure{Property: prop, Part: part, Signature: v.sig, Message: v.msg, Case: c})
				}
			}
		})
	}
}

func TestReplay(t *testing.T) { vh.RunReplay(t) }
