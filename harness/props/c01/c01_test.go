// Package c01 decides property C01: replies come back in request order, exactly
// one per request.
package c01

import (
	"bytes"
	"encoding/json"
	"fmt"
	"net"
	"strings"
	"sync"
	"testing"
	"time"

	redispb "github.com/samaritan-proxy/samaritan/pb/config/protocol/redis"
	"github.com/samaritan-proxy/samaritan/utils/verifpoint"
	"pgregory.net/rapid"

	"verif/harness/gen"
	"verif/harness/ref"
	"verif/harness/sim"
	"verif/harness/vh"
)

const prop = "C01"

func TestMain(m *testing.M) { vh.Main(m) }

type verdict struct{ sig, msg string }

// req is one client request: either a RESP array of bulk strings (Args), or raw bytes
// (inline form / not-a-command arrays) with the reference outcome "error" or an args equivalent.
type req struct {
	Args   [][]byte `json:"args,omitempty"`
	Raw    []byte   `json:"raw,omitempty"`     // sent instead of the array form when set
	RawErr bool     `json:"raw_err,omitempty"` // Raw must be answered by exactly one error
	Free   bool     `json:"free,omitempty"`    // answered by exactly one reply whose content is not judged (a command the proxy answers itself, with arguments)
}

type connCase struct {
	Reqs   []req `json:"reqs"`
	Chunks []int `json:"chunks"`
	// AbortAfter > 0: this client writes its first AbortAfter requests and closes the connection (RST when AbortRST) without
	// reading a single reply, while the requests are still in flight at the backends. Nothing is owed to it; what the other
	// connections receive must not change.
	AbortAfter int  `json:"abort_after,omitempty"`
	AbortRST   bool `json:"abort_rst,omitempty"`
}

type pipeCase struct {
	Layout sim.Layout `json:"layout"`
	// transparent compression enabled (threshold far above every generated value, so nothing is compressed): the commands
	// documented as disabled under compression are stopped by the backend-side filter and answered with an error
	Compress bool `json:"compress,omitempty"`
	// StaleShift > 0 (two masters or more): once the proxy has loaded its table every slot moves to the next-but-StaleShift master
	// (the cluster is still empty), and the table stays stale for the whole case (refresh spacing 2 min): every keyed request
	// is answered MOVED by the node the proxy sends it to and resent; order and one-reply-per-request must not depend on that
	StaleShift int `json:"stale_shift,omitempty"`
	// the per-backend writer is held for this long each time it takes a request off its queue (pause point
	// write.got-req), so that requests queue up behind it as they do when the backend socket is slow
	SlowWriterUs int        `json:"slow_writer_us,omitempty"`
	Conns        []connCase `json:"conns"`
	Delays       [][]int    `json:"delays"` // per node: reply delays in microseconds, cycled
	// the clients start reading replies only after this long (replies back up in the proxy and in the sockets)
	ReadLagMs int `json:"read_lag_ms,omitempty"`
	// deadline for one reply (0: replyTimeout). Deep pipelines are slow by construction: one backend connection serves
	// tens of thousands of commands one by one, and a session only flushes its replies when nothing else is in flight or
	// its 8 KiB buffer is full, so a single reply can legitimately take long.
	ReplyTimeoutS int `json:"reply_timeout_s,omitempty"`
}

type pipeInfo struct {
	inversions  int
	multiNode   bool
	hostileName bool
	// a request was stopped by the backend-side filter (answered without being written to the backend)
	stoppedByFilter bool
	// every slot had moved after the table was loaded
	stale bool
}

var disabledUnderCompression = map[string]bool{"append": true, "eval": true, "setbit": true, "getbit": true, "setrange": true, "getrange": true}

const replyTimeout = 20 * time.Second

func (r req) bytes() []byte {
	if r.Raw != nil {
		return r.Raw
	}
	return ref.Enc(ref.CmdB(r.Args...))
}

func checkPipe(c pipeCase) (inf pipeInfo, v *verdict) {
	w, err := sim.NewLayoutWorld(c.Layout)
	if err != nil {
		return inf, nil
	}
	defer w.Close()
	// The layout never changes in this part, so the periodic slot refresh runs at its production rate (2 min) and not at
	// the 50 ms the simulator otherwise uses: a CLUSTER NODES request every 50 ms on a random backend connection would
	// push along (flush) whatever an earlier request left behind there and hide a stuck reply.
	spacing := 5 * time.Second
	if c.StaleShift > 0 {
		spacing = 2 * time.Minute
	}
	of, om := sim.SetRefreshTimers(2*time.Minute, spacing)
	defer sim.SetRefreshTimers(of, om)
	opts := sim.ProxyOpts{Seeds: w.Addrs(w.Masters())}
	if c.Compress {
		opts.Compression = &redispb.Compression{Enable: true, Algorithm: redispb.Compression_SNAPPY, Threshold: 1 << 20}
	}
	px, err := sim.StartProxy(opts)
	if err != nil {
		return inf, &verdict{"proxy-start", err.Error()}
	}
	defer px.Stop(20 * time.Second)
	if !px.WaitTableLoaded(1, 10*time.Second) {
		return inf, &verdict{"table-not-loaded", "the routing table was not loaded within 10s on a healthy cluster"}
	}
	if ms := w.Masters(); c.StaleShift > 0 && len(ms) >= 2 {
		pos := map[int]int{}
		for i, m := range ms {
			pos[m] = i
		}
		was := w.OwnerSnapshot()
		w.AssignFunc(func(slot int) int { return ms[(pos[was[slot]]+c.StaleShift)%len(ms)] })
		inf.stale = c.StaleShift%len(ms) != 0
	}
	if c.SlowWriterUs > 0 {
		hold := time.Duration(c.SlowWriterUs) * time.Microsecond
		verifpoint.SetHandler(func(name string, arg interface{}) {
			if name == "redis.client.write.got-req" {
				time.Sleep(hold)
			}
		})
		defer verifpoint.SetHandler(nil)
	}
	w.ResetLog()
	delays := c.Delays
	w.Lock()
	w.Delay = func(node, k int) time.Duration {
		if node >= len(delays) || len(delays[node]) == 0 {
			return 0
		}
		return time.Duration(delays[node][k%len(delays[node])]) * time.Microsecond
	}
	w.Unlock()

	ks := ref.NewKeyspace()
	type exp struct {
		reply ref.Value
		local bool
		free  bool
	}
	exps := make([][]exp, len(c.Conns))
	for ci, cc := range c.Conns {
		for _, r := range cc.Reqs {
			if r.Raw != nil && r.RawErr {
				exps[ci] = append(exps[ci], exp{reply: ref.ErrV("error")})
				continue
			}
			if c.Compress && len(r.Args) > 0 && disabledUnderCompression[strings.ToLower(string(r.Args[0]))] {
				exps[ci] = append(exps[ci], exp{reply: ref.ErrV("error")})
				inf.stoppedByFilter = true
				continue
			}
			if r.Free {
				exps[ci] = append(exps[ci], exp{free: true})
				inf.hostileName = true
				continue
			}
			rep, be, local := sim.Expect(ks, r.Args)
			nodes := map[int]bool{}
			for _, b := range be {
				nodes[w.Owner(ref.Slot(b.Key))] = true
			}
			if len(nodes) >= 2 {
				inf.multiNode = true
			}
			if len(r.Args) > 0 && bytes.ContainsAny(r.Args[0], "\r\n\x00") {
				inf.hostileName = true
			}
			exps[ci] = append(exps[ci], exp{reply: rep, local: local})
		}
	}
	replyTimeout := replyTimeout
	if c.ReplyTimeoutS > 0 {
		replyTimeout = time.Duration(c.ReplyTimeoutS) * time.Second
	}
	var wg sync.WaitGroup
	res := make([]*verdict, len(c.Conns))
	for ci := range c.Conns {
		wg.Add(1)
		go func(ci int) {
			defer wg.Done()
			cc := c.Conns[ci]
			cl, err := sim.Dial(px.Addr)
			if err != nil {
				res[ci] = &verdict{"client-dial", err.Error()}
				return
			}
			defer cl.Close()
			var all []byte
			if cc.AbortAfter > 0 {
				for i, r := range cc.Reqs {
					if i < cc.AbortAfter {
						all = append(all, r.bytes()...)
					}
				}
				cl.C.SetWriteDeadline(time.Now().Add(5 * time.Second))
				cl.Send(all, nil)
				time.Sleep(200 * time.Microsecond)
				if !cc.AbortRST {
					if tc, ok := cl.C.(*net.TCPConn); ok {
						tc.SetLinger(-1)
					}
					cl.C.Close()
				}
				return // the deferred Close resets the connection (linger 0)
			}
			for _, r := range cc.Reqs {
				all = append(all, r.bytes()...)
			}
			sendErr := make(chan error, 1)
			go func() { sendErr <- cl.Send(all, cc.Chunks) }()
			if c.ReadLagMs > 0 {
				time.Sleep(time.Duration(c.ReadLagMs) * time.Millisecond)
			}
			for i, r := range cc.Reqs {
				got, err := cl.Recv(replyTimeout)
				if err != nil {
					sig := "reply-missing"
					if err != sim.ErrTimeout {
						sig = "reply-stream-broken"
					}
					res[ci] = &verdict{sig, fmt.Sprintf("conn %d: reply %d of %d (request %s): %v", ci, i, len(cc.Reqs), describeReq(r), err)}
					return
				}
				e := exps[ci][i]
				if e.free {
					continue // one reply, whatever it says; a second one shows up as a shifted stream or at the sentinel
				}
				if e.local {
					if msg := sim.CheckLocal(r.Args, got); msg != "" {
						res[ci] = &verdict{"reply-mismatch", fmt.Sprintf("conn %d reply %d: %s", ci, i, msg)}
						return
					}
					continue
				}
				if !sim.SameReply(got, e.reply) {
					res[ci] = &verdict{"reply-mismatch", fmt.Sprintf("conn %d: reply %d is %s, the result of request %d (%s) is %s", ci, i, got, i, describeReq(r), e.reply)}
					return
				}
			}
			<-sendErr
			// sentinel: the very next reply must be +PONG, then silence
			got, err := cl.Do(replyTimeout, "PING")
			if err != nil || !ref.Equal(got, ref.SimpleV("PONG")) {
				res[ci] = &verdict{"surplus-or-missing-reply", fmt.Sprintf("conn %d: after %d replies the sentinel PING was answered by %s (err %v)", ci, len(cc.Reqs), got, err)}
				return
			}
			if extra := cl.Quiet(30 * time.Millisecond); extra != nil {
				res[ci] = &verdict{"surplus-reply", fmt.Sprintf("conn %d: surplus bytes after the sentinel: %q", ci, extra)}
			}
		}(ci)
	}
	wg.Wait()
	for _, r := range res {
		if r != nil {
			return inf, r
		}
	}
	// measure: did some node answer a later-arrived command before an earlier one of another node?
	log := w.Snapshot()
	var client []*sim.Entry
	for _, e := range log {
		if !sim.IsBackground(e) && e.ReplySeq > 0 {
			client = append(client, e)
		}
	}
	for i := 0; i < len(client) && inf.inversions < 3; i++ {
		for j := i + 1; j < len(client) && j < i+40; j++ {
			if client[i].Node != client[j].Node && client[j].ReplySeq < client[i].ReplySeq {
				inf.inversions++
				break
			}
		}
	}
	return inf, nil
}

func describeReq(r req) string {
	if r.Raw != nil {
		return fmt.Sprintf("raw %q", clip(r.Raw))
	}
	return sim.ArgsString(r.Args)
}

func clip(b []byte) []byte {
	if len(b) > 60 {
		return b[:60]
	}
	return b
}

func genReq(t *rapid.T, pool *gen.KeyPool) req {
	switch rapid.IntRange(0, 19).Draw(t, "reqcls") {
	case 0: // unsupported name
		return req{Args: [][]byte{[]byte(rapid.SampledFrom([]string{"keys", "multi", "exec", "subscribe", "cluster", "flushall", "blpop", "nosuchcmd", "echo"}).Draw(t, "unsup")), []byte("x")}}
	case 1: // name with CR LF / NUL / RESP-looking text
		name := rapid.SampledFrom([]string{"a\r\nb", "get\r\n", "\r\n", "x\r\n+OK\r\n", "ge\x00t", "se\nt", "\r", "ping\r\n:1", "$5\r\nhello", "-ERR x\r\n-ERR y"}).Draw(t, "evil")
		return req{Args: [][]byte{[]byte(name), []byte("k")}}
	case 2: // inline form
		toks := []string{rapid.SampledFrom([]string{"get", "GET", "strlen", "ping", "nosuch", "exists"}).Draw(t, "itok"), string(pool.Keys[0])}
		ok := true
		for _, tk := range toks {
			if bytes.ContainsAny([]byte(tk), " \r\n") || tk == "" {
				ok = false
			}
		}
		if !ok {
			toks = []string{"ping"}
		}
		if toks[0] == "ping" {
			toks = toks[:1]
		}
		line := toks[0]
		args := [][]byte{[]byte(toks[0])}
		for _, tk := range toks[1:] {
			line += " " + tk
			args = append(args, []byte(tk))
		}
		return req{Args: args, Raw: []byte(line + "\r\n")}
	case 4: // a command the proxy answers itself, with arguments that contain line ends and RESP-looking text: one reply all the same
		name := rapid.SampledFrom([]string{"ping", "PING", "Ping", "select", "info", "INFO", "time", "hotkey", "HotKey"}).Draw(t, "lname")
		args := [][]byte{[]byte(name)}
		for i, n := 0, rapid.IntRange(1, 2).Draw(t, "largc"); i < n; i++ {
			args = append(args, []byte(rapid.SampledFrom([]string{"hello", "a\r\nb", "x\r\n+OK", "\r\n", "0\r\n:1\r\n", "hello\r\n+world", "$5\r\nhello", "-ERR x\r\n-ERR y", "1", "\n", "server\r\n$3\r\nfoo"}).Draw(t, "larg")))
		}
		return req{Args: args, Free: true}
	case 3: // arrays that are not commands: answered by exactly one error
		raw := rapid.SampledFrom([]string{"*0\r\n", "*-1\r\n", "*1\r\n:5\r\n", "*2\r\n$3\r\nget\r\n*1\r\n$1\r\nk\r\n", "*1\r\n$-1\r\n", "*1\r\n+get\r\n", ":12\r\n", "+OK\r\n", "$3\r\nget\r\n"}).Draw(t, "notcmd")
		return req{Raw: []byte(raw), RawErr: true}
	}
	return req{Args: gen.Command(t, pool, 300)}
}

func genPipe(t *rapid.T) pipeCase {
	c := pipeCase{Layout: sim.Layout{Masters: rapid.IntRange(1, 5).Draw(t, "masters"), Kind: rapid.SampledFrom([]string{"even", "striped", "random", "ranges"}).Draw(t, "kind"), Seed: rapid.Uint64().Draw(t, "lseed")}}
	c.Compress = rapid.IntRange(0, 3).Draw(t, "compress") == 0
	if rapid.IntRange(0, 3).Draw(t, "stale") == 0 {
		c.StaleShift = rapid.IntRange(1, 4).Draw(t, "staleshift")
	}
	c.SlowWriterUs = rapid.SampledFrom([]int{0, 0, 0, 50, 300, 2000}).Draw(t, "slowwriter")
	nc := rapid.IntRange(1, 4).Draw(t, "conns")
	maxN := 80
	if vh.Thorough() && rapid.IntRange(0, 9).Draw(t, "long") == 0 {
		maxN = 400
	}
	for ci := 0; ci < nc; ci++ {
		pool := gen.NewKeyPool(t, ci, rapid.IntRange(2, 8).Draw(t, "pool"), false)
		n := rapid.IntRange(1, maxN).Draw(t, "n")
		var cc connCase
		var all []byte
		for i := 0; i < n; i++ {
			r := genReq(t, pool)
			cc.Reqs = append(cc.Reqs, r)
			all = append(all, r.bytes()...)
		}
		cc.Chunks = gen.Chunks(t, "frag", all)
		if nc >= 2 && ci > 0 && rapid.IntRange(0, 4).Draw(t, "abort") == 0 {
			cc.AbortAfter, cc.AbortRST = rapid.IntRange(1, n).Draw(t, "abortafter"), rapid.Bool().Draw(t, "abortrst")
		}
		c.Conns = append(c.Conns, cc)
	}
	for i := 0; i < c.Layout.Masters; i++ {
		var d []int
		switch rapid.IntRange(0, 3).Draw(t, "dcls") {
		case 0:
			d = []int{0}
		case 1:
			d = []int{rapid.IntRange(0, 3000).Draw(t, "dconst")}
		default:
			d = rapid.SliceOfN(rapid.SampledFrom([]int{0, 0, 0, 50, 200, 1000, 4000}), 1, 6).Draw(t, "dlist")
		}
		c.Delays = append(c.Delays, d)
	}
	return c
}

func describe(c pipeCase) interface{} {
	var conns []interface{}
	for ci, cc := range c.Conns {
		var rs []string
		for i, r := range cc.Reqs {
			if i >= 6 {
				rs = append(rs, fmt.Sprintf("...(%d requests)", len(cc.Reqs)))
				break
			}
			rs = append(rs, describeReq(r))
		}
		ch := cc.Chunks
		if len(ch) > 10 {
			ch = ch[:10]
		}
		conns = append(conns, map[string]interface{}{"conn": ci, "requests": rs, "writes": len(cc.Chunks), "first_write_sizes": ch})
	}
	return map[string]interface{}{"layout": c.Layout, "reply_delays_us_per_node": c.Delays, "connections": conns}
}

func TestPipeline(t *testing.T) {
	rapid.Check(t, func(t *rapid.T) {
		c := genPipe(t)
		vh.CurrentCase(prop, "pipeline", c)
		inf, v := checkPipe(c)
		vh.ClearCurrentCase()
		if v != nil {
			vh.Fail(t, vh.Failure{Property: prop, Part: "pipeline", Signature: v.sig, Message: v.msg, Case: c})
		}
		nt := inf.inversions > 0 && (inf.multiNode || c.Layout.Masters >= 2)
		vh.Rec().Case("pipeline", nt, vh.JSON(c))
		if inf.inversions > 0 {
			vh.Rec().Class("pipeline", "backend_answers_out_of_arrival_order")
		}
		if inf.multiNode {
			vh.Rec().Class("pipeline", "split_request_spans>=2_nodes")
		}
		if inf.stoppedByFilter {
			vh.Rec().Class("pipeline", "request_stopped_by_backend_filter_in_pipeline")
		}
		if inf.stale {
			vh.Rec().Class("pipeline", "every_keyed_request_redirected_(stale_table)")
		}
		if inf.hostileName {
			vh.Rec().Class("pipeline", "command_name_with_CR_LF_NUL")
		}
		if len(c.Conns) >= 2 {
			vh.Rec().Class("pipeline", ">=2_connections")
		}
		for _, cc := range c.Conns {
			if cc.AbortAfter > 0 {
				vh.Rec().Class("pipeline", "a_connection_closes_with_requests_in_flight")
				break
			}
		}
		vh.Rec().Sample("pipeline", nt, func() interface{} { return describe(c) })
	})
}

// ---- deep pipelines: more requests in flight than the proxy's queues hold

// deepCase is expanded deterministically into a pipeCase (so that the replay file stays small).
type deepCase struct {
	Masters      int   `json:"masters"`
	Conns        int   `json:"conns"`
	N            int   `json:"n"`           // requests per connection, written in one go
	Keys         int   `json:"keys"`        // keys per connection
	ValSize      int   `json:"val_size"`    // size of the stored values (GET replies)
	MultiEvery   int   `json:"multi_every"` // every k-th request is an MGET over MultiWidth keys (0: none)
	MultiWidth   int   `json:"multi_width"` // a connection has at most 33 requests in flight, but every key of an MGET is a backend request of its own
	SlowWriterUs int   `json:"slow_writer_us"`
	DelaysUs     []int `json:"delays_us"` // per node constant reply delay
	ReadLagMs    int   `json:"read_lag_ms"`
	OneNode      bool  `json:"one_node"` // all keys of a connection share a hash tag (one backend connection takes everything)
}

func (d deepCase) expand() pipeCase {
	c := pipeCase{Layout: sim.Layout{Masters: d.Masters, Kind: "even", Seed: 1}, SlowWriterUs: d.SlowWriterUs, ReadLagMs: d.ReadLagMs, ReplyTimeoutS: 150}
	for _, x := range d.DelaysUs {
		c.Delays = append(c.Delays, []int{x})
	}
	for ci := 0; ci < d.Conns; ci++ {
		key := func(j int) []byte {
			if d.OneNode {
				return []byte(fmt.Sprintf("{c%d}k%d", ci, j%d.Keys))
			}
			return []byte(fmt.Sprintf("c%d:k%d", ci, j%d.Keys))
		}
		val := func(gen int) []byte {
			b := make([]byte, d.ValSize)
			for i := range b {
				b[i] = byte('a' + (i+gen+ci)%26)
			}
			return b
		}
		var cc connCase
		for j := 0; j < d.Keys; j++ {
			cc.Reqs = append(cc.Reqs, req{Args: [][]byte{[]byte("SET"), key(j), val(j)}})
		}
		for i := 0; i < d.N; i++ {
			switch {
			case d.MultiEvery > 0 && i%d.MultiEvery == d.MultiEvery-1:
				args := [][]byte{[]byte("MGET")}
				for k := 0; k < d.MultiWidth; k++ {
					args = append(args, key(i+k))
				}
				cc.Reqs = append(cc.Reqs, req{Args: args})
			case i%53 == 52:
				cc.Reqs = append(cc.Reqs, req{Args: [][]byte{[]byte("SET"), key(i), val(i)}})
			case i%7 == 6:
				cc.Reqs = append(cc.Reqs, req{Args: [][]byte{[]byte("INCR"), append(key(0), []byte(":ctr")...)}})
			default:
				cc.Reqs = append(cc.Reqs, req{Args: [][]byte{[]byte("GET"), key(i)}})
			}
		}
		c.Conns = append(c.Conns, cc)
	}
	return c
}

func TestDeepPipeline(t *testing.T) {
	rapid.Check(t, func(t *rapid.T) {
		d := deepCase{
			Masters:      rapid.IntRange(1, 3).Draw(t, "masters"),
			Conns:        rapid.SampledFrom([]int{1, 3, 8, 40}).Draw(t, "conns"),
			N:            rapid.SampledFrom([]int{1100, 2100, 3000, 5000}).Draw(t, "n"),
			MultiWidth:   rapid.SampledFrom([]int{3, 40, 120}).Draw(t, "multiwidth"),
			Keys:         rapid.IntRange(1, 12).Draw(t, "keys"),
			ValSize:      rapid.SampledFrom([]int{1, 10, 600, 5000}).Draw(t, "valsize"),
			MultiEvery:   rapid.SampledFrom([]int{0, 0, 5, 31}).Draw(t, "multi"),
			SlowWriterUs: rapid.SampledFrom([]int{0, 0, 20, 100}).Draw(t, "slowwriter"),
			ReadLagMs:    rapid.SampledFrom([]int{0, 0, 50, 400}).Draw(t, "readlag"),
			OneNode:      rapid.Bool().Draw(t, "onenode"),
		}
		for i := 0; i < d.Masters; i++ {
			d.DelaysUs = append(d.DelaysUs, rapid.SampledFrom([]int{0, 0, 30, 200}).Draw(t, "delay"))
		}
		if d.N*d.Conns > 20000 {
			d.N = 20000 / d.Conns
		}
		if d.MultiEvery > 0 && d.MultiWidth > 3 && d.N*d.Conns*d.MultiWidth/d.MultiEvery > 400000 {
			d.MultiEvery = 31
		}
		if d.ValSize*d.MultiWidth > 100000 {
			d.ValSize = 600
		}
		// keep one case below some seconds: backend commands are served one by one per backend connection
		work := d.N * d.Conns
		if d.MultiEvery > 0 {
			work += d.N * d.Conns / d.MultiEvery * d.MultiWidth
		}
		if d.SlowWriterUs*work > 3000000 {
			d.SlowWriterUs = 0
		}
		for i := range d.DelaysUs {
			if d.DelaysUs[i]*work > 3000000 {
				d.DelaysUs[i] = 0
			}
		}
		vh.CurrentCase(prop, "deep", d)
		_, v := checkPipe(d.expand())
		vh.ClearCurrentCase()
		if v != nil {
			vh.Fail(t, vh.Failure{Property: prop, Part: "deep", Signature: v.sig, Message: v.msg, Case: d})
		}
		vh.Rec().Case("deep", true, vh.JSON(d))
		if d.ReadLagMs > 0 && d.ValSize >= 600 {
			vh.Rec().Class("deep", "replies_back_up_behind_a_client_that_does_not_read")
		}
		if d.OneNode {
			vh.Rec().Class("deep", "one_backend_connection_takes_everything")
		}
		if inFlight := d.Conns * 33; inFlight > 1024 || (d.MultiEvery > 0 && inFlight/d.MultiEvery*d.MultiWidth > 1024) {
			vh.Rec().Class("deep", "more_backend_requests_in_flight_than_a_backend_queue_holds(1024)")
		}
		vh.Rec().Sample("deep", true, func() interface{} { return d })
	})
}

func init() {
	vh.RegisterReplay("deep", func(t *testing.T, raw json.RawMessage) {
		var d deepCase
		if err := json.Unmarshal(raw, &d); err != nil {
			t.Fatal(err)
		}
		if _, v := checkPipe(d.expand()); v != nil {
			vh.Fail(t, vh.Failure{Property: prop, Part: "deep", Signature: v.sig, Message: v.msg, Case: d})
		}
	})
	vh.RegisterReplay("pipeline", func(t *testing.T, raw json.RawMessage) {
		var c pipeCase
		if err := json.Unmarshal(raw, &c); err != nil {
			t.Fatal(err)
		}
		if _, v := checkPipe(c); v != nil {
			vh.Fail(t, vh.Failure{Property: prop, Part: "pipeline", Signature: v.sig, Message: v.msg, Case: c})
		}
	})
}

func TestReplay(t *testing.T) { vh.RunReplay(t) }
