package c01

import (
	"encoding/json"
	"fmt"
	"testing"
	"time"

	"pgregory.net/rapid"

	"verif/harness/ref"
	"verif/harness/sim"
	"verif/harness/vh"
)

// part partial: a client that waits for reply k before it completes request k+1. Each write carries the rest of request k
// together with the first bytes of request k+1 (what a client library hands to the kernel when its buffer boundary falls
// there, or what one TCP segment happens to hold); then the client reads reply k - which must arrive although the next
// request is incomplete - and only then sends more. Harnesses that write everything and read afterwards never notice a
// reply held back "until the pipeline is complete".

type partialCase struct {
	Masters int        `json:"masters"`
	Cmds    [][]string `json:"cmds"`
	Cuts    []int      `json:"cuts"` // cuts[k]: how many bytes of request k+1 travel with the end of request k (clipped to 1..len-1)
}

func checkPartial(c partialCase) *verdict {
	w, err := sim.NewWorld(c.Masters, 0)
	if err != nil {
		return nil
	}
	defer w.Close()
	w.AssignEven(w.Masters())
	defer sim.ProductionRefreshRate()()
	px, err := sim.StartProxy(sim.ProxyOpts{Seeds: w.Addrs(w.Masters())})
	if err != nil {
		return &verdict{"proxy-start", err.Error()}
	}
	defer px.Stop(20 * time.Second)
	if !px.WaitTableLoaded(1, 10*time.Second) {
		return &verdict{"table-not-loaded", "routing table not loaded"}
	}
	cl, err := sim.Dial(px.Addr)
	if err != nil {
		return &verdict{"client-dial", err.Error()}
	}
	defer cl.Close()
	ks := ref.NewKeyspace()
	reqs := make([][]byte, len(c.Cmds))
	for i, args := range c.Cmds {
		reqs[i] = ref.Enc(ref.Cmd(args...))
	}
	sent := 0 // bytes of request k already sent with the previous write
	for k := range reqs {
		buf := append([]byte{}, reqs[k][sent:]...)
		sent = 0
		if k+1 < len(reqs) {
			cut := 1
			if k < len(c.Cuts) {
				cut = c.Cuts[k]
			}
			if cut < 1 {
				cut = 1
			}
			if cut > len(reqs[k+1])-1 {
				cut = len(reqs[k+1]) - 1
			}
			buf = append(buf, reqs[k+1][:cut]...)
			sent = cut
		}
		if err := cl.Send(buf, nil); err != nil {
			return &verdict{"reply-stream-broken", fmt.Sprintf("write %d: %v", k, err)}
		}
		args := make([][]byte, len(c.Cmds[k]))
		for i, a := range c.Cmds[k] {
			args[i] = []byte(a)
		}
		want, _, local := sim.Expect(ks, args)
		got, err := cl.Recv(10 * time.Second)
		if err != nil {
			return &verdict{"reply-withheld", fmt.Sprintf("request %d (%v) was written completely, together with the first %d byte(s) of request %d; its reply did not arrive within 10s while the client waited for it before sending the rest: %v", k, c.Cmds[k], sent, k+1, err)}
		}
		if local {
			if msg := sim.CheckLocal(args, got); msg != "" {
				return &verdict{"reply-mismatch", fmt.Sprintf("reply %d: %s", k, msg)}
			}
		} else if !sim.SameReply(got, want) {
			return &verdict{"reply-mismatch", fmt.Sprintf("reply %d is %s, the result of request %d (%v) is %s", k, got, k, c.Cmds[k], want)}
		}
	}
	if extra := cl.Quiet(10 * time.Millisecond); extra != nil {
		return &verdict{"surplus-reply", fmt.Sprintf("surplus bytes after the last reply: %q", extra)}
	}
	return nil
}

func TestPartial(t *testing.T) {
	rapid.Check(t, func(t *rapid.T) {
		c := partialCase{Masters: rapid.IntRange(1, 3).Draw(t, "masters")}
		n := rapid.IntRange(2, 12).Draw(t, "n")
		for i := 0; i < n; i++ {
			k := fmt.Sprintf("pk%d", rapid.IntRange(0, 5).Draw(t, "k"))
			switch rapid.IntRange(0, 5).Draw(t, "cmd") {
			case 0:
				c.Cmds = append(c.Cmds, []string{"PING"})
			case 1:
				c.Cmds = append(c.Cmds, []string{"SET", k, rapid.StringMatching(`[a-z]{0,40}`).Draw(t, "v")})
			case 2:
				c.Cmds = append(c.Cmds, []string{"MGET", k, "pk0", "pk3"})
			case 3:
				c.Cmds = append(c.Cmds, []string{"INCR", "n" + k})
			default:
				c.Cmds = append(c.Cmds, []string{"GET", k})
			}
			c.Cuts = append(c.Cuts, rapid.SampledFrom([]int{1, 1, 2, 3, 4, 5, 8, 13, 1000}).Draw(t, "cut"))
		}
		vh.CurrentCase(prop, "partial", c)
		v := checkPartial(c)
		vh.ClearCurrentCase()
		if v != nil {
			vh.Fail(t, vh.Failure{Property: prop, Part: "partial", Signature: v.sig, Message: v.msg, Case: c})
		}
		vh.Rec().Case("partial", true, vh.JSON(c))
		vh.Rec().ClassN("partial", "replies_awaited_while_the_next_request_was_incomplete", int64(n-1))
		vh.Rec().Sample("partial", true, func() interface{} { return c })
	})
}

func init() {
	vh.RegisterReplay("partial", func(t *testing.T, raw json.RawMessage) {
		var c partialCase
		json.Unmarshal(raw, &c)
		if v := checkPartial(c); v != nil {
			vh.Fail(t, vh.Failure{Property: prop, Part: "partial", Signature: v.sig, Message: v.msg, Case: c})
		}
	})
}
