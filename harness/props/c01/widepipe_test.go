package c01

import (
	"encoding/json"
	"fmt"
	"os"
	"strings"
	"sync"
	"testing"
	"time"

	"pgregory.net/rapid"

	"verif/harness/ref"
	"verif/harness/sim"
	"verif/harness/vh"
)

// part widepipe: pipelines of WIDE split requests. Each of 1..4 connections writes, without waiting for anything, one MSET of
// its 8..512 keys (spread over 2..6 nodes) followed by rounds of EXISTS / TOUCH / MGET over all of them mixed with single
// GETs, then DEL and EXISTS. Several wide requests of several connections are in flight at once, so the children of one request
// are answered by different backend connections at the same time, and the k-th reply must still be exactly the result of
// the k-th request (sum, array in argument order, value).

type wideCase struct {
	Layout sim.Layout `json:"layout"`
	Keys   int        `json:"keys"`
	Conns  int        `json:"conns"`
	Rounds int        `json:"rounds"`
	Chunk  int        `json:"write_chunk"` // the pipeline is written in pieces of this many bytes (0: one write)
	// StaleShift > 0: after the table was loaded every slot moves StaleShift masters on (the cluster is still empty) and the table
	// stays stale for the whole case: every child request is answered MOVED and resent. SlowUs: every node answers each command
	// this late, so that thousands of resent requests queue up at the redirection targets.
	StaleShift int `json:"stale_shift,omitempty"`
	SlowUs     int `json:"slow_us,omitempty"`
}

func checkWidePipe(c wideCase) *verdict {
	w, err := sim.NewLayoutWorld(c.Layout)
	if err != nil {
		return nil
	}
	defer w.Close()
	if c.StaleShift > 0 {
		of, om := sim.SetRefreshTimers(2*time.Minute, 2*time.Minute)
		defer sim.SetRefreshTimers(of, om)
	} else {
		defer sim.ProductionRefreshRate()()
	}
	px, err := sim.StartProxy(sim.ProxyOpts{Seeds: w.Addrs(w.Masters())})
	if err != nil {
		return &verdict{"proxy-start", err.Error()}
	}
	defer px.Stop(20 * time.Second)
	if !px.WaitTableLoaded(1, 10*time.Second) {
		return &verdict{"table-not-loaded", "routing table not loaded"}
	}
	if ms := w.Masters(); c.StaleShift > 0 && len(ms) >= 2 {
		pos := map[int]int{}
		for i, m := range ms {
			pos[m] = i
		}
		was := w.OwnerSnapshot()
		w.AssignFunc(func(slot int) int { return ms[(pos[was[slot]]+c.StaleShift)%len(ms)] })
	}
	if c.SlowUs > 0 {
		slow := time.Duration(c.SlowUs) * time.Microsecond
		w.Lock()
		w.Delay = func(node, k int) time.Duration { return slow }
		w.Unlock()
	}
	recvTimeout := 30 * time.Second
	if c.StaleShift > 0 {
		recvTimeout = 12 * time.Second
	}
	var wg sync.WaitGroup
	res := make([]*verdict, c.Conns)
	for ci := 0; ci < c.Conns; ci++ {
		wg.Add(1)
		go func(ci int) {
			defer wg.Done()
			cl, err := sim.Dial(px.Addr)
			if err != nil {
				return
			}
			defer cl.Close()
			keys := make([]string, c.Keys)
			mset := []string{"MSET"}
			vals := make([]ref.Value, c.Keys)
			for i := range keys {
				keys[i] = fmt.Sprintf("wp%d:%d", ci, i)
				mset = append(mset, keys[i], "v"+keys[i])
				vals[i] = ref.BulkS("v" + keys[i])
			}
			type step struct {
				args []string
				want ref.Value
			}
			steps := []step{{mset, ref.OKV()}}
			all := func(cmd string) []string { return append([]string{cmd}, keys...) }
			n := ref.IntV(int64(c.Keys))
			for r := 0; r < c.Rounds; r++ {
				k := (r*7 + ci) % c.Keys
				steps = append(steps, step{all("EXISTS"), n}, step{[]string{"GET", keys[k]}, vals[k]}, step{all("MGET"), ref.ArrV(vals...)}, step{all("TOUCH"), n})
			}
			steps = append(steps, step{all("DEL"), n}, step{all("EXISTS"), ref.IntV(0)}, step{[]string{"PING"}, ref.SimpleV("PONG")})
			var buf []byte
			for _, s := range steps {
				buf = ref.Encode(buf, ref.Cmd(s.args...))
			}
			var chunks []int
			if c.Chunk > 0 {
				for off := 0; off < len(buf); off += c.Chunk {
					n := c.Chunk
					if off+n > len(buf) {
						n = len(buf) - off
					}
					chunks = append(chunks, n)
				}
			}
			go cl.Send(buf, chunks)
			for i, s := range steps {
				got, err := cl.Recv(recvTimeout)
				if err != nil {
					res[ci] = &verdict{"reply-missing", fmt.Sprintf("conn %d: reply %d of %d (%s of %d keys) did not arrive: %v", ci, i, len(steps), s.args[0], len(s.args)-1, err)}
					if os.Getenv("VERIF_WP_STACKS") != "" {
						os.WriteFile(os.Getenv("VERIF_WP_STACKS"), []byte(vh.Stacks()), 0644)
					}
					if n, sample := readersBlockedResending(); n > 0 {
						res[ci] = &verdict{sigWedge, fmt.Sprintf("conn %d: reply %d of %d (%s of %d keys) did not arrive within %v: %d backend reader goroutine(s) are blocked handing a redirected (MOVED) request "+
							"to another backend connection whose queue is full - a reader that does not read cannot drain its own connection, and the readers wait for each other. One of them:\n%s", ci, i, len(steps), s.args[0], len(s.args)-1, recvTimeout, n, sample)}
					}
					return
				}
				if !ref.Equal(got, s.want) {
					res[ci] = &verdict{"reply-differs", fmt.Sprintf("conn %d: reply %d of %d is not the result of request %d (%s over %d keys on %d nodes, %d connections pipelining): got %s, want %s",
						ci, i, len(steps), i, s.args[0], len(s.args)-1, c.Layout.Masters, c.Conns, clipV(got), clipV(s.want))}
					return
				}
			}
			if extra := cl.Quiet(5 * time.Millisecond); len(extra) > 0 {
				res[ci] = &verdict{"surplus-reply", fmt.Sprintf("conn %d: bytes after the last reply: %q", ci, clip(extra))}
			}
		}(ci)
	}
	wg.Wait()
	for _, r := range res {
		if r != nil {
			return r
		}
	}
	return nil
}

// sigWedge: the call site that identifies the finding - backend readers blocked in handleRedirection -> Send.
const sigWedge = "redirected-resend-blocks-backend-readers"

// readersBlockedResending counts the goroutines that are inside upstream.handleRedirection and blocked in client.Send
// (called at a moment when no reply has arrived for recvTimeout: nothing moves any more).
func readersBlockedResending() (int, string) {
	n, sample := 0, ""
	for _, g := range strings.Split(vh.Stacks(), "\n\n") {
		if strings.Contains(g, "(*upstream).handleRedirection") && strings.Contains(g, "(*client).Send") {
			n++
			if sample == "" {
				sample = g
				if len(sample) > 1500 {
					sample = sample[:1500] + "..."
				}
			}
		}
	}
	return n, sample
}

func clipV(v ref.Value) string {
	s := v.String()
	if len(s) > 200 {
		return s[:200] + "..."
	}
	return s
}

func TestWidePipe(t *testing.T) {
	rapid.Check(t, func(t *rapid.T) {
		c := wideCase{Layout: sim.Layout{Masters: rapid.IntRange(2, 6).Draw(t, "masters"), Kind: rapid.SampledFrom([]string{"even", "striped", "random"}).Draw(t, "kind"), Seed: rapid.Uint64().Draw(t, "lseed")},
			Keys: rapid.SampledFrom([]int{8, 32, 128, 512}).Draw(t, "keys"), Conns: rapid.IntRange(1, 4).Draw(t, "conns"), Rounds: rapid.IntRange(2, 25).Draw(t, "rounds"),
			Chunk: rapid.SampledFrom([]int{0, 0, 1000, 70000}).Draw(t, "chunk")}
		// a wedged proxy (known finding) cannot be stopped and keeps its buffers: few such cases per process
		staleOneIn := 10
		if vh.Thorough() {
			staleOneIn = 40
		}
		if rapid.IntRange(1, staleOneIn).Draw(t, "stale") == 1 {
			c.StaleShift = rapid.IntRange(1, 5).Draw(t, "staleshift")
			c.SlowUs = rapid.SampledFrom([]int{0, 20, 100}).Draw(t, "slowus")
		}
		vh.CurrentCase(prop, "widepipe", c)
		v := checkWidePipe(c)
		vh.ClearCurrentCase()
		if v != nil && v.sig == sigWedge && vh.Known(sigWedge) {
			vh.ReportKnown(prop, sigWedge, v.msg)
			v = nil
		}
		if v != nil {
			vh.Fail(t, vh.Failure{Property: prop, Part: "widepipe", Signature: v.sig, Message: v.msg, Case: c})
		}
		if c.StaleShift > 0 {
			vh.Rec().Class("widepipe", "every_child_request_redirected_(stale_table)")
		}
		vh.Rec().Case("widepipe", true, vh.JSON(c))
		vh.Rec().ClassN("widepipe", "wide_split_requests_pipelined", int64(c.Conns*(c.Rounds*3+3)))
		vh.Rec().Sample("widepipe", true, func() interface{} { return c })
	})
}

func init() {
	vh.RegisterReplay("widepipe", func(t *testing.T, raw json.RawMessage) {
		var c wideCase
		json.Unmarshal(raw, &c)
		for i := 0; i < 5; i++ {
			v := checkWidePipe(c)
			if v != nil && v.sig == sigWedge && vh.Known(sigWedge) {
				vh.ReportKnown(prop, sigWedge, v.msg)
				return
			}
			if v != nil {
				vh.Fail(t, vh.Failure{Property: prop, Part: "widepipe", Signature: v.sig, Message: v.msg, Case: c})
			}
		}
	})
}
