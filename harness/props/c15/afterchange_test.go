package c15

import (
	"encoding/json"
	"fmt"
	"sort"
	"sync"
	"testing"

	"pgregory.net/rapid"

	"github.com/samaritan-proxy/samaritan/host"

	"verif/harness/vh"
)

// ---- readers that start after a change has returned: several Healthy() calls at once, no change in flight.
// Every one of them must see exactly the model's usable view (a removed or unhealthy host "is never reported").

type acStep struct {
	Op   string `json:"op"` // remove, unhealthy, healthy, add, mains-down, mains-up, retype, replaceall
	Idx  int    `json:"idx"`
	Type int    `json:"type,omitempty"`
}

type acCase struct {
	Hosts   int      `json:"hosts"`
	Backups int      `json:"backups"`
	Readers int      `json:"readers"`
	Reads   int      `json:"reads_per_reader"`
	Steps   []acStep `json:"steps"`
}

type acMember struct {
	h       *host.Host
	healthy bool
}

func acAddr(i int) string { return fmt.Sprintf("10.%d.%d.%d:80", i>>16&255, i>>8&255, i&255) }

func checkAfterChange(c acCase) *verdict {
	set := host.NewSet()
	model := map[string]*acMember{}
	var order []string // addresses ever used, for index-based picks
	add := func(i int, typ host.Type) {
		a := acAddr(i)
		h := host.NewWithType(a, typ)
		if _, ok := model[a]; !ok {
			order = append(order, a)
		}
		model[a] = &acMember{h: h, healthy: true}
		set.Add(h)
	}
	// the initial members in one call (every single Add / Remove rebuilds and sorts the whole usable view)
	var initial []*host.Host
	for i := 0; i < c.Hosts+c.Backups; i++ {
		typ := host.TypeMain
		if i >= c.Hosts {
			typ = host.TypeBackup
		}
		h := host.NewWithType(acAddr(i), typ)
		order = append(order, h.Addr)
		model[h.Addr] = &acMember{h: h, healthy: true}
		initial = append(initial, h)
	}
	set.Add(initial...)
	next := c.Hosts + c.Backups
	expect := func() []*host.Host {
		var mains, backs []*host.Host
		for _, m := range model {
			if !m.healthy {
				continue
			}
			if m.h.Type == host.TypeMain {
				mains = append(mains, m.h)
			} else {
				backs = append(backs, m.h)
			}
		}
		r := mains
		if len(r) == 0 {
			r = backs
		}
		sort.Slice(r, func(i, j int) bool { return r[i].Addr < r[j].Addr })
		return r
	}
	pick := func(i int) *acMember {
		if len(order) == 0 {
			return nil
		}
		return model[order[i%len(order)]]
	}
	for si, st := range c.Steps {
		switch st.Op {
		case "remove":
			if m := pick(st.Idx); m != nil {
				set.Remove(host.NewWithType(m.h.Addr, m.h.Type)) // a fresh object, as the controller passes
				delete(model, m.h.Addr)
				for k, a := range order {
					if a == m.h.Addr {
						order = append(order[:k:k], order[k+1:]...)
						break
					}
				}
			}
		case "unhealthy":
			if m := pick(st.Idx); m != nil {
				set.MarkHostUnhealthy(m.h)
				m.healthy = false
			}
		case "healthy":
			if m := pick(st.Idx); m != nil {
				set.MarkHostHealthy(m.h)
				m.healthy = true
			}
		case "add":
			add(next, host.Type(st.Type%2))
			next++
		case "retype":
			if m := pick(st.Idx); m != nil {
				nt := host.TypeMain
				if m.h.Type == host.TypeMain {
					nt = host.TypeBackup
				}
				h := host.NewWithType(m.h.Addr, nt)
				set.Add(h)
				model[m.h.Addr] = &acMember{h: h, healthy: true}
			}
		case "mains-down", "mains-up":
			for _, a := range order {
				m := model[a]
				if m.h.Type != host.TypeMain {
					continue
				}
				if st.Op == "mains-down" && m.healthy {
					set.MarkHostUnhealthy(m.h)
					m.healthy = false
				} else if st.Op == "mains-up" && !m.healthy {
					set.MarkHostHealthy(m.h)
					m.healthy = true
					break // one main is enough to leave the backup tier
				}
			}
		case "replaceall":
			var hs []*host.Host
			nm := map[string]*acMember{}
			var no []string
			for k, a := range order {
				if (k+st.Idx)%3 == 0 {
					continue // dropped
				}
				old := model[a]
				h := host.NewWithType(a, old.h.Type)
				hs = append(hs, h)
				nm[a] = &acMember{h: h, healthy: true} // ReplaceAll installs the given objects (new hosts start healthy)
				no = append(no, a)
			}
			set.ReplaceAll(hs)
			model, order = nm, no
		}
		want := expect()
		start := make(chan struct{})
		var wg sync.WaitGroup
		res := make([]*verdict, c.Readers)
		for r := 0; r < c.Readers; r++ {
			wg.Add(1)
			go func(r int) {
				defer wg.Done()
				<-start
				for k := 0; k < c.Reads; k++ {
					got := set.Healthy()
					if len(got) != len(want) {
						res[r] = &verdict{"view-after-change-differs", fmt.Sprintf("step %d (%s): reader %d of %d concurrent readers, read %d after the change had returned: Healthy() has %d hosts, the healthy members of the preferred tier are %d%s",
							si, vh.JSON(st), r, c.Readers, k, len(got), len(want), firstDiff(got, want))}
						return
					}
					for i := range got {
						if got[i] != want[i] {
							res[r] = &verdict{"view-after-change-differs", fmt.Sprintf("step %d (%s): reader %d of %d concurrent readers, read %d after the change had returned: Healthy()[%d] = %v, want %v",
								si, vh.JSON(st), r, c.Readers, k, i, got[i], want[i])}
							return
						}
					}
				}
			}(r)
		}
		close(start)
		wg.Wait()
		for _, v := range res {
			if v != nil {
				return v
			}
		}
	}
	return nil
}

func firstDiff(got, want []*host.Host) string {
	in := map[*host.Host]bool{}
	for _, h := range want {
		in[h] = true
	}
	for _, h := range got {
		if !in[h] {
			return fmt.Sprintf("; e.g. %v is reported but is not one of them (healthy flag %v)", h, h.IsHealthy())
		}
	}
	in = map[*host.Host]bool{}
	for _, h := range got {
		in[h] = true
	}
	for _, h := range want {
		if !in[h] {
			return fmt.Sprintf("; e.g. %v is missing", h)
		}
	}
	return ""
}

func TestAfterChange(t *testing.T) {
	rapid.Check(t, func(t *rapid.T) {
		c := acCase{Hosts: rapid.SampledFrom([]int{1, 2, 3, 8, 64, 1000, 5000, 20000}).Draw(t, "hosts"), Backups: rapid.SampledFrom([]int{0, 1, 2, 50}).Draw(t, "backups"),
			Readers: rapid.IntRange(2, 8).Draw(t, "readers"), Reads: rapid.SampledFrom([]int{1, 1, 2, 5}).Draw(t, "reads")}
		n := rapid.IntRange(1, 30).Draw(t, "steps")
		if c.Hosts >= 5000 {
			n = 1 + n%8
		}
		for i := 0; i < n; i++ {
			st := acStep{Idx: rapid.IntRange(0, 1<<20).Draw(t, "idx"), Type: rapid.IntRange(0, 1).Draw(t, "type")}
			st.Op = rapid.SampledFrom([]string{"remove", "remove", "unhealthy", "unhealthy", "healthy", "add", "retype", "mains-down", "mains-up", "replaceall"}).Draw(t, "op")
			if (st.Op == "mains-down" || st.Op == "mains-up" || st.Op == "replaceall") && c.Hosts > 64 { // one rebuild per host: quadratic
				st.Op = "remove"
			}
			c.Steps = append(c.Steps, st)
		}
		if v := checkAfterChange(c); v != nil {
			vh.Fail(t, vh.Failure{Property: prop, Part: "afterchange", Signature: v.sig, Message: v.msg, Case: c})
		}
		vh.Rec().Case("afterchange", true, vh.JSON(c))
		vh.Rec().ClassN("afterchange", "concurrent_reader_groups_released_after_a_change", int64(len(c.Steps)))
		if c.Hosts >= 1000 {
			vh.Rec().Class("afterchange", "set_with>=1000_hosts")
		}
		vh.Rec().Sample("afterchange", true, func() interface{} { return c })
	})
}

func init() {
	vh.RegisterReplay("afterchange", func(t *testing.T, raw json.RawMessage) {
		var c acCase
		if err := json.Unmarshal(raw, &c); err != nil {
			t.Fatal(err)
		}
		for i := 0; i < 20; i++ {
			if v := checkAfterChange(c); v != nil {
				vh.Fail(t, vh.Failure{Property: prop, Part: "afterchange", Signature: v.sig, Message: v.msg, Case: c})
			}
		}
	})
}
