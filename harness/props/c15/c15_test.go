// Package c15 decides property C15: the host set and the health monitor keep a
// consistent view of usable hosts.
package c15

import (
	"encoding/json"
	"errors"
	"fmt"
	"sort"
	"sync"
	"testing"
	"time"

	"github.com/samaritan-proxy/samaritan/host"
	hcpb "github.com/samaritan-proxy/samaritan/pb/config/hc"
	"github.com/samaritan-proxy/samaritan/proc/verifexport"
	"pgregory.net/rapid"

	"verif/harness/vh"
)

const prop = "C15"

func TestMain(m *testing.M) { vh.Main(m) }

type verdict struct{ sig, msg string }

// ---- sequential model of host.Set

type sop struct {
	Op    string `json:"op"` // add, remove, replace, healthy, unhealthy
	Addr  int    `json:"addr,omitempty"`
	Type  int    `json:"type,omitempty"`  // add: host type; remove: type of the object passed
	Fresh bool   `json:"fresh,omitempty"` // remove: pass a fresh object (as the controller does) instead of the stored one
	Stale int    `json:"stale,omitempty"` // healthy/unhealthy: 0 = current member object, k>0 = k-th newest retired object of that address
	Hosts []int  `json:"hosts,omitempty"` // replace: addr*2+type
}

type setCase struct {
	Initial []int `json:"initial"` // addr*2+type
	Ops     []sop `json:"ops"`
}

func addrOf(i int) string { return fmt.Sprintf("10.0.0.%d:80", i) }

type member struct {
	obj *host.Host
}

type setInfo struct {
	typeChange, staleMark, mismatchedRemove int
}

func checkSet(c setCase) (inf setInfo, v *verdict) {
	model := map[string]*host.Host{} // addr -> current object
	retired := map[string][]*host.Host{}
	var init []*host.Host
	for _, x := range c.Initial {
		a := addrOf(x / 2)
		if _, dup := model[a]; dup {
			continue
		}
		h := host.NewWithType(a, host.Type(x%2))
		model[a] = h
		init = append(init, h)
	}
	set := host.NewSet(init...)
	verify := func(where string) *verdict {
		// expected usable hosts
		var main, backup []*host.Host
		for _, h := range model {
			if !h.IsHealthy() {
				continue
			}
			if h.Type == host.TypeMain {
				main = append(main, h)
			} else {
				backup = append(backup, h)
			}
		}
		want := main
		if len(main) == 0 {
			want = backup
		}
		sort.Slice(want, func(i, j int) bool { return want[i].Addr < want[j].Addr })
		got := set.Healthy()
		if len(got) != len(want) {
			return &verdict{"usable-set-mismatch", fmt.Sprintf("%s: Healthy() = %v, want %v", where, names(got), names(want))}
		}
		for i := range got {
			if got[i] != want[i] {
				if got[i].Addr == want[i].Addr {
					return &verdict{"usable-stale-object", fmt.Sprintf("%s: Healthy() reports a retired object for %s", where, got[i].Addr)}
				}
				return &verdict{"usable-set-mismatch", fmt.Sprintf("%s: Healthy() = %v, want %v", where, names(got), names(want))}
			}
		}
		for i := 1; i < len(got); i++ {
			if got[i-1].Addr >= got[i].Addr {
				return &verdict{"usable-not-sorted", fmt.Sprintf("%s: Healthy() = %v", where, names(got))}
			}
		}
		all := set.All()
		if len(all) != len(model) || set.Len() != len(model) {
			return &verdict{"all-mismatch", fmt.Sprintf("%s: All() has %d hosts (Len %d), model %d", where, len(all), set.Len(), len(model))}
		}
		for _, h := range all {
			if model[h.Addr] != h {
				return &verdict{"all-mismatch", fmt.Sprintf("%s: All() contains %s which is not the current member object", where, h)}
			}
		}
		for i := 0; i < 8; i++ {
			if set.Exist(addrOf(i)) != (model[addrOf(i)] != nil) {
				return &verdict{"exist-mismatch", fmt.Sprintf("%s: Exist(%s) wrong", where, addrOf(i))}
			}
		}
		for i := 0; i < 3; i++ {
			r := set.Random()
			if len(want) == 0 {
				if r != nil {
					return &verdict{"random-not-usable", fmt.Sprintf("%s: Random() = %s with no usable host", where, r)}
				}
				continue
			}
			ok := false
			for _, h := range want {
				if h == r {
					ok = true
				}
			}
			if !ok {
				return &verdict{"random-not-usable", fmt.Sprintf("%s: Random() = %v, usable %v", where, r, names(want))}
			}
		}
		return nil
	}
	if v := verify("initially"); v != nil {
		return inf, v
	}
	for i, o := range c.Ops {
		a := addrOf(o.Addr)
		where := fmt.Sprintf("after step %d (%s)", i, vh.JSON(o))
		switch o.Op {
		case "add":
			h := host.NewWithType(a, host.Type(o.Type))
			if old := model[a]; old != nil {
				if old.Type != h.Type {
					inf.typeChange++
				}
				retired[a] = append(retired[a], old)
			}
			model[a] = h
			set.Add(h)
		case "remove":
			cur := model[a]
			var arg *host.Host
			if o.Fresh || cur == nil {
				typ := host.Type(o.Type)
				arg = host.NewWithType(a, typ)
				if cur != nil && cur.Type != typ {
					inf.mismatchedRemove++
				}
			} else {
				arg = cur
			}
			if cur != nil {
				retired[a] = append(retired[a], cur)
				delete(model, a)
			}
			set.Remove(arg)
		case "replace":
			if len(o.Hosts) == 0 {
				continue
			}
			for a2, h := range model {
				retired[a2] = append(retired[a2], h)
			}
			model = map[string]*host.Host{}
			var hs []*host.Host
			for _, x := range o.Hosts {
				a2 := addrOf(x / 2)
				if model[a2] != nil {
					continue
				}
				h := host.NewWithType(a2, host.Type(x%2))
				model[a2] = h
				hs = append(hs, h)
			}
			set.ReplaceAll(hs)
		case "healthy", "unhealthy":
			var target *host.Host
			if o.Stale == 0 {
				target = model[a]
			} else if r := retired[a]; len(r) >= o.Stale {
				target = r[len(r)-o.Stale]
				inf.staleMark++
			}
			if target == nil {
				continue
			}
			if o.Op == "healthy" {
				set.MarkHostHealthy(target)
			} else {
				set.MarkHostUnhealthy(target)
			}
		}
		if v := verify(where); v != nil {
			return inf, v
		}
	}
	return inf, nil
}

func names(hs []*host.Host) []string {
	r := make([]string, len(hs))
	for i, h := range hs {
		r[i] = h.String()
	}
	return r
}

func genSet(t *rapid.T) setCase {
	var c setCase
	c.Initial = rapid.SliceOfN(rapid.IntRange(0, 11), 0, 5).Draw(t, "initial")
	n := rapid.IntRange(1, 40).Draw(t, "n")
	for i := 0; i < n; i++ {
		o := sop{Addr: rapid.IntRange(0, 5).Draw(t, "addr")}
		switch x := rapid.IntRange(0, 15).Draw(t, "op"); {
		case x <= 4:
			o.Op, o.Type = "add", rapid.IntRange(0, 1).Draw(t, "type")
		case x <= 7:
			o.Op, o.Fresh, o.Type = "remove", rapid.Bool().Draw(t, "fresh"), rapid.IntRange(0, 1).Draw(t, "type")
		case x == 8:
			o.Op, o.Hosts = "replace", rapid.SliceOfN(rapid.IntRange(0, 11), 1, 5).Draw(t, "hosts")
		case x <= 12:
			o.Op = "unhealthy"
			if rapid.IntRange(0, 3).Draw(t, "stale") == 0 {
				o.Stale = rapid.IntRange(1, 2).Draw(t, "k")
			}
		default:
			o.Op = "healthy"
			if rapid.IntRange(0, 3).Draw(t, "stale") == 0 {
				o.Stale = rapid.IntRange(1, 2).Draw(t, "k")
			}
		}
		c.Ops = append(c.Ops, o)
	}
	return c
}

func TestSetModel(t *testing.T) {
	rapid.Check(t, func(t *rapid.T) {
		c := genSet(t)
		inf, v := checkSet(c)
		if v != nil {
			vh.Fail(t, vh.Failure{Property: prop, Part: "set", Signature: v.sig, Message: v.msg, Case: c})
		}
		nt := inf.typeChange+inf.staleMark+inf.mismatchedRemove > 0
		vh.Rec().Case("set", nt, vh.JSON(c))
		if inf.typeChange > 0 {
			vh.Rec().Class("set", "type_change_of_address")
		}
		if inf.staleMark > 0 {
			vh.Rec().Class("set", "mark_on_stale_object")
		}
		if inf.mismatchedRemove > 0 {
			vh.Rec().Class("set", "remove_with_other_type")
		}
		vh.Rec().Sample("set", nt, func() interface{} { return c })
	})
}

// ---- hysteresis through the real monitor with a scripted checker

type hystCase struct {
	Rise    uint32   `json:"rise"`
	Fall    uint32   `json:"fall"`
	Hosts   int      `json:"hosts"`
	Rounds  [][]bool `json:"rounds"` // rounds[r][h] = check succeeds
	Removes []int    `json:"removes"` // removes[r] = host index removed and re-added (fresh object) before round r, -1 none
	// Resets: before round At the health-check configuration is replaced at run time (ResetHealthCheck, what a service
	// configuration update does): new thresholds, the same or another interval. Later flips follow the new thresholds.
	Resets []hystReset `json:"resets,omitempty"`
}

type hystReset struct {
	At          int    `json:"at"`
	Rise        uint32 `json:"rise"`
	Fall        uint32 `json:"fall"`
	NewInterval bool   `json:"new_interval"`
}

func checkHyst(c hystCase) (interrupted bool, v *verdict) {
	hs := make([]*host.Host, c.Hosts)
	for i := range hs {
		hs[i] = host.NewWithType(addrOf(i), host.TypeMain)
	}
	set := host.NewSet(hs...)
	mkCfg := func(rise, fall uint32, interval time.Duration) *hcpb.HealthCheck {
		cfg := &hcpb.HealthCheck{Interval: interval, Timeout: time.Second, FallThreshold: fall, RiseThreshold: rise}
		if len(c.Resets) > 0 {
			cfg.Checker = &hcpb.HealthCheck_TcpChecker{TcpChecker: &hcpb.TCPChecker{}} // the same kind before and after: the scripted checker stays
		}
		return cfg
	}
	interval := time.Hour
	mon, err := verifexport.NewMonitor(mkCfg(c.Rise, c.Fall, interval), set)
	if err != nil || mon == nil {
		return false, &verdict{"monitor-construct", fmt.Sprintf("NewMonitor: %v", err)}
	}
	if len(c.Resets) > 0 {
		// the monitor's own loop runs (its ticker never fires within a case): it takes the configuration updates; the
		// rounds are still driven synchronously
		mon.Start()
		defer mon.Stop()
	}
	rise, fall := c.Rise, c.Fall
	var round []bool
	var mu sync.Mutex
	mon.VerifSetChecker(func(addr string, _ time.Duration) error {
		mu.Lock()
		defer mu.Unlock()
		for i := range hs {
			if addrOf(i) == addr {
				if round[i] {
					return nil
				}
				return errors.New("scripted failure")
			}
		}
		return errors.New("unknown host")
	})
	state := make([]bool, c.Hosts) // model: healthy?
	run := make([]uint32, c.Hosts) // consecutive contrary results
	for i := range state {
		state[i] = true
	}
	for r, res := range c.Rounds {
		if r < len(c.Removes) && c.Removes[r] >= 0 && c.Removes[r] < c.Hosts {
			i := c.Removes[r]
			set.Remove(host.NewWithType(addrOf(i), host.TypeMain))
			hs[i] = host.NewWithType(addrOf(i), host.TypeMain)
			set.Add(hs[i])
			state[i], run[i] = true, 0
		}
		for _, rs := range c.Resets {
			if rs.At != r {
				continue
			}
			if rs.NewInterval {
				interval += time.Hour
			}
			rerr := make(chan error, 1)
			go func() { rerr <- mon.ResetHealthCheck(mkCfg(rs.Rise, rs.Fall, interval)) }()
			select {
			case err := <-rerr:
				if err == nil {
					rise, fall = rs.Rise, rs.Fall
					if rs.NewInterval {
						time.Sleep(2 * time.Millisecond) // the loop re-arms its ticker
					}
				}
			case <-time.After(10 * time.Second):
				return interrupted, &verdict{"reset-never-returns", fmt.Sprintf("round %d: ResetHealthCheck did not return within 10s", r)}
			}
		}
		mu.Lock()
		round = res
		mu.Unlock()
		mon.VerifCheckHosts()
		for i := range hs {
			contrary := res[i] != state[i]
			if contrary {
				run[i]++
			} else {
				if run[i] > 0 {
					interrupted = true
				}
				run[i] = 0
			}
			obs := hs[i].IsHealthy()
			thr := fall
			if !state[i] {
				thr = rise
			}
			if obs != state[i] {
				need := thr
				if need == 0 {
					need = 1
				}
				if run[i] < need {
					return interrupted, &verdict{"flip-too-early", fmt.Sprintf("round %d host %d: health flipped to %v after only %d consecutive contrary results (threshold %d)", r, i, obs, run[i], thr)}
				}
				state[i], run[i] = obs, 0
			} else if run[i] >= thr+1 {
				return interrupted, &verdict{"flip-missing", fmt.Sprintf("round %d host %d: still %v after %d consecutive contrary results (threshold %d)", r, i, obs, run[i], thr)}
			}
		}
		// the usable view follows the flags
		var want []string
		for i := range hs {
			if hs[i].IsHealthy() {
				want = append(want, hs[i].Addr)
			}
		}
		sort.Strings(want)
		got := set.Healthy()
		if len(got) != len(want) {
			return interrupted, &verdict{"usable-set-mismatch", fmt.Sprintf("round %d: Healthy() = %v, want %v", r, names(got), want)}
		}
		for i := range got {
			if got[i].Addr != want[i] || got[i] != hostByAddr(hs, want[i]) {
				return interrupted, &verdict{"usable-set-mismatch", fmt.Sprintf("round %d: Healthy() = %v, want %v", r, names(got), want)}
			}
		}
	}
	return interrupted, nil
}

func hostByAddr(hs []*host.Host, a string) *host.Host {
	for _, h := range hs {
		if h.Addr == a {
			return h
		}
	}
	return nil
}

func TestHysteresis(t *testing.T) {
	rapid.Check(t, func(t *rapid.T) {
		c := hystCase{Rise: uint32(rapid.IntRange(0, 5).Draw(t, "rise")), Fall: uint32(rapid.IntRange(0, 5).Draw(t, "fall")), Hosts: rapid.IntRange(1, 4).Draw(t, "hosts")}
		n := rapid.IntRange(1, 40).Draw(t, "rounds")
		bias := rapid.IntRange(1, 9).Draw(t, "bias")
		for r := 0; r < n; r++ {
			row := make([]bool, c.Hosts)
			for i := range row {
				row[i] = rapid.IntRange(0, 9).Draw(t, "ok") < bias
			}
			c.Rounds = append(c.Rounds, row)
			rm := -1
			if rapid.IntRange(0, 14).Draw(t, "rm") == 0 {
				rm = rapid.IntRange(0, c.Hosts-1).Draw(t, "rmh")
			}
			c.Removes = append(c.Removes, rm)
		}
		if rapid.IntRange(0, 2).Draw(t, "resets") == 0 {
			for k, m := 0, rapid.IntRange(1, 3).Draw(t, "nresets"); k < m; k++ {
				c.Resets = append(c.Resets, hystReset{At: rapid.IntRange(0, n-1).Draw(t, "rsat"), Rise: uint32(rapid.IntRange(0, 6).Draw(t, "rsrise")), Fall: uint32(rapid.IntRange(0, 6).Draw(t, "rsfall")),
					NewInterval: rapid.IntRange(0, 2).Draw(t, "rsint") == 0})
			}
		}
		interrupted, v := checkHyst(c)
		if v != nil {
			vh.Fail(t, vh.Failure{Property: prop, Part: "hysteresis", Signature: v.sig, Message: v.msg, Case: c})
		}
		vh.Rec().Case("hysteresis", interrupted, vh.JSON(c))
		vh.Rec().Sample("hysteresis", interrupted, func() interface{} { return c })
	})
}

// ---- concurrent interleavings: every read is a consistent snapshot

type concCase struct {
	Workers int   `json:"workers"`
	Steps   int   `json:"steps"`
	Seeds   []int `json:"seeds"`
}

func checkConc(c concCase) *verdict {
	set := host.NewSet()
	var memberMu sync.Mutex
	everMember := map[*host.Host]bool{}
	stop := make(chan struct{})
	var rwg, wwg sync.WaitGroup
	errCh := make(chan *verdict, 16)
	report := func(v *verdict) {
		select {
		case errCh <- v:
		default:
		}
	}
	for r := 0; r < 2; r++ {
		rwg.Add(1)
		go func() {
			defer rwg.Done()
			for {
				select {
				case <-stop:
					return
				default:
				}
				got := set.Healthy()
				hasNil := false
				for _, h := range got {
					if h == nil {
						hasNil = true
					}
				}
				if hasNil {
					report(&verdict{"concurrent-never-member", "Healthy() reports <nil> which was never added (a snapshot a reader holds is being modified in place)"})
					return
				}
				for i := range got {
					if i > 0 && got[i-1].Addr >= got[i].Addr {
						report(&verdict{"concurrent-not-sorted", fmt.Sprintf("Healthy() = %v", names(got))})
						return
					}
				}
				memberMu.Lock()
				for _, h := range got {
					if !everMember[h] {
						memberMu.Unlock()
						report(&verdict{"concurrent-never-member", fmt.Sprintf("Healthy() reports %s which was never added", h)})
						return
					}
				}
				memberMu.Unlock()
				if len(got) > 0 {
					tier := got[0].Type
					for _, h := range got {
						if h.Type != tier {
							report(&verdict{"concurrent-mixed-tiers", fmt.Sprintf("Healthy() mixes tiers: %v", names(got))})
							return
						}
					}
				}
			}
		}()
	}
	for w := 0; w < c.Workers; w++ {
		wwg.Add(1)
		go func(w int) {
			defer wwg.Done()
			x := uint64(c.Seeds[w%len(c.Seeds)])*2654435761 + 12345
			cur := map[int]*host.Host{}
			for s := 0; s < c.Steps; s++ {
				x ^= x << 13
				x ^= x >> 7
				x ^= x << 17
				a := int(x>>8) % 6
				// each worker owns a disjoint address range so it knows the current object
				addr := w*6 + a
				switch (x >> 20) % 5 {
				case 0, 1:
					h := host.NewWithType(addrOf(addr), host.Type((x>>30)%2))
					memberMu.Lock()
					everMember[h] = true
					memberMu.Unlock()
					if old := cur[addr]; old != nil {
						set.Remove(host.NewWithType(old.Addr, old.Type))
					}
					cur[addr] = h
					set.Add(h)
				case 2:
					if old := cur[addr]; old != nil {
						set.Remove(host.NewWithType(old.Addr, old.Type))
						delete(cur, addr)
					}
				case 3:
					if h := cur[addr]; h != nil {
						set.MarkHostUnhealthy(h)
					}
				case 4:
					if h := cur[addr]; h != nil {
						set.MarkHostHealthy(h)
					}
				}
			}
			// settle: at the end this worker's members must be reported exactly per their flags
			for _, h := range cur {
				_ = h
			}
		}(w)
	}
	wwg.Wait()
	close(stop)
	rwg.Wait()
	select {
	case v := <-errCh:
		return v
	default:
	}
	// quiescent: the final view is consistent
	got := set.Healthy()
	all := set.All()
	inAll := map[*host.Host]bool{}
	for _, h := range all {
		inAll[h] = true
	}
	for _, h := range got {
		if !inAll[h] {
			return &verdict{"concurrent-final-not-member", fmt.Sprintf("quiescent Healthy() reports %s which is not in All()", h)}
		}
		if !h.IsHealthy() {
			return &verdict{"concurrent-final-unhealthy", fmt.Sprintf("quiescent Healthy() reports unhealthy %s", h)}
		}
	}
	return nil
}

func TestSetConcurrent(t *testing.T) {
	rapid.Check(t, func(t *rapid.T) {
		c := concCase{Workers: rapid.IntRange(2, 8).Draw(t, "workers"), Steps: rapid.IntRange(50, 1500).Draw(t, "steps"),
			Seeds: rapid.SliceOfN(rapid.IntRange(1, 1<<30), 8, 8).Draw(t, "seeds")}
		if v := checkConc(c); v != nil {
			vh.Fail(t, vh.Failure{Property: prop, Part: "concurrent", Signature: v.sig, Message: v.msg, Case: c})
		}
		vh.Rec().Case("concurrent", true, vh.JSON(c))
		vh.Rec().Sample("concurrent", true, func() interface{} { return c })
	})
}

// ---- a health mark racing with the removal / replacement of the same host

type raceCase struct {
	Mark  string `json:"mark"`  // healthy, unhealthy
	Other string `json:"other"` // remove, replaceall, readd
	Iters int    `json:"iters"`
}

func checkMarkRace(c raceCase) *verdict {
	for i := 0; i < c.Iters; i++ {
		stay := host.NewWithType(addrOf(0), host.TypeMain)
		victim := host.NewWithType(addrOf(1), host.TypeMain)
		set := host.NewSet(stay, victim)
		if c.Mark == "healthy" {
			set.MarkHostUnhealthy(victim)
		}
		var fresh *host.Host
		start := make(chan struct{})
		var wg sync.WaitGroup
		wg.Add(2)
		go func() {
			defer wg.Done()
			<-start
			if c.Mark == "healthy" {
				set.MarkHostHealthy(victim)
			} else {
				set.MarkHostUnhealthy(victim)
			}
		}()
		go func() {
			defer wg.Done()
			<-start
			switch c.Other {
			case "remove":
				set.Remove(host.NewWithType(addrOf(1), host.TypeMain))
			case "replaceall":
				set.ReplaceAll([]*host.Host{host.NewWithType(addrOf(0), host.TypeMain)})
			default:
				fresh = host.NewWithType(addrOf(1), host.TypeMain)
				set.Add(fresh)
			}
		}()
		close(start)
		wg.Wait()
		// quiescent: the usable view must be exactly the healthy current members
		got := set.Healthy()
		inAll := map[*host.Host]bool{}
		for _, h := range set.All() {
			inAll[h] = true
		}
		for _, h := range got {
			if !inAll[h] {
				return &verdict{"race-removed-host-usable", fmt.Sprintf("iteration %d: Mark%s(victim) raced with %s: Healthy() reports %s which is no longer a member", i, c.Mark, c.Other, h)}
			}
		}
		for h := range inAll {
			found := false
			for _, g := range got {
				if g == h {
					found = true
				}
			}
			if h.IsHealthy() && !found {
				return &verdict{"race-healthy-member-dropped", fmt.Sprintf("iteration %d: Mark%s(victim) raced with %s: the healthy member %s is missing from Healthy()", i, c.Mark, c.Other, h)}
			}
		}
	}
	return nil
}

func TestMarkRace(t *testing.T) {
	rapid.Check(t, func(t *rapid.T) {
		c := raceCase{Mark: rapid.SampledFrom([]string{"healthy", "healthy", "unhealthy"}).Draw(t, "mark"),
			Other: rapid.SampledFrom([]string{"remove", "replaceall", "readd"}).Draw(t, "other"), Iters: 40000}
		if vh.Thorough() {
			c.Iters = 200000
		}
		if v := checkMarkRace(c); v != nil {
			vh.Fail(t, vh.Failure{Property: prop, Part: "markrace", Signature: v.sig, Message: v.msg, Case: c})
		}
		vh.Rec().Case("markrace", true, vh.JSON(c))
		vh.Rec().ClassN("markrace", "raced_pairs", int64(c.Iters))
		vh.Rec().Sample("markrace", true, func() interface{} { return c })
	})
}

func init() {
	vh.RegisterReplay("markrace", func(t *testing.T, raw json.RawMessage) {
		var c raceCase
		json.Unmarshal(raw, &c)
		c.Iters = 600000
		if v := checkMarkRace(c); v != nil {
			vh.Fail(t, vh.Failure{Property: prop, Part: "markrace", Signature: v.sig, Message: v.msg, Case: c})
		}
	})
	vh.RegisterReplay("set", func(t *testing.T, raw json.RawMessage) {
		var c setCase
		if err := json.Unmarshal(raw, &c); err != nil {
			t.Fatal(err)
		}
		if _, v := checkSet(c); v != nil {
			vh.Fail(t, vh.Failure{Property: prop, Part: "set", Signature: v.sig, Message: v.msg, Case: c})
		}
	})
	vh.RegisterReplay("hysteresis", func(t *testing.T, raw json.RawMessage) {
		var c hystCase
		if err := json.Unmarshal(raw, &c); err != nil {
			t.Fatal(err)
		}
		if _, v := checkHyst(c); v != nil {
			vh.Fail(t, vh.Failure{Property: prop, Part: "hysteresis", Signature: v.sig, Message: v.msg, Case: c})
		}
	})
	vh.RegisterReplay("concurrent", func(t *testing.T, raw json.RawMessage) {
		var c concCase
		if err := json.Unmarshal(raw, &c); err != nil {
			t.Fatal(err)
		}
		for i := 0; i < 20; i++ {
			if v := checkConc(c); v != nil {
				vh.Fail(t, vh.Failure{Property: prop, Part: "concurrent", Signature: v.sig, Message: v.msg, Case: c})
			}
		}
	})
}

func TestReplay(t *testing.T) { vh.RunReplay(t) }
