package c15

import (
	"testing"

	"verif/harness/vh"
)

// TestSetExhaustive enumerates EVERY history of exactly L operations on a host set over two addresses (started empty):
// add with either type, remove with the stored object or a fresh one of either type, mark healthy / unhealthy on the
// current member object or on the newest retired object of the address, and four replace-all lists. Shorter histories are
// prefixes; the oracle is the sequential model of the generated part, applied after every step.
func TestSetExhaustive(t *testing.T) {
	L := 5
	if vh.Thorough() {
		L = 6
	}
	var symbols []sop
	for a := 0; a < 2; a++ {
		for ty := 0; ty < 2; ty++ {
			symbols = append(symbols, sop{Op: "add", Addr: a, Type: ty})
			symbols = append(symbols, sop{Op: "remove", Addr: a, Type: ty, Fresh: true})
		}
		symbols = append(symbols, sop{Op: "remove", Addr: a})
		for st := 0; st < 2; st++ {
			symbols = append(symbols, sop{Op: "healthy", Addr: a, Stale: st}, sop{Op: "unhealthy", Addr: a, Stale: st})
		}
	}
	for _, hs := range [][]int{{0}, {3}, {0, 2}, {1, 2}} {
		symbols = append(symbols, sop{Op: "replace", Hosts: hs})
	}
	total := 1
	for i := 0; i < L; i++ {
		total *= len(symbols)
	}
	sh, n := vh.Shard()
	var evaluated, nt int64
	ops := make([]sop, L)
	for idx := sh; idx < total; idx += n {
		x := idx
		for i := 0; i < L; i++ {
			ops[i] = symbols[x%len(symbols)]
			x /= len(symbols)
		}
		inf, v := checkSet(setCase{Ops: ops})
		if v != nil {
			vh.Fail(t, vh.Failure{Property: prop, Part: "set", Signature: v.sig, Message: v.msg, Case: setCase{Ops: append([]sop(nil), ops...)}})
		}
		evaluated++
		if inf.typeChange+inf.staleMark+inf.mismatchedRemove > 0 {
			nt++
		}
	}
	vh.Rec().CaseN("set-exhaustive", evaluated, nt)
	vh.Rec().Exhaustive("set-exhaustive")
	vh.Rec().Sample("set-exhaustive", true, func() interface{} {
		return map[string]interface{}{"steps": L, "addresses": 2, "operations": len(symbols), "histories": total}
	})
}
