package c12

import (
	"encoding/json"
	"fmt"
	"strings"
	"testing"
	"time"

	"github.com/samaritan-proxy/samaritan/host"
	"pgregory.net/rapid"

	"verif/harness/ref"
	"verif/harness/sim"
	"verif/harness/vh"
)

// part tagrouting: the consequence of the mapping on a correctly sharded cluster - keys that share a hash tag reach the same
// node first, the owner of the tag's slot, and nothing is sent to a node that answers MOVED - also while some of the slots
// are half migrated (some keys of the tag still on the owner, some already on the importing node, some absent), which is
// when a router that learns owners from redirections goes wrong. Ownership never changes during a case.

type tagStep struct {
	Tag int    `json:"tag"`
	Key int    `json:"key"`
	Cmd string `json:"cmd"` // GET, SET, EXISTS, APPEND
}

type tagCase struct {
	Masters int       `json:"masters"`
	Tags    []string  `json:"tags"`     // tag texts; keys are "<prefix>{tag}<i>"
	Migrate []int     `json:"migrate"`  // per tag: -1 stable, else how many of its first keys were moved to the importing node
	Present []int     `json:"present"`  // per tag: how many of its keys exist at all (the others are absent everywhere)
	Steps   []tagStep `json:"steps"`
	// AloneNode: before the steps a freshly started node that has not met the cluster (CLUSTER NODES: itself, no slots) is
	// added to the service's hosts, and the steps begin once it has answered a slot refresh. The cluster is as correctly
	// sharded as before.
	AloneNode bool `json:"alone_node,omitempty"`
}

const keysPerTag = 8

func tagKey(tag string, i int) string { return fmt.Sprintf("p%d{%s}k%d", i%3, tag, i) }

func checkTagRouting(c tagCase) (nt bool, v *verdict2) {
	w, err := sim.NewWorld(c.Masters, 0)
	if err != nil {
		return false, nil
	}
	defer w.Close()
	w.AssignEven(w.Masters())
	px, err := sim.StartProxy(sim.ProxyOpts{Seeds: w.AllAddrs()})
	if err != nil {
		return false, &verdict2{"proxy-start", err.Error()}
	}
	defer px.Stop(20 * time.Second)
	if !px.WaitTableLoaded(1, 10*time.Second) {
		return false, &verdict2{"table-not-loaded", "the routing table was not loaded within 10s"}
	}
	cl, err := sim.Dial(px.Addr)
	if err != nil {
		return false, &verdict2{"client-dial", err.Error()}
	}
	defer cl.Close()
	model := map[string]string{}
	// populate through the proxy while everything is stable
	for ti, tag := range c.Tags {
		for i := 0; i < keysPerTag && i < c.Present[ti]; i++ {
			k := tagKey(tag, i)
			if r, err := cl.Do(10*time.Second, "SET", k, "v0"); err != nil || r.IsErr() {
				return false, nil
			}
			model[k] = "v0"
		}
	}
	// half-migrate the chosen tags' slots
	for ti, tag := range c.Tags {
		if c.Migrate[ti] < 0 {
			continue
		}
		slot := ref.Slot([]byte(tagKey(tag, 0)))
		from := w.Owner(slot)
		ms := w.Masters()
		to := ms[(from+1+ti)%len(ms)]
		if to == from {
			to = ms[(from+1)%len(ms)]
		}
		if to == from || !w.BeginMigration(slot, to) {
			continue
		}
		w.MoveKeys(slot, c.Migrate[ti])
		nt = true
	}
	if c.AloneNode {
		n, err := w.AddNode(-1)
		if err != nil {
			return nt, nil
		}
		w.Lock()
		n.Alone = true
		w.Unlock()
		if err := px.P.OnSvcHostAdd([]*host.Host{host.New(n.Addr)}); err != nil {
			return nt, nil
		}
		for dl := time.Now().Add(5 * time.Second); time.Now().Before(dl); time.Sleep(2 * time.Millisecond) {
			w.Lock()
			served := n.ClusterNodesServed
			w.Unlock()
			if served >= 2 {
				nt = true
				break
			}
		}
	}
	m0, _ := w.Redirects()
	tainted := map[string]bool{}
	for si, st := range c.Steps {
		tag := c.Tags[st.Tag%len(c.Tags)]
		k := tagKey(tag, st.Key%keysPerTag)
		slot := ref.Slot([]byte(k))
		owner := w.Owner(slot)
		w.ResetLog()
		var args []string
		var want ref.Value
		switch st.Cmd {
		case "SET":
			val := fmt.Sprintf("v%d", si+1)
			args, want = []string{"SET", k, val}, ref.OKV()
			model[k] = val
		case "APPEND":
			args = []string{"APPEND", k, "x"}
			model[k] += "x"
			want = ref.IntV(int64(len(model[k])))
		case "EXISTS":
			args = []string{"EXISTS", k}
			want = ref.IntV(0)
			if _, ok := model[k]; ok {
				want = ref.IntV(1)
			}
		case "EVAL", "eval", "Eval", "eVAL":
			// a script with one key: routed by KEYS[1] like any keyed command (the simulated node answers with a digest of the arguments)
			args = []string{st.Cmd, "return redis.call('get', KEYS[1])", "1", k}
			want = ref.Value{}
		default:
			args = []string{"GET", k}
			if val, ok := model[k]; ok {
				want = ref.BulkS(val)
			} else {
				want = ref.NullBulk()
			}
		}
		got, err := cl.Do(20*time.Second, args...)
		if err != nil {
			return nt, &verdict2{"no-reply", fmt.Sprintf("step %d %v: %v", si, args, err)}
		}
		isEval := len(args) == 4 && len(args[0]) == 4 && (args[0][1] == 'v' || args[0][1] == 'V')
		if isEval {
			tainted[k] = true // the simulated node executes scripts by its digest rule: the key's content is not modelled from here on
		}
		if isEval || tainted[k] {
			if got.IsErr() && (len(got.S) >= 5 && (string(got.S[:5]) == "MOVED" || string(got.S[:3]) == "ASK")) {
				return nt, &verdict2{"reply-differs", fmt.Sprintf("step %d %v: answered %s", si, args, got)}
			}
		} else if !ref.Equal(got, want) {
			return nt, &verdict2{"reply-differs", fmt.Sprintf("step %d %v (tag %q, slot %d): answered %s, a single server answers %s", si, args, tag, slot, got, want)}
		}
		first := true
		for _, e := range w.Snapshot() {
			if sim.IsBackground(e) {
				continue
			}
			// only the entries of this very command count: a node's port may have belonged, moments ago, to a node of another
			// check's world which that check killed, and its proxy may still be knocking (seen once: a foreign SCAN)
			if len(e.Args) != len(args) || !strings.EqualFold(string(e.Args[0]), args[0]) || string(e.Args[len(e.Args)-1]) != args[len(args)-1] {
				continue
			}
			if first && e.Node != owner {
				return nt, &verdict2{"not-routed-to-slot-owner", fmt.Sprintf("step %d %v: key %q has tag %q, slot %d, owned by node %d all along; the first client command logged after it was sent is %s at node %d (outcome there: %s). Keys sharing a hash tag must reach the same node",
					si, args, k, tag, slot, owner, sim.ArgsString(e.Args), e.Node, e.Outcome)}
			}
			first = false
			if e.Outcome == "moved" {
				return nt, &verdict2{"sent-to-a-node-that-answers-moved", fmt.Sprintf("step %d %v: key %q (slot %d, owner node %d all along) was sent to node %d, which answered MOVED", si, args, k, slot, owner, e.Node)}
			}
		}
		if first {
			return nt, &verdict2{"not-routed-to-slot-owner", fmt.Sprintf("step %d %v: answered %s, but no node received this command as the client sent it (owner of slot %d: node %d)", si, args, got, slot, owner)}
		}
	}
	if m1, _ := w.Redirects(); m1 != m0 {
		return nt, &verdict2{"sent-to-a-node-that-answers-moved", fmt.Sprintf("%d MOVED replies were issued although no slot changed its owner during the case", m1-m0)}
	}
	return nt, nil
}

type verdict2 struct{ sig, msg string }

func TestTagRouting(t *testing.T) {
	rapid.Check(t, func(t *rapid.T) {
		c := tagCase{Masters: rapid.IntRange(2, 4).Draw(t, "masters")}
		nt := rapid.IntRange(1, 4).Draw(t, "ntags")
		for i := 0; i < nt; i++ {
			c.Tags = append(c.Tags, rapid.StringMatching(`[a-z0-9:]{1,8}`).Draw(t, "tag"))
			mig := -1
			if rapid.IntRange(0, 3).Draw(t, "mig") != 0 {
				mig = rapid.IntRange(0, keysPerTag).Draw(t, "moved")
			}
			c.Migrate = append(c.Migrate, mig)
			c.Present = append(c.Present, rapid.IntRange(0, keysPerTag).Draw(t, "present"))
		}
		c.AloneNode = rapid.IntRange(0, 3).Draw(t, "alone") == 0
		for i, n := 0, rapid.IntRange(1, 40).Draw(t, "steps"); i < n; i++ {
			c.Steps = append(c.Steps, tagStep{Tag: rapid.IntRange(0, nt-1).Draw(t, "stag"), Key: rapid.IntRange(0, keysPerTag-1).Draw(t, "skey"),
				Cmd: rapid.SampledFrom([]string{"GET", "GET", "SET", "EXISTS", "APPEND", "EVAL", "eval", "Eval", "eVAL"}).Draw(t, "cmd")})
		}
		vh.CurrentCase(prop, "tagrouting", c)
		ntv, v := checkTagRouting(c)
		vh.ClearCurrentCase()
		if v != nil {
			vh.Fail(t, vh.Failure{Property: prop, Part: "tagrouting", Signature: v.sig, Message: v.msg, Case: c})
		}
		vh.Rec().Case("tagrouting", ntv, vh.JSON(c))
		vh.Rec().ClassN("tagrouting", "commands_on_keys_sharing_a_tag", int64(len(c.Steps)))
		half := false
		for _, m := range c.Migrate {
			half = half || m >= 0
		}
		if ntv && half {
			vh.Rec().Class("tagrouting", "half_migrated_slot")
		}
		if ntv && c.AloneNode {
			vh.Rec().Class("tagrouting", "a_node_that_has_not_met_the_cluster_answered_two_refreshes")
		}
		vh.Rec().Sample("tagrouting", ntv, func() interface{} { return c })
	})
}

func init() {
	vh.RegisterReplay("tagrouting", func(t *testing.T, raw json.RawMessage) {
		var c tagCase
		if err := json.Unmarshal(raw, &c); err != nil {
			t.Fatal(err)
		}
		if _, v := checkTagRouting(c); v != nil {
			vh.Fail(t, vh.Failure{Property: prop, Part: "tagrouting", Signature: v.sig, Message: v.msg, Case: c})
		}
	})
}
