// Package c12 decides property C12: the key->slot mapping the proxy routes by
// equals the Redis Cluster specification (CRC16/XMODEM of the hash tag, mod 16384).
package c12

import (
	"bytes"
	"encoding/json"
	"fmt"
	"testing"

	sut "github.com/samaritan-proxy/samaritan/proc/redis"
	"pgregory.net/rapid"

	"verif/harness/ref"
	"verif/harness/vh"
)

const prop = "C12"

func TestMain(m *testing.M) { vh.Main(m) }

type keyCase struct {
	Key []byte `json:"key"`
}

func checkKey(key []byte) (string, string) {
	want := ref.Slot(key)
	got := sut.VerifSlot(key)
	if got != want {
		return "slot-mismatch", fmt.Sprintf("key %q: proxy routes by slot %d, specification says %d", trunc(key), got, want)
	}
	wt := ref.Tag(key)
	gt := sut.VerifHashtag(key)
	if !bytes.Equal(gt, wt) {
		return "tag-mismatch", fmt.Sprintf("key %q: proxy hashes tag %q, specification says %q", trunc(key), trunc(gt), trunc(wt))
	}
	return "", ""
}

func trunc(b []byte) []byte {
	if len(b) > 80 {
		return append(append([]byte{}, b[:80]...), "..."...)
	}
	return b
}

func failKey(t vh.TB, part string, key []byte, sig, msg string) {
	vh.Fail(t, vh.Failure{Property: prop, Part: part, Signature: sig, Message: msg, Case: keyCase{Key: key}})
}

// TestSelfCheck pins the reference to the standard CRC16/XMODEM check value.
func TestSelfCheck(t *testing.T) {
	if c := ref.CRC16([]byte("123456789")); c != 0x31C3 {
		t.Fatalf("reference CRC16 self-check failed: %#x", c)
	}
	if s := ref.Slot([]byte("123456789")); s != 12739 {
		t.Fatalf("reference slot self-check failed: %d", s)
	}
	if s := ref.Slot([]byte("foo{bar}zap")); s != ref.Slot([]byte("bar")) {
		t.Fatalf("reference tag self-check failed")
	}
}

// TestCRC3Exhaustive enumerates all 2^24 three-byte keys (sharded by first byte):
// the first two bytes drive the CRC register through all 2^16 states, the third
// covers every next byte in every state.
func TestCRC3Exhaustive(t *testing.T) {
	sh, n := vh.Shard()
	var total, nt int64
	key := make([]byte, 3)
	for a := sh; a < 256; a += n {
		for b := 0; b < 256; b++ {
			for c := 0; c < 256; c++ {
				key[0], key[1], key[2] = byte(a), byte(b), byte(c)
				total++
				if a == '{' || b == '{' || c == '{' {
					nt++
				}
				if sig, msg := checkKey(key); sig != "" {
					failKey(t, "crc3", append([]byte{}, key...), sig, msg)
				}
			}
		}
	}
	// also all keys of length 0..2 (shard 0 only)
	if sh == 0 {
		if sig, msg := checkKey([]byte{}); sig != "" {
			failKey(t, "crc3", []byte{}, sig, msg)
		}
		total++
		for a := 0; a < 256; a++ {
			k1 := []byte{byte(a)}
			if sig, msg := checkKey(k1); sig != "" {
				failKey(t, "crc3", k1, sig, msg)
			}
			total++
			for b := 0; b < 256; b++ {
				k2 := []byte{byte(a), byte(b)}
				if sig, msg := checkKey(k2); sig != "" {
					failKey(t, "crc3", k2, sig, msg)
				}
				total++
				if a == '{' || b == '{' {
					nt++
				}
			}
		}
	}
	vh.Rec().CaseN("crc3", total, nt)
	vh.Rec().Exhaustive("crc3")
	vh.Rec().Sample("crc3", true, func() interface{} { return map[string]interface{}{"key_hex": "7b417d", "slot": ref.Slot([]byte("{A}"))} })
}

// TestBracesExhaustive enumerates every string of length <= 9 over {'{','}','a','b'}:
// all brace placements.
func TestBracesExhaustive(t *testing.T) {
	alpha := []byte("{}ab")
	var total, nt int64
	var rec func(prefix []byte, depth int)
	rec = func(prefix []byte, depth int) {
		total++
		if bytes.IndexByte(prefix, '{') >= 0 {
			nt++
		}
		if sig, msg := checkKey(prefix); sig != "" {
			failKey(t, "braces", append([]byte{}, prefix...), sig, msg)
		}
		if depth == 9 {
			return
		}
		for _, c := range alpha {
			rec(append(prefix, c), depth+1)
		}
	}
	rec(make([]byte, 0, 16), 0)
	vh.Rec().CaseN("braces", total, nt)
	vh.Rec().Exhaustive("braces")
	vh.Rec().Sample("braces", true, func() interface{} {
		return map[string]interface{}{"key": "a{}{b}a", "tag": string(ref.Tag([]byte("a{}{b}a"))), "slot": ref.Slot([]byte("a{}{b}a"))}
	})
}

func genKey(t *rapid.T) []byte {
	mode := rapid.IntRange(0, 9).Draw(t, "mode")
	var n int
	switch {
	case mode == 0:
		n = rapid.IntRange(4096, 70000).Draw(t, "len")
	case mode <= 3:
		n = rapid.IntRange(0, 4096).Draw(t, "len")
	default:
		n = rapid.IntRange(0, 40).Draw(t, "len")
	}
	var key []byte
	if n > 512 {
		// long keys: a repeated generated block plus planted braces
		blk := rapid.SliceOfN(rapid.Byte(), 1, 64).Draw(t, "blk")
		key = bytes.Repeat(blk, n/len(blk)+1)[:n]
	} else {
		key = rapid.SliceOfN(rapid.Byte(), n, n).Draw(t, "key")
	}
	plants := rapid.IntRange(0, 4).Draw(t, "plants")
	for i := 0; i < plants && len(key) > 0; i++ {
		pos := rapid.IntRange(0, len(key)-1).Draw(t, "pos")
		key[pos] = rapid.SampledFrom([]byte{'{', '}', '{', '}', 0, '\r', '\n'}).Draw(t, "ch")
	}
	return key
}

// TestSlotRandom compares random keys (0..70 KB, planted braces and control bytes)
// and checks the corollary: keys sharing a non-empty tag are routed to the same slot.
func TestSlotRandom(t *testing.T) {
	rapid.Check(t, func(t *rapid.T) {
		key := genKey(t)
		nt := bytes.IndexByte(key, '{') >= 0
		if sig, msg := checkKey(key); sig != "" {
			failKey(t, "random", key, sig, msg)
		}
		// corollary: same non-empty tag => same slot
		tag := rapid.SliceOfN(rapid.ByteRange(0, 255).Filter(func(b byte) bool { return b != '}' }), 1, 12).Draw(t, "tag")
		pre := rapid.SliceOfN(rapid.ByteRange(0, 255).Filter(func(b byte) bool { return b != '{' }), 0, 8).Draw(t, "pre")
		post := rapid.SliceOfN(rapid.Byte(), 0, 8).Draw(t, "post")
		k2 := append(append(append(append([]byte{}, pre...), '{'), tag...), '}')
		k2 = append(k2, post...)
		k3 := append(append([]byte{'{'}, tag...), '}')
		if a, b := sut.VerifSlot(k2), sut.VerifSlot(k3); a != b || a != ref.Slot(tag) {
			vh.Fail(t, vh.Failure{Property: prop, Part: "random", Signature: "same-tag-different-slot",
				Message: fmt.Sprintf("keys %q and %q share tag %q but route to slots %d and %d (spec %d)", k2, k3, tag, a, b, ref.Slot(tag)),
				Case:    keyCase{Key: k2}})
		}
		vh.Rec().Case("random", nt, string(key))
		vh.Rec().Case("random", true, string(k2))
		vh.Rec().Sample("random", nt, func() interface{} {
			return map[string]interface{}{"key_hex": vh.HexTrunc(key, 48), "len": len(key), "slot": ref.Slot(key)}
		})
	})
}

func init() {
	rp := func(part string) {
		vh.RegisterReplay(part, func(t *testing.T, raw json.RawMessage) {
			var c keyCase
			if err := json.Unmarshal(raw, &c); err != nil {
				t.Fatal(err)
			}
			if sig, msg := checkKey(c.Key); sig != "" {
				failKey(t, part, c.Key, sig, msg)
			}
		})
	}
	rp("crc3")
	rp("braces")
	rp("random")
}

func TestReplay(t *testing.T) { vh.RunReplay(t) }
