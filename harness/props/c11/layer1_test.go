// Package c11 decides property C11: no byte sequence from a client or a backend can
// crash or wedge the proxy.
package c11

import (
	"bytes"
	"encoding/json"
	"fmt"
	"regexp"
	"runtime"
	"runtime/debug"
	"strings"
	"testing"
	"time"

	"github.com/samaritan-proxy/samaritan/pb/config/protocol"
	"github.com/samaritan-proxy/samaritan/pb/config/service"
	sut "github.com/samaritan-proxy/samaritan/proc/redis"
	"pgregory.net/rapid"

	"verif/harness/gen"
	"verif/harness/ref"
	"verif/harness/vh"
)

const prop = "C11"

func TestMain(m *testing.M) {
	// unbounded recursion becomes a cheap, observable crash instead of a 1 GB one
	debug.SetMaxStack(64 << 20)
	vh.Main(m)
}

type verdict struct{ sig, msg string }

// guard runs f, turning a panic into a value. A call that does not come back at all (a parser looping for ever on its
// input) is reported the same way after callDeadline: the goroutine cannot be stopped, but the verdict is a violation
// ("wedge") instead of a check that times out inconclusively.
const callDeadline = 30 * time.Second

func guard(f func()) (p interface{}) {
	done := make(chan interface{}, 1)
	go func() {
		defer func() { done <- recover() }()
		f()
	}()
	select {
	case p = <-done:
		return p
	case <-time.After(callDeadline):
		return fmt.Sprintf("NEVER RETURNS: the call is still running after %v (it spins or blocks for ever on this input)", callDeadline)
	}
}

// ---- decoder on arbitrary bytes

type bytesCase struct {
	Data    []byte `json:"data,omitempty"`
	Repeat  string `json:"repeat,omitempty"` // Data = Repeat x Times + Tail (keeps deep inputs small on disk)
	Times   int    `json:"times,omitempty"`
	Tail    string `json:"tail,omitempty"`
	BufSize int    `json:"buf_size"`
	Chunks  []int  `json:"chunks,omitempty"` // the bytes arrive in reads of these sizes (then the rest at once); empty: one read
}

func (c bytesCase) bytes() []byte {
	if c.Repeat != "" {
		return append(bytes.Repeat([]byte(c.Repeat), c.Times), c.Tail...)
	}
	return c.Data
}

func allocBytes() uint64 {
	var m runtime.MemStats
	runtime.ReadMemStats(&m)
	return m.TotalAlloc
}

// declaresBig: some header of the input declares a length of 8+ digits. Such a length may be within the limit (512 MiB) and
// then legitimately makes the decoder allocate that much; the memory is handed back right after the case so that the
// 16 concurrent shards do not keep gigabytes of garbage resident.
var bigDecl = regexp.MustCompile(`[$*][0-9]{8,}`)

func checkDecode(c bytesCase) *verdict {
	data := c.bytes()
	if bigDecl.Match(data) {
		defer debug.FreeOSMemory()
	}
	before := uint64(0)
	// an over-limit or negative declared length must be rejected without allocating for it; lengths within
	// the declared limits (1048576 elements, 512 MiB) may allocate up to the limit and are not judged here
	measure := overLimitOnly(data)
	if measure {
		before = allocBytes()
	}
	var msgs int
	var derr error
	if p := guard(func() {
		dec := sut.VerifNewDecoder(&gen.ChunkReader{Data: data, Chunks: c.Chunks}, c.BufSize)
		for {
			_, err := dec.Decode()
			if err != nil {
				derr = err
				// the error is sticky
				if _, err2 := dec.Decode(); err2 == nil {
					derr = fmt.Errorf("not-sticky")
				}
				return
			}
			msgs++
			if msgs > len(data)+2 {
				derr = fmt.Errorf("more-messages-than-bytes")
				return
			}
		}
	}); p != nil {
		return &verdict{"decoder-panics", fmt.Sprintf("decoding %d bytes (%q...) panics: %v", len(data), clip(data), p)}
	}
	if derr != nil && (derr.Error() == "not-sticky" || derr.Error() == "more-messages-than-bytes") {
		return &verdict{"decoder-" + derr.Error(), fmt.Sprintf("input %q", clip(data))}
	}
	if measure {
		if grew := allocBytes() - before; grew > 8<<20 {
			return &verdict{"decoder-allocates-beyond-input", fmt.Sprintf("decoding %d bytes (%q) allocated %d MiB", len(data), clip(data), grew>>20)}
		}
	}
	return nil
}

// overLimitOnly reports inputs that start with one array/bulk header whose declared length is beyond the limits.
func overLimitOnly(data []byte) bool {
	if len(data) < 4 || len(data) > 64 || (data[0] != '*' && data[0] != '$') {
		return false
	}
	i := bytes.IndexByte(data, '\r')
	if i < 2 {
		return false
	}
	num := string(data[1:i])
	if strings.HasPrefix(num, "-") {
		return num != "-1"
	}
	limit := "1048576"
	if data[0] == '$' {
		limit = "536870912"
	}
	for _, ch := range num {
		if ch < '0' || ch > '9' {
			return false
		}
	}
	num = strings.TrimLeft(num, "0")
	return len(num) > len(limit) || (len(num) == len(limit) && num > limit)
}

func clip(b []byte) []byte {
	if len(b) > 60 {
		return b[:60]
	}
	return b
}

var hostileConstants = []string{
	"*1\r\n", "*-2\r\n", "$-2\r\n", ":\r\n", "*0\r\n", "$0\r\n\r\n", "*1048577\r\n", "*1048576\r\n", "$536870913\r\n", "$536870912\r\n",
	"*9223372036854775807\r\n", "$9223372036854775807\r\n", "*-9223372036854775808\r\n", "-MOVED 1\r\n", "-ASK\r\n", "+\r\n", "\r\n", "\n",
	"*1\r\n$1\r\n", "$5\r\nab\r\n", "*2\r\n$3\r\nget\r\n", ":12a\r\n", "$1a\r\n", "*1\n", "$3\rabc", " \r\n", "a b  c \r\n",
}

func genBytes(t *rapid.T) bytesCase {
	c := bytesCase{BufSize: rapid.SampledFrom([]int{32, 64, 4096, 8192}).Draw(t, "buf")}
	switch rapid.IntRange(0, 9).Draw(t, "cls") {
	case 0: // deep nesting
		depth := rapid.SampledFrom([]int{10, 100, 1000, 10000, 100000, 400000}).Draw(t, "depth")
		if vh.Thorough() && rapid.IntRange(0, 3).Draw(t, "deeper") == 0 {
			depth = 2000000
		}
		c.Repeat, c.Times = rapid.SampledFrom([]string{"*1\r\n", "*2\r\n:1\r\n", "*1\r\n*1\r\n"}).Draw(t, "unit"), depth
		c.Tail = rapid.SampledFrom([]string{"", ":1\r\n", "$1\r\na\r\n"}).Draw(t, "tail")
	case 1: // hostile constants, concatenated
		var b []byte
		for i, n := 0, rapid.IntRange(1, 4).Draw(t, "n"); i < n; i++ {
			b = append(b, rapid.SampledFrom(hostileConstants).Draw(t, "hc")...)
		}
		c.Data = b
	case 2: // valid message with mutations
		v := gen.Value(t, "v", 3, 200, 6)
		b := ref.Enc(v)
		for i, n := 0, rapid.IntRange(1, 4).Draw(t, "muts"); i < n && len(b) > 0; i++ {
			pos := rapid.IntRange(0, len(b)-1).Draw(t, "pos")
			switch rapid.IntRange(0, 3).Draw(t, "mut") {
			case 0:
				b[pos] = rapid.Byte().Draw(t, "byte")
			case 1:
				b = append(b[:pos:pos], b[pos+1:]...)
			case 2:
				b = append(b[:pos:pos], append([]byte(rapid.SampledFrom([]string{"-", "9", "\r", "\n", "*", "$", "99999999999"}).Draw(t, "ins")), b[pos:]...)...)
			default:
				b = b[:pos]
			}
		}
		c.Data = b
	case 3: // huge declared lengths followed by little data
		n := rapid.SampledFrom([]string{"536870912", "536870913", "1048576", "1048577", "2147483647", "2147483648", "4294967296", "9223372036854775807", "-1", "-2", "-9223372036854775808", "99999999999999999999"}).Draw(t, "len")
		c.Data = []byte(rapid.SampledFrom([]string{"$", "*"}).Draw(t, "t") + n + "\r\n" + rapid.SampledFrom([]string{"", "a", "$1\r\na\r\n"}).Draw(t, "rest"))
	case 5: // one short unit repeated very often without anything else in between: every unit must leave the decoder's
		// stack where it was (a decoder that handles a skipped or empty element by calling itself grows with the count)
		if rapid.Bool().Draw(t, "sampled") {
			c.Repeat = rapid.SampledFrom([]string{"\r\n", " \r\n", "\n", "   \r\n", "\t\r\n", "+\r\n", "-\r\n", ":1\r\n", "$-1\r\n", "*0\r\n", "*-1\r\n", "$0\r\n\r\n", "a\r\n", "\r", " "}).Draw(t, "unit")
		} else {
			c.Repeat = string(rapid.SliceOfN(rapid.SampledFrom([]byte("*$+-:01\r\n ab")), 1, 5).Draw(t, "unitbytes"))
		}
		c.Times = rapid.SampledFrom([]int{1000, 10000, 100000, 400000}).Draw(t, "times")
		if vh.Thorough() && rapid.IntRange(0, 3).Draw(t, "more") == 0 {
			c.Times = 2000000
		}
		c.Tail = rapid.SampledFrom([]string{"", ":1\r\n", "*1\r\n$4\r\nping\r\n"}).Draw(t, "tail")
	case 4: // wide and nested with declared widths larger than the data
		c.Data = []byte(strings.Repeat("*3\r\n", rapid.IntRange(1, 50).Draw(t, "d")) + ":1\r\n")
	case 6, 7: // a pipeline of valid messages (commands, replies, inline lines), at most lightly damaged, arriving in several reads:
		// whatever state an earlier message left in the reader meets a cut inside a later line
		var b []byte
		for i, n := 0, rapid.IntRange(2, 12).Draw(t, "msgs"); i < n; i++ {
			switch rapid.IntRange(0, 4).Draw(t, "mk") {
			case 0:
				b = append(b, ref.Enc(gen.Value(t, "pv", 2, 300, 5))...)
			case 1:
				b = append(b, rapid.SampledFrom([]string{"PING\r\n", "get k\r\n", "set  k   v\r\n", "+OK\r\n", ":12345\r\n", "-ERR some error text\r\n", "$-1\r\n", "*0\r\n"}).Draw(t, "line")...)
			default:
				args := []string{rapid.SampledFrom([]string{"GET", "SET", "MGET", "PING", "HSET", "DEL"}).Draw(t, "cname")}
				for k, m := 0, rapid.IntRange(0, 4).Draw(t, "cargc"); k < m; k++ {
					args = append(args, rapid.StringMatching(`[a-z0-9]{0,12}`).Draw(t, "carg"))
				}
				b = append(b, ref.Enc(ref.Cmd(args...))...)
			}
		}
		if rapid.IntRange(0, 2).Draw(t, "damage") == 0 && len(b) > 0 {
			pos := rapid.IntRange(0, len(b)-1).Draw(t, "dpos")
			b[pos] = rapid.Byte().Draw(t, "dbyte")
		}
		c.Data = b
	default:
		c.Data = rapid.SliceOfN(rapid.SampledFrom([]byte("*$+-:0123456789\r\n ab")), 0, 64).Draw(t, "junk")
	}
	if c.Repeat == "" && len(c.Data) > 1 && rapid.IntRange(0, 2).Draw(t, "chunked") != 0 {
		c.Chunks = gen.Chunks(t, "chunks", c.Data)
	}
	return c
}

func TestDecoderBytes(t *testing.T) {
	corpus := map[string]bool{}
	for _, h := range hostileConstants {
		corpus[h] = true
	}
	rapid.Check(t, func(t *rapid.T) {
		c := genBytes(t)
		vh.CurrentCase(prop, "decoder", c)
		v := checkDecode(c)
		vh.ClearCurrentCase()
		if v != nil {
			vh.Fail(t, vh.Failure{Property: prop, Part: "decoder", Signature: v.sig, Message: v.msg, Case: c})
		}
		data := c.bytes()
		_, _, perr := ref.ParseAll(data)
		nt := perr != nil && !corpus[string(data)]
		key := string(data)
		if c.Repeat != "" {
			key = fmt.Sprintf("%q x %d + %q", c.Repeat, c.Times, c.Tail)
			nt = true
		}
		vh.Rec().Case("decoder", nt, key)
		if c.Repeat != "" && c.Times >= 100000 {
			if strings.HasPrefix(c.Repeat, "*") {
				vh.Rec().Class("decoder", "nesting_depth>=100000")
			} else {
				vh.Rec().Class("decoder", "short_unit_repeated>=100000_times")
			}
		}
		vh.Rec().Sample("decoder", nt, func() interface{} {
			if c.Repeat != "" {
				return map[string]interface{}{"repeat": c.Repeat, "times": c.Times, "tail": c.Tail}
			}
			return map[string]interface{}{"data": string(clip(data)), "len": len(data)}
		})
	})
}

// ---- CLUSTER NODES text

type textCase struct {
	Text string `json:"text"`
}

func checkClusterNodes(c textCase) *verdict {
	before := allocBytes()
	if p := guard(func() { _, _ = sut.VerifParseClusterNodes(c.Text) }); p != nil {
		return &verdict{"cluster-nodes-parser-panics", fmt.Sprintf("parseClusterNodes panics on %q: %v", clipS(c.Text), p)}
	}
	// 16384 slots are the protocol's limit: a few KiB of text must not make the parser allocate tens of MiB
	if grew := allocBytes() - before; len(c.Text) < 4096 && grew > 32<<20 {
		return &verdict{"cluster-nodes-parser-unbounded-allocation", fmt.Sprintf("parsing %d bytes of CLUSTER NODES text allocated %d MiB: %q", len(c.Text), grew>>20, clipS(c.Text))}
	}
	return nil
}

func clipS(s string) string {
	if len(s) > 300 {
		return s[:300] + "..."
	}
	return s
}

func genClusterNodes(t *rapid.T) string {
	var b strings.Builder
	n := rapid.IntRange(0, 5).Draw(t, "lines")
	ids := []string{"aaaa", "bbbb", "cccc", "dddd", "eeee"}
	for i := 0; i < n; i++ {
		id := ids[i%len(ids)]
		addr := rapid.SampledFrom([]string{"127.0.0.1:7000@17000", "127.0.0.1:7001", "10.0.0.1", ":", "host:port:extra", "[::1]:7000@1", ""}).Draw(t, "addr")
		flags := rapid.SampledFrom([]string{"master", "myself,master", "slave", "myself,slave", "master,fail", "slave,fail?", "noaddr", "handshake"}).Draw(t, "flags")
		master := "-"
		if strings.Contains(flags, "slave") || rapid.IntRange(0, 6).Draw(t, "weirdmaster") == 0 {
			master = rapid.SampledFrom([]string{"aaaa", "bbbb", "zzzz-not-listed", "-", "", id}).Draw(t, "master")
		}
		fields := []string{id, addr, flags, master, "0", "1500000000000", fmt.Sprint(i), "connected"}
		for k, ns := 0, rapid.IntRange(0, 3).Draw(t, "nslots"); k < ns; k++ {
			fields = append(fields, rapid.SampledFrom([]string{"0-5460", "5461", "0-16383", "16384", "-1", "5-", "-", "1-2-3", "99999999999999999999", "0-20000000", "[12->-aaaa]", "[12-<-bbbb", "x", "16000-100"}).Draw(t, "slot"))
		}
		// drop or duplicate fields sometimes
		if rapid.IntRange(0, 5).Draw(t, "dropf") == 0 && len(fields) > 1 {
			k := rapid.IntRange(0, len(fields)-1).Draw(t, "dropi")
			fields = append(fields[:k:k], fields[k+1:]...)
		}
		b.WriteString(strings.Join(fields, rapid.SampledFrom([]string{" ", " ", "  ", "\t"}).Draw(t, "sep")))
		b.WriteString(rapid.SampledFrom([]string{"\n", "\n", "\r\n", "", "\n\n"}).Draw(t, "eol"))
	}
	return b.String()
}

func TestClusterNodesText(t *testing.T) {
	rapid.Check(t, func(t *rapid.T) {
		c := textCase{Text: genClusterNodes(t)}
		if v := checkClusterNodes(c); v != nil {
			vh.Fail(t, vh.Failure{Property: prop, Part: "clusternodes", Signature: v.sig, Message: v.msg, Case: c})
		}
		nt := strings.Contains(c.Text, "zzzz") || strings.Contains(c.Text, "[") || strings.Contains(c.Text, "9999")
		vh.Rec().Case("clusternodes", nt, c.Text)
		vh.Rec().Sample("clusternodes", nt, func() interface{} { return c })
	})
}

// ---- redirection / cluster-down error texts through the real handlers

type replyCase struct {
	Reply ref.Value `json:"reply"`
}

var (
	vuOnce *sut.VerifUpstream
)

func upstream() *sut.VerifUpstream {
	if vuOnce == nil {
		ct := 20 * time.Millisecond
		vuOnce = sut.VerifNewUpstream("c11u", &service.Config{Protocol: protocol.Redis, ConnectTimeout: &ct}, nil)
	}
	return vuOnce
}

func checkBackendReply(c replyCase) *verdict {
	var resp *sut.RespValue
	if p := guard(func() { resp = upstream().HandleResp(gen.ToSUT(c.Reply), 3*time.Second) }); p != nil {
		return &verdict{"backend-reply-handler-panics", fmt.Sprintf("handling backend reply %s panics: %v", c.Reply, p)}
	}
	upstream().Close()
	if resp == nil {
		return &verdict{"backend-reply-never-completes", fmt.Sprintf("the request answered by %s was not completed within 3s", c.Reply)}
	}
	return nil
}

func genRedirText(t *rapid.T) string {
	// "ſ" (U+017F) and the Kelvin sign (U+212A) are equal to s / k under Unicode case folding but not under ToLower
	word := rapid.SampledFrom([]string{"MOVED", "ASK", "moved", "Ask", "CLUSTERDOWN", "clusterdown", "MOVEDX", "ASKING", "ERR",
		"Aſk", "aſ\u212a", "AS\u212a", "CLUſTERDOWN", "mOvEd"}).Draw(t, "word")
	switch rapid.IntRange(0, 6).Draw(t, "shape") {
	case 0:
		return word
	case 1:
		return word + " "
	case 2:
		return word + " " + rapid.SampledFrom([]string{"1", "16383", "-1", "x", ""}).Draw(t, "slot")
	case 3:
		return word + " 1 "
	case 4:
		return word + "  1  127.0.0.1:1"
	case 5:
		return word + " 1 " + rapid.SampledFrom([]string{"127.0.0.1:1", "127.0.0.1:0", "nohost", ":", "256.1.1.1:70000", "127.0.0.1:1 extra", "[::1]:1", "\x00"}).Draw(t, "addr")
	default:
		return word + " " + rapid.StringMatching(`[a-z0-9: .]{0,20}`).Draw(t, "rest")
	}
}

func TestBackendReplies(t *testing.T) {
	rapid.Check(t, func(t *rapid.T) {
		var c replyCase
		if rapid.IntRange(0, 3).Draw(t, "kind") == 0 {
			c.Reply = gen.Value(t, "v", 2, 64, 4)
		} else {
			c.Reply = ref.ErrV(genRedirText(t))
		}
		vh.CurrentCase(prop, "backendreply", c)
		v := checkBackendReply(c)
		vh.ClearCurrentCase()
		if v != nil {
			vh.Fail(t, vh.Failure{Property: prop, Part: "backendreply", Signature: v.sig, Message: v.msg, Case: c})
		}
		nt := c.Reply.K == ref.Err && len(strings.Fields(string(c.Reply.S))) != 3
		vh.Rec().Case("backendreply", nt, vh.JSON(c))
		vh.Rec().Sample("backendreply", nt, func() interface{} { return c.Reply.String() })
	})
}

// ---- SCAN reply rewriting and request handling with arbitrary values

type scanCase struct {
	Cursor string    `json:"cursor"`
	Reply  ref.Value `json:"reply"`
}

func checkScanReply(c scanCase) *verdict {
	if p := guard(func() {
		_, _, _, _ = sut.VerifScanRewrite(gen.ToSUT(ref.Cmd("scan", c.Cursor)), gen.ToSUT(c.Reply))
	}); p != nil {
		return &verdict{"scan-reply-rewrite-panics", fmt.Sprintf("SCAN %s answered by %s panics: %v", c.Cursor, c.Reply, p)}
	}
	return nil
}

func TestScanReplies(t *testing.T) {
	rapid.Check(t, func(t *rapid.T) {
		c := scanCase{Cursor: rapid.SampledFrom([]string{"0", "5", "281474976710656", "9223372036854775807"}).Draw(t, "cur")}
		switch rapid.IntRange(0, 5).Draw(t, "shape") {
		case 0:
			c.Reply = ref.ArrV()
		case 1:
			c.Reply = ref.NullArr()
		case 2:
			c.Reply = ref.ArrV(ref.IntV(3))
		case 3:
			c.Reply = ref.ArrV(ref.NullBulk(), ref.ArrV())
		case 4:
			c.Reply = ref.ArrV(ref.ArrV(), ref.BulkS("0"))
		default:
			c.Reply = gen.Value(t, "v", 2, 32, 4)
		}
		if v := checkScanReply(c); v != nil {
			vh.Fail(t, vh.Failure{Property: prop, Part: "scanreply", Signature: v.sig, Message: v.msg, Case: c})
		}
		wellFormed := c.Reply.K == ref.Arr && len(c.Reply.A) == 2 && c.Reply.A[0].K == ref.Bulk && !c.Reply.A[0].Null
		vh.Rec().Case("scanreply", !wellFormed, vh.JSON(c))
		vh.Rec().Sample("scanreply", !wellFormed, func() interface{} { return map[string]string{"cursor": c.Cursor, "reply": c.Reply.String()} })
	})
}

type reqCase struct {
	Value ref.Value `json:"value"`
}

var vpOnce *sut.VerifProc

func checkRequestValue(c reqCase) *verdict {
	if vpOnce == nil {
		ct := 20 * time.Millisecond
		p, err := sut.VerifNewProc("c11p", &service.Config{Protocol: protocol.Redis, ConnectTimeout: &ct,
			Listener: &service.Listener{Address: addr0()}}, nil)
		if err != nil {
			return &verdict{"proc-construct", err.Error()}
		}
		vpOnce = p
	}
	var resp *sut.RespValue
	if p := guard(func() { resp = vpOnce.HandleRequest(gen.ToSUT(c.Value), 3*time.Second) }); p != nil {
		return &verdict{"request-handler-panics", fmt.Sprintf("handleRequest(%s) panics: %v", c.Value, p)}
	}
	if resp == nil {
		return &verdict{"request-never-answered", fmt.Sprintf("handleRequest(%s) did not answer within 3s", c.Value)}
	}
	return nil
}

func TestRequestValues(t *testing.T) {
	names := append(append([]string{}, ref.Forwarded...), ref.Local...)
	rapid.Check(t, func(t *rapid.T) {
		var c reqCase
		switch rapid.IntRange(0, 5).Draw(t, "kind") {
		case 0:
			c.Value = gen.Value(t, "v", 3, 64, 5)
		case 1, 2:
			// numeric sweep: one argument position of a command carries an integer text at or near a limit; the commands whose
			// arguments the proxy interprets itself (script key counts, cursors, database numbers, multi-key lists) are drawn half of the time
			name := rapid.SampledFrom(names).Draw(t, "nname")
			if rapid.Bool().Draw(t, "interpreted") {
				name = rapid.SampledFrom([]string{"eval", "evalsha", "scan", "select", "hotkey", "mget", "mset", "del", "exists", "touch", "unlink", "info", "sscan", "hscan", "zscan"}).Draw(t, "iname")
			}
			argc := rapid.IntRange(1, 6).Draw(t, "nargc")
			pos := rapid.IntRange(0, argc-1).Draw(t, "npos")
			args := []ref.Value{ref.BulkS(name)}
			for i := 0; i < argc; i++ {
				if i == pos || rapid.IntRange(0, 5).Draw(t, "also") == 0 {
					args = append(args, ref.BulkS(gen.HostileInt(t, "hint")))
				} else {
					args = append(args, ref.BulkS(rapid.StringMatching(`[a-z{}]{1,6}`).Draw(t, "narg")))
				}
			}
			c.Value = ref.ArrV(args...)
		default:
			// a supported name with hostile argument shapes
			args := []ref.Value{ref.BulkS(rapid.SampledFrom(names).Draw(t, "name"))}
			for i, n := 0, rapid.IntRange(0, 5).Draw(t, "argc"); i < n; i++ {
				switch rapid.IntRange(0, 5).Draw(t, "argkind") {
				case 0:
					args = append(args, ref.NullBulk())
				case 1:
					args = append(args, ref.BulkS(""))
				case 2:
					args = append(args, ref.BulkS(rapid.SampledFrom([]string{"-1", "0", "18446744073709551615", "9223372036854775808", "x"}).Draw(t, "num")))
				default:
					args = append(args, ref.BulkS(rapid.StringMatching(`[a-z{}]{0,6}`).Draw(t, "arg")))
				}
			}
			c.Value = ref.ArrV(args...)
		}
		vh.CurrentCase(prop, "requestvalue", c)
		v := checkRequestValue(c)
		vh.ClearCurrentCase()
		if v != nil {
			vh.Fail(t, vh.Failure{Property: prop, Part: "requestvalue", Signature: v.sig, Message: v.msg, Case: c})
		}
		vh.Rec().Case("requestvalue", true, vh.JSON(c))
		vh.Rec().Sample("requestvalue", true, func() interface{} { return c.Value.String() })
	})
}

func init() {
	reg := func(part string, f func(raw json.RawMessage) *verdict) {
		vh.RegisterReplay(part, func(t *testing.T, raw json.RawMessage) {
			if v := f(raw); v != nil {
				vh.Fail(t, vh.Failure{Property: prop, Part: part, Signature: v.sig, Message: v.msg, Case: json.RawMessage(raw)})
			}
		})
	}
	reg("decoder", func(raw json.RawMessage) *verdict {
		var c bytesCase
		json.Unmarshal(raw, &c)
		return checkDecode(c)
	})
	reg("clusternodes", func(raw json.RawMessage) *verdict {
		var c textCase
		json.Unmarshal(raw, &c)
		return checkClusterNodes(c)
	})
	reg("backendreply", func(raw json.RawMessage) *verdict {
		var c replyCase
		json.Unmarshal(raw, &c)
		return checkBackendReply(c)
	})
	reg("scanreply", func(raw json.RawMessage) *verdict {
		var c scanCase
		json.Unmarshal(raw, &c)
		return checkScanReply(c)
	})
	reg("requestvalue", func(raw json.RawMessage) *verdict {
		var c reqCase
		json.Unmarshal(raw, &c)
		return checkRequestValue(c)
	})
}

func TestReplay(t *testing.T) { vh.RunReplay(t) }
