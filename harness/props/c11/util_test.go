package c11

import "github.com/samaritan-proxy/samaritan/pb/common"

func addr0() *common.Address { return &common.Address{Ip: "127.0.0.1", Port: 0} }
