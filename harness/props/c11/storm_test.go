package c11

import (
	"encoding/json"
	"fmt"
	"runtime"
	"strings"
	"testing"
	"time"

	"pgregory.net/rapid"

	"verif/harness/ref"
	"verif/harness/sim"
	"verif/harness/vh"
)

// part storm: a backend that, for a while, answers EVERY request - the proxy's own ASKING, READONLY and CLUSTER NODES
// included - with a well-formed redirection (to itself, to the other node, or the two nodes to each other). Each such
// reply is legal syntax; as a byte stream it is what a broken or hostile node produces. Afterwards the node behaves again.

type stormCase struct {
	Kind     string `json:"kind"`       // ask-self, moved-self, ask-other, moved-pingpong, ask-pingpong
	Ms       int    `json:"ms"`         // how long the node misbehaves
	Clients  int    `json:"clients"`    // connections sending requests for the node's keys during that time
	Pipeline int    `json:"pipeline"`   // requests written back to back per connection
	Drop     bool   `json:"drop_after"` // the node closes its connections when it starts behaving again
}

func checkStorm(c stormCase) *verdict {
	w, err := sim.NewWorld(2, 0)
	if err != nil {
		return nil
	}
	defer w.Close()
	w.AssignEven(w.Masters())
	px, err := sim.StartProxy(sim.ProxyOpts{Seeds: w.AllAddrs(), ConnectTimeout: 100 * time.Millisecond})
	if err != nil {
		return &verdict{"proxy-start", err.Error()}
	}
	stopped := false
	defer func() {
		if !stopped {
			px.Stop(20 * time.Second)
		}
	}()
	px.WaitTableLoaded(1, 10*time.Second)
	key0, key1 := w.KeyFor(0, "h0:"), w.KeyFor(1, "h1:")
	slot0 := ref.Slot([]byte(key0))
	a0, a1 := w.Nodes[0].Addr, w.Nodes[1].Addr
	var m0 runtime.MemStats
	runtime.ReadMemStats(&m0)
	w.Lock()
	w.Hostile = func(n *sim.Node, args [][]byte) []byte {
		switch c.Kind {
		case "ask-self":
			if n.Idx == 0 {
				return []byte(fmt.Sprintf("-ASK %d %s\r\n", slot0, a0))
			}
		case "moved-self":
			if n.Idx == 0 {
				return []byte(fmt.Sprintf("-MOVED %d %s\r\n", slot0, a0))
			}
		case "ask-other":
			if n.Idx == 0 {
				return []byte(fmt.Sprintf("-ASK %d %s\r\n", slot0, a1))
			}
		case "moved-pingpong", "ask-pingpong":
			// only for the key of node 0: node 1 keeps serving its own keys
			word := "MOVED"
			if c.Kind == "ask-pingpong" {
				word = "ASK"
			}
			if n.Idx == 0 {
				return []byte(fmt.Sprintf("-%s %d %s\r\n", word, slot0, a1))
			}
			if len(args) >= 2 && string(args[1]) == key0 || strings.EqualFold(string(args[0]), "asking") {
				return []byte(fmt.Sprintf("-%s %d %s\r\n", word, slot0, a0))
			}
		}
		return nil
	}
	w.Unlock()
	var cls []*sim.Client
	for i := 0; i < c.Clients; i++ {
		cl, err := sim.Dial(px.Addr)
		if err != nil {
			return &verdict{"proxy-not-accepting", err.Error()}
		}
		defer cl.Close()
		cls = append(cls, cl)
		var b []byte
		for k := 0; k < c.Pipeline; k++ {
			b = ref.Encode(b, ref.Cmd("GET", key0))
		}
		cl.C.SetWriteDeadline(time.Now().Add(5 * time.Second))
		cl.Send(b, nil)
	}
	time.Sleep(time.Duration(c.Ms) * time.Millisecond)
	w.Lock()
	w.Hostile = nil
	w.Unlock()
	if c.Drop {
		w.Nodes[0].DropConns(false)
	}
	where := fmt.Sprintf("after node 0 answered every request with a redirection (%s) for %d ms", c.Kind, c.Ms)
	// a fresh connection is served and the other backend is usable
	cl, err := sim.Dial(px.Addr)
	if err != nil {
		return &verdict{"proxy-not-accepting", fmt.Sprintf("%s: %v", where, err)}
	}
	defer cl.Close()
	r, err := cl.Do(10*time.Second, "PING")
	if err != nil || !ref.Equal(r, ref.SimpleV("PONG")) {
		return &verdict{"proxy-wedged", fmt.Sprintf("%s: a fresh connection's PING was answered %s (%v)", where, r, err)}
	}
	deadline := time.Now().Add(10 * time.Second)
	for {
		r, err = cl.Do(10*time.Second, "SET", key1, "ok")
		if err == nil && !r.IsErr() {
			break
		}
		if err != nil || time.Now().After(deadline) {
			return &verdict{"healthy-backend-unusable", fmt.Sprintf("%s: SET on the other backend answered %s (%v) for 10s", where, r, err)}
		}
		time.Sleep(20 * time.Millisecond)
	}
	var m1 runtime.MemStats
	runtime.ReadMemStats(&m1)
	if grew := int64(m1.HeapAlloc) - int64(m0.HeapAlloc); grew > 512<<20 {
		return &verdict{"memory-unbounded", fmt.Sprintf("%s: the heap grew by %d MiB", where, grew>>20)}
	}
	// the proxy is not wedged: it can still be stopped
	stopped = true
	if !px.Stop(20 * time.Second) {
		return &verdict{"proxy-wedged", fmt.Sprintf("%s: Stop does not return within 20s\n%s", where, vh.Stacks())}
	}
	return nil
}

func TestRedirectionStorm(t *testing.T) {
	rapid.Check(t, func(t *rapid.T) {
		c := stormCase{
			Kind:     rapid.SampledFrom([]string{"ask-self", "moved-self", "ask-other", "moved-pingpong", "ask-pingpong"}).Draw(t, "kind"),
			Ms:       rapid.SampledFrom([]int{20, 100, 400}).Draw(t, "ms"),
			Clients:  rapid.IntRange(1, 4).Draw(t, "clients"),
			Pipeline: rapid.SampledFrom([]int{1, 3, 20, 200}).Draw(t, "pipeline"),
			Drop:     rapid.Bool().Draw(t, "drop"),
		}
		vh.CurrentCase(prop, "storm", c)
		v := checkStorm(c)
		vh.ClearCurrentCase()
		if v != nil {
			vh.Fail(t, vh.Failure{Property: prop, Part: "storm", Signature: v.sig, Message: v.msg, Case: c})
		}
		vh.Rec().Case("storm", true, vh.JSON(c))
		vh.Rec().Class("storm", c.Kind)
		vh.Rec().Sample("storm", true, func() interface{} { return c })
	})
}

func init() {
	vh.RegisterReplay("storm", func(t *testing.T, raw json.RawMessage) {
		var c stormCase
		json.Unmarshal(raw, &c)
		if v := checkStorm(c); v != nil {
			vh.Fail(t, vh.Failure{Property: prop, Part: "storm", Signature: v.sig, Message: v.msg, Case: c})
		}
	})
}
