package c11

import (
	"bytes"
	"encoding/json"
	"fmt"
	redispb "github.com/samaritan-proxy/samaritan/pb/config/protocol/redis"
	"runtime/debug"
	"strings"
	"testing"
	"time"

	"pgregory.net/rapid"

	"verif/harness/ref"
	"verif/harness/sim"
	"verif/harness/vh"
)

// hostile step: either a backend (node 0) answers the next command of a class with raw bytes, or a client sends raw bytes.
type hstep struct {
	Who     string `json:"who"`   // backend, client
	Class   string `json:"class"` // backend: cluster, readonly, scan, keyed
	Raw     []byte `json:"raw,omitempty"`
	Repeat  string `json:"repeat,omitempty"`
	Times   int    `json:"times,omitempty"`
	Tail    string `json:"tail,omitempty"`
	CloseIt bool   `json:"close,omitempty"` // backend closes the connection after the bytes
}

func (s hstep) bytes() []byte {
	if s.Repeat != "" {
		return append(bytes.Repeat([]byte(s.Repeat), s.Times), s.Tail...)
	}
	return s.Raw
}

type hostCase struct {
	// 0: no compression option; 1: option present but disabled; 2: enabled. With an option present the reply path of the
	// compression filter (header test, decompression) runs on the backend reader for most commands.
	Compression int     `json:"compression,omitempty"`
	Steps       []hstep `json:"steps"`
}

func checkHostile(c hostCase) *verdict {
	// a hostile reply may declare a bulk of up to 512 MiB, which the proxy may allocate: hand it back after the case
	defer debug.FreeOSMemory()
	w, err := sim.NewWorld(2, 0)
	if err != nil {
		return nil
	}
	defer w.Close()
	w.AssignEven(w.Masters())
	opts := sim.ProxyOpts{Seeds: w.AllAddrs(), ConnectTimeout: 100 * time.Millisecond}
	if c.Compression > 0 {
		opts.Compression = &redispb.Compression{Enable: c.Compression == 2, Algorithm: redispb.Compression_SNAPPY, Threshold: 16}
	}
	px, err := sim.StartProxy(opts)
	if err != nil {
		return &verdict{"proxy-start", err.Error()}
	}
	defer px.Stop(20 * time.Second)
	px.WaitTableLoaded(1, 10*time.Second)
	key0, key1 := w.KeyFor(0, "h0:"), w.KeyFor(1, "h1:")
	var armed *hstep
	w.Lock()
	w.Hostile = func(n *sim.Node, args [][]byte) []byte {
		if n.Idx != 0 || armed == nil {
			return nil
		}
		cmd := strings.ToLower(string(args[0]))
		class := "keyed"
		switch cmd {
		case "cluster":
			class = "cluster"
		case "readonly", "asking":
			class = "readonly"
		case "scan":
			class = "scan"
		}
		if class != armed.Class {
			return nil
		}
		s := armed
		armed = nil
		if s.CloseIt {
			n.KillAfterLocked(1, 1<<30, false) // write everything, then close
		}
		return s.bytes()
	}
	w.Unlock()
	healthy := func(where string) *verdict {
		// a fresh connection is served, and an untouched backend still works
		cl, err := sim.Dial(px.Addr)
		if err != nil {
			return &verdict{"proxy-not-accepting", fmt.Sprintf("%s: %v", where, err)}
		}
		defer cl.Close()
		r, err := cl.Do(10*time.Second, "PING")
		if err != nil || !ref.Equal(r, ref.SimpleV("PONG")) {
			return &verdict{"proxy-wedged", fmt.Sprintf("%s: a fresh connection's PING was answered %s (%v)", where, r, err)}
		}
		// generated CLUSTER NODES text can be well-formed and simply untrue (slots owned by 127.0.0.1:7000): the proxy rightly
		// follows it until the next refresh (50 ms here) reads the genuine text again. That is a lying backend, not a malformed
		// reply, so the untouched backend must become usable again within the deadline rather than at the first attempt.
		deadline := time.Now().Add(10 * time.Second)
		for {
			r, err = cl.Do(10*time.Second, "SET", key1, "ok")
			if err == nil && !r.IsErr() {
				return nil
			}
			if err != nil || time.Now().After(deadline) {
				return &verdict{"healthy-backend-unusable", fmt.Sprintf("%s: SET on the untouched backend answered %s (%v) for 10s", where, r, err)}
			}
			time.Sleep(20 * time.Millisecond)
		}
	}
	for i, s := range c.Steps {
		where := fmt.Sprintf("after step %d (%s/%s, %d bytes)", i, s.Who, s.Class, len(s.bytes()))
		switch s.Who {
		case "client":
			cl, err := sim.Dial(px.Addr)
			if err != nil {
				return &verdict{"proxy-not-accepting", fmt.Sprintf("%s: %v", where, err)}
			}
			cl.C.SetWriteDeadline(time.Now().Add(5 * time.Second))
			cl.Send(s.bytes(), nil)
			// the offending connection gets replies or is closed; it must not hold up others
			cl.Quiet(5 * time.Millisecond)
			if v := healthy(where); v != nil {
				cl.Close()
				return v
			}
			cl.Close()
		case "backend":
			w.Lock()
			st := s
			armed = &st
			w.Unlock()
			cl, err := sim.Dial(px.Addr)
			if err != nil {
				return &verdict{"proxy-not-accepting", fmt.Sprintf("%s: %v", where, err)}
			}
			switch s.Class {
			case "scan":
				cl.Send(ref.Enc(ref.Cmd("SCAN", "0")), nil)
				cl.Send(ref.Enc(ref.Cmd("SCAN", "281474976710656")), nil)
			case "keyed":
				cl.Send(ref.Enc(ref.Cmd("GET", key0)), nil)
			case "readonly":
				// a new backend connection sends READONLY first
				w.Nodes[0].DropConns(false)
				time.Sleep(2 * time.Millisecond)
				cl.Send(ref.Enc(ref.Cmd("GET", key0)), nil)
			case "cluster":
				// the next refresh that asks node 0 gets the hostile reply (periodic, every 50 ms)
				time.Sleep(120 * time.Millisecond)
			}
			// the request behind a hostile reply may be answered, answered with an error, or its connection closed
			cl.Quiet(20 * time.Millisecond)
			cl.Close()
			if v := healthy(where); v != nil {
				return v
			}
			w.Lock()
			armed = nil
			w.Unlock()
		}
	}
	return nil
}

func genHostileBytes(t *rapid.T, forBackend bool) hstep {
	var s hstep
	switch rapid.IntRange(0, 10).Draw(t, "hcls") {
	case 10:
		// a value that looks like (part of) a compressed one
		s.Raw = ref.Enc(ref.BulkV(genHeaderish(t)))
	case 0:
		depth := rapid.SampledFrom([]int{200, 5000, 100000, 300000}).Draw(t, "depth")
		if vh.Thorough() && rapid.IntRange(0, 3).Draw(t, "deeper") == 0 {
			depth = 2000000
		}
		s.Repeat, s.Times, s.Tail = "*1\r\n", depth, ":1\r\n"
	case 1:
		s.Raw = []byte(rapid.SampledFrom(hostileConstants).Draw(t, "hc"))
	case 2:
		s.Raw = []byte("-" + genRedirText(t) + "\r\n")
	case 3:
		s.Raw = []byte(rapid.SampledFrom([]string{"*0\r\n", "*-1\r\n", "*1\r\n:1\r\n", "*2\r\n$-1\r\n*0\r\n", "*2\r\n*0\r\n$1\r\n0\r\n", ":5\r\n", "+OK\r\n", "$-1\r\n", "*3\r\n$1\r\n0\r\n*0\r\n*0\r\n"}).Draw(t, "shape"))
	case 4:
		// CLUSTER NODES shaped garbage
		s.Raw = ref.Enc(ref.BulkS(genClusterNodes(t)))
	case 5:
		v := ref.Enc(ref.BulkS("truncated value"))
		s.Raw = v[:rapid.IntRange(1, len(v)-1).Draw(t, "cut")]
	default:
		b := genBytes(t)
		if b.Repeat != "" {
			s.Repeat, s.Times, s.Tail = b.Repeat, b.Times, b.Tail
		} else {
			s.Raw = b.Data
		}
	}
	if forBackend {
		s.CloseIt = rapid.IntRange(0, 2).Draw(t, "close") != 0
		if _, rest, err := ref.ParseAll(s.bytes()); err != nil || len(rest) > 0 || len(s.bytes()) == 0 {
			s.CloseIt = true // never leave the proxy waiting for the rest of an incomplete reply: that is a slow backend, not a hostile byte sequence
		}
	}
	return s
}

func TestHostileSockets(t *testing.T) {
	rapid.Check(t, func(t *rapid.T) {
		var c hostCase
		c.Compression = rapid.SampledFrom([]int{0, 0, 1, 2}).Draw(t, "compression")
		for i, n := 0, rapid.IntRange(1, 5).Draw(t, "steps"); i < n; i++ {
			if rapid.IntRange(0, 2).Draw(t, "who") == 0 {
				s := genHostileBytes(t, false)
				s.Who = "client"
				c.Steps = append(c.Steps, s)
			} else {
				s := genHostileBytes(t, true)
				s.Who, s.Class = "backend", rapid.SampledFrom([]string{"cluster", "readonly", "scan", "keyed", "keyed"}).Draw(t, "class")
				c.Steps = append(c.Steps, s)
			}
		}
		vh.CurrentCase(prop, "sockets", c)
		v := checkHostile(c)
		vh.ClearCurrentCase()
		if v != nil {
			vh.Fail(t, vh.Failure{Property: prop, Part: "sockets", Signature: v.sig, Message: v.msg, Case: c})
		}
		vh.Rec().Case("sockets", true, vh.JSON(c))
		for _, s := range c.Steps {
			vh.Rec().Class("sockets", "hostile_"+s.Who+"_"+s.Class)
		}
		vh.Rec().Sample("sockets", true, func() interface{} {
			var steps []string
			for _, s := range c.Steps {
				steps = append(steps, fmt.Sprintf("%s/%s %q (%d bytes, close=%v)", s.Who, s.Class, clip(s.bytes()), len(s.bytes()), s.CloseIt))
			}
			return steps
		})
	})
}

func init() {
	vh.RegisterReplay("sockets", func(t *testing.T, raw json.RawMessage) {
		var c hostCase
		json.Unmarshal(raw, &c)
		if v := checkHostile(c); v != nil {
			vh.Fail(t, vh.Failure{Property: prop, Part: "sockets", Signature: v.sig, Message: v.msg, Case: c})
		}
	})
}

// ---- mostly valid CLUSTER NODES replies with one hostile token, through the real refresh loop

type cnCase struct {
	Edits []cnEdit `json:"edits"`
}

type cnEdit struct {
	Line  int    `json:"line"`
	Field int    `json:"field"` // index of the field to replace (>= 8: a slot token; 8 + k appends when beyond)
	Value string `json:"value"`
}

func checkClusterNodesSocket(c cnCase) *verdict {
	w, err := sim.NewWorld(2, 1)
	if err != nil {
		return nil
	}
	defer w.Close()
	w.AssignEven(w.Masters())
	// the genuine rendering, taken from the node itself
	direct, err := sim.Dial(w.Nodes[0].Addr)
	if err != nil {
		return nil
	}
	r, err := direct.Do(5*time.Second, "CLUSTER", "NODES")
	direct.Close()
	if err != nil || r.K != ref.Bulk {
		return nil
	}
	lines := strings.Split(strings.TrimRight(string(r.S), "\n"), "\n")
	for _, e := range c.Edits {
		if len(lines) == 0 {
			break
		}
		li := e.Line % len(lines)
		f := strings.Fields(lines[li])
		if e.Field < len(f) {
			f[e.Field] = e.Value
		} else {
			f = append(f, e.Value)
		}
		lines[li] = strings.Join(f, " ")
	}
	text := strings.Join(lines, "\n") + "\n"
	px, err := sim.StartProxy(sim.ProxyOpts{Seeds: w.AllAddrs(), ConnectTimeout: 100 * time.Millisecond})
	if err != nil {
		return &verdict{"proxy-start", err.Error()}
	}
	defer px.Stop(20 * time.Second)
	px.WaitTableLoaded(1, 10*time.Second)
	key1 := w.KeyFor(1, "h1:")
	w.Lock()
	w.Hostile = func(n *sim.Node, args [][]byte) []byte {
		if strings.EqualFold(string(args[0]), "cluster") {
			return ref.Enc(ref.BulkS(text)) // every node serves the edited text
		}
		return nil
	}
	w.Unlock()
	time.Sleep(180 * time.Millisecond) // three periodic refreshes (50 ms)
	w.Lock()
	w.Hostile = nil
	w.Unlock()
	cl, err := sim.Dial(px.Addr)
	if err != nil {
		return &verdict{"proxy-not-accepting", err.Error()}
	}
	defer cl.Close()
	if r, err := cl.Do(10*time.Second, "PING"); err != nil || !ref.Equal(r, ref.SimpleV("PONG")) {
		return &verdict{"proxy-wedged", fmt.Sprintf("after CLUSTER NODES text %q a fresh connection's PING was answered %s (%v)", clipS(text), r, err)}
	}
	// the genuine table is served again: within a few refreshes requests work
	deadline := time.Now().Add(10 * time.Second)
	for {
		r, err := cl.Do(10*time.Second, "SET", key1, "ok")
		if err == nil && !r.IsErr() {
			return nil
		}
		if time.Now().After(deadline) {
			return &verdict{"healthy-backend-unusable", fmt.Sprintf("10s after the hostile CLUSTER NODES text %q was withdrawn SET still answers %s (%v)", clipS(text), r, err)}
		}
		time.Sleep(20 * time.Millisecond)
	}
}

func TestHostileClusterNodes(t *testing.T) {
	rapid.Check(t, func(t *rapid.T) {
		var c cnCase
		for i, n := 0, rapid.IntRange(1, 3).Draw(t, "edits"); i < n; i++ {
			e := cnEdit{Line: rapid.IntRange(0, 3).Draw(t, "line")}
			switch rapid.IntRange(0, 3).Draw(t, "what") {
			case 0, 1: // a slot token
				e.Field = rapid.IntRange(8, 10).Draw(t, "slotfield")
				e.Value = rapid.SampledFrom([]string{"16383", "16384", "16385", "0-16384", "16384-16384", "-1", "0--1", "99999", "4294967296", "9223372036854775807",
					"16000-100", "1-", "-", "[16384->-aaaa]", "5-5", "00", "0x10"}).Draw(t, "slot")
			case 2: // the master field
				e.Field = 3
				e.Value = rapid.SampledFrom([]string{"-", "0000000000000000000000000000000000000009", "zzz", ""}).Draw(t, "master")
			default: // the address
				e.Field = 1
				e.Value = rapid.SampledFrom([]string{"127.0.0.1:1@2", ":0", "nohost", "127.0.0.1", "127.0.0.1:99999999", "[::1]:1@1"}).Draw(t, "addr")
			}
			if e.Value == "" {
				e.Value = "-"
			}
			c.Edits = append(c.Edits, e)
		}
		vh.CurrentCase(prop, "clusternodes-socket", c)
		v := checkClusterNodesSocket(c)
		vh.ClearCurrentCase()
		if v != nil {
			vh.Fail(t, vh.Failure{Property: prop, Part: "clusternodes-socket", Signature: v.sig, Message: v.msg, Case: c})
		}
		vh.Rec().Case("clusternodes-socket", true, vh.JSON(c))
		vh.Rec().Sample("clusternodes-socket", true, func() interface{} { return c })
	})
}

func init() {
	vh.RegisterReplay("clusternodes-socket", func(t *testing.T, raw json.RawMessage) {
		var c cnCase
		json.Unmarshal(raw, &c)
		if v := checkClusterNodesSocket(c); v != nil {
			vh.Fail(t, vh.Failure{Property: prop, Part: "clusternodes-socket", Signature: v.sig, Message: v.msg, Case: c})
		}
	})
}
