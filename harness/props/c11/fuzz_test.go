package c11

import (
	"testing"

	"verif/harness/vh"
)

// FuzzDecoder: native coverage-guided fuzzing of the real decoder with the layer-1 oracle inside the target.
func FuzzDecoder(f *testing.F) {
	for _, h := range hostileConstants {
		f.Add([]byte(h), uint8(0))
	}
	f.Add([]byte("*1\r\n*1\r\n*1\r\n*1\r\n*1\r\n:1\r\n"), uint8(1))
	f.Add([]byte{}, uint8(2))
	f.Fuzz(func(t *testing.T, data []byte, bufSel uint8) {
		c := bytesCase{Data: data, BufSize: []int{32, 64, 4096, 8192}[int(bufSel)%4]}
		if v := checkDecode(c); v != nil {
			vh.WriteFailure(vh.Failure{Property: prop, Part: "decoder", Signature: v.sig, Message: v.msg, Case: c})
			t.Fatalf("%s: %s", v.sig, v.msg)
		}
	})
}

// FuzzClusterNodes: native fuzzing of parseClusterNodes.
func FuzzClusterNodes(f *testing.F) {
	f.Add("aaaa 127.0.0.1:7000@17000 myself,master - 0 1 1 connected 0-5460\nbbbb 127.0.0.1:7001@17001 slave aaaa 0 1 1 connected\n")
	f.Add("aaaa 127.0.0.1:7000 master - 0 1 1 connected 16384 [1->-bbbb]\n")
	f.Add("")
	f.Fuzz(func(t *testing.T, text string) {
		c := textCase{Text: text}
		if v := checkClusterNodes(c); v != nil {
			vh.WriteFailure(vh.Failure{Property: prop, Part: "clusternodes", Signature: v.sig, Message: v.msg, Case: c})
			t.Fatalf("%s: %s", v.sig, v.msg)
		}
	})
}
