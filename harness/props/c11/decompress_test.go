package c11

import (
	"encoding/json"
	"fmt"
	"testing"

	"github.com/golang/snappy"
	redispb "github.com/samaritan-proxy/samaritan/pb/config/protocol/redis"
	sut "github.com/samaritan-proxy/samaritan/proc/redis"
	"pgregory.net/rapid"

	"verif/harness/gen"
	"verif/harness/ref"
	"verif/harness/sim"
	"verif/harness/vh"
)

// Backend replies whose bulk strings look like (parts of) a compressed value: the reply path of the compression filter runs
// on the backend reader goroutine for every command but a few, whenever a compression option is configured (even disabled).

type dcCase struct {
	Enabled bool      `json:"enabled"`
	Cmd     []string  `json:"cmd"`
	Reply   ref.Value `json:"reply"`
}

func genHeaderish(t *rapid.T) []byte {
	hdr := sut.VerifCpsHeader()
	switch rapid.IntRange(0, 7).Draw(t, "hk") {
	case 0: // a strict prefix of the header
		return append([]byte{}, hdr[:rapid.IntRange(1, len(hdr)-1).Draw(t, "plen")]...)
	case 1: // header only
		return append([]byte{}, hdr...)
	case 2: // header with another algorithm byte / broken CR LF, with or without a tail
		b := append([]byte{}, hdr...)
		b[rapid.IntRange(3, len(hdr)-1).Draw(t, "pos")] = rapid.Byte().Draw(t, "b")
		return append(b, rapid.SliceOfN(rapid.Byte(), 0, 12).Draw(t, "tail")...)
	case 3: // header + garbage that is no snappy stream
		return append(append([]byte{}, hdr...), rapid.SliceOfN(rapid.Byte(), 1, 40).Draw(t, "garbage")...)
	case 4: // header + a truncated valid stream
		raw := rapid.SliceOfN(rapid.Byte(), 1, 200).Draw(t, "raw")
		enc := snappy.Encode(nil, raw)
		return append(append([]byte{}, hdr...), enc[:rapid.IntRange(0, len(enc)-1).Draw(t, "cut")]...)
	case 5: // header + a stream declaring a huge decoded length
		return append(append([]byte{}, hdr...), 0xff, 0xff, 0xff, 0xff, 0x0f, 0x00)
	case 6: // the magic without the rest, then text
		return append(append([]byte{}, hdr[:3]...), rapid.SliceOfN(rapid.Byte(), 0, 6).Draw(t, "after")...)
	}
	return rapid.SliceOfN(rapid.Byte(), 0, 12).Draw(t, "plain")
}

func genDcReply(t *rapid.T, depth int) ref.Value {
	switch k := rapid.IntRange(0, 9).Draw(t, "rk"); {
	case k <= 4:
		return ref.BulkV(genHeaderish(t))
	case k == 5:
		return ref.SimpleV(string(genHeaderish(t)))
	case k == 6:
		return ref.ErrV("ERR " + string(genHeaderish(t)))
	case k == 7 || depth >= 3:
		return gen.Value(t, "v", 1, 16, 3)
	}
	n := rapid.IntRange(0, 4).Draw(t, "alen")
	vs := make([]ref.Value, n)
	for i := range vs {
		vs[i] = genDcReply(t, depth+1)
	}
	return ref.ArrV(vs...)
}

func checkDecompressReply(c dcCase) *verdict {
	cfg := sim.RedisConfig(sim.ProxyOpts{Compression: &redispb.Compression{Enable: c.Enabled, Algorithm: redispb.Compression_SNAPPY, Threshold: 16}})
	if p := guard(func() {
		stopped, _, finish := sut.VerifFilterRequest(cfg, gen.ToSUT(ref.Cmd(c.Cmd...)), 1)
		if stopped || finish == nil {
			return
		}
		finish(gen.ToSUT(c.Reply))
	}); p != nil {
		return &verdict{"reply-filter-panics", fmt.Sprintf("%v answered by %s (compression enabled: %v) panics on the reply path: %v", c.Cmd, c.Reply, c.Enabled, p)}
	}
	return nil
}

func TestDecompressReplies(t *testing.T) {
	rapid.Check(t, func(t *rapid.T) {
		c := dcCase{Enabled: rapid.Bool().Draw(t, "enabled"),
			Cmd:   rapid.SampledFrom([][]string{{"get", "k"}, {"mget", "a", "b"}, {"hgetall", "h"}, {"hget", "h", "f"}, {"getset", "k", "v"}, {"lrange", "l", "0", "-1"}, {"hmget", "h", "a", "b"}, {"set", "k", "v"}}).Draw(t, "cmd"),
			Reply: genDcReply(t, 0)}
		vh.CurrentCase(prop, "decompress", c)
		v := checkDecompressReply(c)
		vh.ClearCurrentCase()
		if v != nil {
			vh.Fail(t, vh.Failure{Property: prop, Part: "decompress", Signature: v.sig, Message: v.msg, Case: c})
		}
		vh.Rec().Case("decompress", true, vh.JSON(c))
		vh.Rec().Sample("decompress", true, func() interface{} {
			return map[string]interface{}{"cmd": c.Cmd, "enabled": c.Enabled, "reply": c.Reply.String()}
		})
	})
}

func init() {
	vh.RegisterReplay("decompress", func(t *testing.T, raw json.RawMessage) {
		var c dcCase
		json.Unmarshal(raw, &c)
		if v := checkDecompressReply(c); v != nil {
			vh.Fail(t, vh.Failure{Property: prop, Part: "decompress", Signature: v.sig, Message: v.msg, Case: c})
		}
	})
}
