// Package disc is the end-to-end part shared by C16 and C08: the real dynamic
// source (config.New with a DynamicSourceConfig -> grpc.Dial -> the three real
// discovery clients and their glue in config/dynamic.go and config/discovery.go),
// the real store and the real controller, against an in-process gRPC discovery
// server (harness/discsim) that can kill streams and go away and come back.
package disc

import (
	"encoding/json"
	"fmt"
	"os"
	"sort"
	"strings"
	"sync"
	"sync/atomic"
	"testing"
	"time"

	"github.com/samaritan-proxy/samaritan/config"
	"github.com/samaritan-proxy/samaritan/controller"
	"github.com/samaritan-proxy/samaritan/host"
	"github.com/samaritan-proxy/samaritan/pb/common"
	"github.com/samaritan-proxy/samaritan/pb/config/bootstrap"
	"github.com/samaritan-proxy/samaritan/pb/config/protocol"
	"github.com/samaritan-proxy/samaritan/pb/config/service"
	"github.com/samaritan-proxy/samaritan/proc"
	"google.golang.org/grpc/codes"
	"pgregory.net/rapid"

	"verif/harness/discsim"
	"verif/harness/vh"
)

func prop() string {
	if p := os.Getenv("VERIF_PROP"); p != "" {
		return p
	}
	return "C16"
}

func TestMain(m *testing.M) {
	proc.RegisterBuilder(protocol.MySQL, builder{})
	vh.Main(m)
}

type verdict struct{ sig, msg string }

// ---- recording processor registered through the public registry

type recProc struct {
	name     string
	cfg      *service.Config
	hosts    map[string]host.Type
	started  bool
	stopped  bool
	lateCall string
}

type recorder struct {
	mu    sync.Mutex
	procs []*recProc
}

var cur atomic.Value // *recorder

type builder struct{}

func (builder) Build(p proc.BuildParams) (proc.Proc, error) {
	r := cur.Load().(*recorder)
	r.mu.Lock()
	defer r.mu.Unlock()
	rp := &recProc{name: p.Name, cfg: p.Cfg, hosts: map[string]host.Type{}}
	for _, h := range p.Hosts {
		rp.hosts[h.Addr] = h.Type
	}
	r.procs = append(r.procs, rp)
	return &procHandle{r: r, p: rp}, nil
}

type procHandle struct {
	r *recorder
	p *recProc
}

func (h *procHandle) with(call string, f func()) error {
	h.r.mu.Lock()
	defer h.r.mu.Unlock()
	if h.p.stopped && h.p.lateCall == "" {
		h.p.lateCall = call
	}
	f()
	return nil
}
func (h *procHandle) Name() string            { return h.p.name }
func (h *procHandle) Address() string         { return "" }
func (h *procHandle) Config() *service.Config { return h.p.cfg }
func (h *procHandle) OnSvcHostAdd(hs []*host.Host) error {
	return h.with("OnSvcHostAdd", func() {
		for _, x := range hs {
			h.p.hosts[x.Addr] = x.Type
		}
	})
}
func (h *procHandle) OnSvcHostRemove(hs []*host.Host) error {
	return h.with("OnSvcHostRemove", func() {
		for _, x := range hs {
			delete(h.p.hosts, x.Addr)
		}
	})
}
func (h *procHandle) OnSvcAllHostReplace(hs []*host.Host) error {
	return h.with("OnSvcAllHostReplace", func() {
		h.p.hosts = map[string]host.Type{}
		for _, x := range hs {
			h.p.hosts[x.Addr] = x.Type
		}
	})
}
func (h *procHandle) OnSvcConfigUpdate(c *service.Config) error {
	return h.with("OnSvcConfigUpdate", func() { h.p.cfg = c })
}
func (h *procHandle) Start() error      { return h.with("Start", func() { h.p.started = true }) }
func (h *procHandle) StopListen() error { return nil }
func (h *procHandle) Stop() error {
	h.r.mu.Lock()
	h.p.stopped = true
	h.r.mu.Unlock()
	return nil
}

// ---- case

type epRef struct {
	Addr   int  `json:"addr"`
	Backup bool `json:"backup,omitempty"`
}

type gop struct {
	Op    string  `json:"op"` // dep, cfg, eps, kill, stop, start, sleep, settle
	Add   []int   `json:"add,omitempty"`
	Rem   []int   `json:"rem,omitempty"`
	Svc   int     `json:"svc,omitempty"`
	Cfg   int     `json:"cfg,omitempty"`
	EpAdd []epRef `json:"ep_add,omitempty"`
	EpRem []epRef `json:"ep_rem,omitempty"`
	Scope string  `json:"scope,omitempty"`
	Ms    int     `json:"ms,omitempty"`
}

type grpcCase struct {
	// ResyncAll selects how the server answers a subscription (see discsim.Server.ResyncAll). Without it the type of an
	// endpoint is a function of its address, because a type change made while the client's stream is down cannot reach a
	// store that compares endpoints by address.
	ResyncAll bool `json:"resync_all,omitempty"`
	// Static: the bootstrap also holds one static service (a name discovery never mentions): it must keep running with its
	// own configuration and hosts whatever happens to the discovered services
	Static bool  `json:"static,omitempty"`
	// KillCode: the gRPC status a killed stream ends with on the client side (0: Unavailable; 1: Canceled - a server or a
	// proxy in between reset the stream; 13: Internal; 4: DeadlineExceeded; -1: clean end of stream, io.EOF)
	KillCode int   `json:"kill_code,omitempty"`
	Ops      []gop `json:"ops"`
}

const staticName = "static-svc"

const nNames = 24 // dependency names; only the first nCore get configurations and endpoints
const nCore = 5

func svcName(i int) string { return fmt.Sprintf("svc%02d", i%nNames) }

func mkCfg(variant int) *service.Config {
	if variant == 0 {
		return &service.Config{Protocol: protocol.MySQL} // invalid: no listener
	}
	idle := time.Duration(variant) * time.Minute
	return &service.Config{
		Listener:    &service.Listener{Address: &common.Address{Ip: "127.0.0.1", Port: uint32(20000 + variant)}},
		Protocol:    protocol.MySQL,
		IdleTimeout: &idle,
		LbPolicy:    service.LoadBalancePolicy(variant % 3),
	}
}

func cfgID(c *service.Config) string {
	if c == nil {
		return "nil"
	}
	if c.Listener == nil {
		return "invalid"
	}
	return fmt.Sprintf("idle=%v/lb=%v/port=%d", c.GetIdleTimeout(), c.LbPolicy, c.Listener.Address.Port)
}

func mkEp(e epRef) *service.Endpoint {
	t := service.Endpoint_MAIN
	if e.Backup {
		t = service.Endpoint_BACKUP
	}
	return &service.Endpoint{Address: &common.Address{Ip: "10.1.1.1", Port: uint32(7000 + e.Addr)}, Type: t}
}

type info struct {
	faults, burst, changesAfterFault int
}

const (
	subDeadline  = 45 * time.Second // streams re-established and subscriptions equal to the dependency set (client back-off ~1 s, gRPC reconnect back-off up to several seconds)
	convDeadline = 15 * time.Second // store and processors equal to the server's truth once everything was delivered
)

// subscriptionState compares, per scope, the fold of the requests of the live stream with the dependency set.
func subscriptionState(srv *discsim.Server) string {
	deps := srv.Deps()
	for _, scope := range []string{discsim.Config, discsim.Endpoint} {
		live := srv.Live(scope)
		if len(live) == 0 {
			return scope + ": no live stream"
		}
		v := live[len(live)-1]
		for n := range deps {
			if !v.Subs[n] && !v.Ambig[n] {
				return fmt.Sprintf("%s stream #%d: dependency %s is not subscribed (requests %s)", scope, v.ID, n, vh.JSON(v.Log))
			}
		}
		for n := range v.Subs {
			if !deps[n] && !v.Ambig[n] {
				return fmt.Sprintf("%s stream #%d: %s is subscribed but is not a dependency (requests %s)", scope, v.ID, n, vh.JSON(v.Log))
			}
		}
	}
	if len(srv.Live(discsim.Dep)) == 0 {
		return "dependency: no live stream"
	}
	return ""
}

type storeView struct {
	Services map[string]struct {
		Name   string `json:"name"`
		Config *struct {
			IdleTimeout json.RawMessage `json:"idle_timeout"`
		} `json:"config"`
		Endpoints []struct {
			Address struct {
				IP   string `json:"ip"`
				Port int    `json:"port"`
			} `json:"address"`
			Type json.RawMessage `json:"type"`
		} `json:"endpoints"`
	} `json:"services"`
}

// converged compares the store and the processors with the server's truth; "" when equal.
func converged(srv *discsim.Server, store *config.Config, ctl *controller.Controller, rec *recorder, everEps map[string]bool) (sig, msg string) {
	deps := srv.Deps()
	raw, err := store.MarshalJSON()
	if err != nil {
		return "store-marshal", err.Error()
	}
	var view storeView
	if err := json.Unmarshal(raw, &view); err != nil {
		return "store-marshal", err.Error()
	}
	var have, want []string
	for n := range view.Services {
		if n == staticName {
			continue
		}
		have = append(have, n)
	}
	for n := range deps {
		want = append(want, n)
	}
	sort.Strings(have)
	sort.Strings(want)
	if strings.Join(have, ",") != strings.Join(want, ",") {
		return "store-services-mismatch", fmt.Sprintf("store holds %v, the dependency set is %v", have, want)
	}
	rec.mu.Lock()
	defer rec.mu.Unlock()
	running := map[string]*recProc{}
	for _, p := range rec.procs {
		if p.lateCall != "" {
			return "call-after-stop", fmt.Sprintf("processor %s received %s after Stop", p.name, p.lateCall)
		}
		if p.started && !p.stopped {
			if running[p.name] != nil {
				return "two-processors", fmt.Sprintf("two running processors for service %s", p.name)
			}
			running[p.name] = p
		}
	}
	ctlNames := map[string]bool{}
	for _, p := range ctl.GetAllProcs() {
		ctlNames[p.Name()] = true
	}
	for n := range deps {
		cfg, eps := srv.Truth(n)
		var got, exp []string
		for _, e := range view.Services[n].Endpoints {
			got = append(got, fmt.Sprintf("%s:%d", e.Address.IP, e.Address.Port))
		}
		wantHosts := map[string]host.Type{}
		for _, e := range eps {
			a := fmt.Sprintf("%s:%d", e.Address.Ip, e.Address.Port)
			exp = append(exp, a)
			t := host.TypeMain
			if e.Type == service.Endpoint_BACKUP {
				t = host.TypeBackup
			}
			wantHosts[a] = t
		}
		sort.Strings(got)
		sort.Strings(exp)
		if strings.Join(got, ",") != strings.Join(exp, ",") {
			return "store-endpoints-mismatch", fmt.Sprintf("service %s: store endpoints %v, discovery server's list %v", n, got, exp)
		}
		valid := cfg != nil && cfg.Listener != nil
		p := running[n]
		delete(running, n)
		listed := ctlNames[n]
		delete(ctlNames, n)
		if len(eps) == 0 && everEps[n] {
			continue // the list was emptied again: with or without a processor (see C08's assumptions)
		}
		expect := valid && len(eps) > 0
		if expect && p == nil {
			return "processor-missing", fmt.Sprintf("service %s has a valid configuration (%s) and endpoints %v but no running processor", n, cfgID(cfg), exp)
		}
		if !expect && p != nil {
			return "processor-unexpected", fmt.Sprintf("service %s runs a processor with configuration %s and endpoint list %v", n, cfgID(cfg), exp)
		}
		if p == nil {
			continue
		}
		if !listed {
			return "controller-view-mismatch", fmt.Sprintf("processor %s runs but is not listed by the controller", n)
		}
		if cfgID(p.cfg) != cfgID(cfg) {
			return "processor-config-stale", fmt.Sprintf("service %s: processor configuration %s, latest %s", n, cfgID(p.cfg), cfgID(cfg))
		}
		if len(wantHosts) != len(p.hosts) {
			return "processor-hosts-mismatch", fmt.Sprintf("service %s: processor hosts %v, latest endpoint set %v", n, p.hosts, wantHosts)
		}
		for a, t := range wantHosts {
			if gt, ok := p.hosts[a]; !ok || gt != t {
				return "processor-hosts-mismatch", fmt.Sprintf("service %s: processor hosts %v, latest endpoint set %v", n, p.hosts, wantHosts)
			}
		}
	}
	if p := running[staticName]; p != nil {
		// the static service: untouched
		if _, ok := view.Services[staticName]; !ok {
			return "static-service-lost", "the static service is no longer in the store"
		}
		if cfgID(p.cfg) != cfgID(mkCfg(6)) || len(p.hosts) != 2 {
			return "static-service-disturbed", fmt.Sprintf("the static service runs with configuration %s and hosts %v", cfgID(p.cfg), p.hosts)
		}
		delete(running, staticName)
		delete(ctlNames, staticName)
	} else if _, ok := view.Services[staticName]; ok {
		return "static-service-lost", "the static service has no running processor"
	}
	for n := range running {
		return "processor-unexpected", fmt.Sprintf("processor %s runs for a service that is not a dependency", n)
	}
	for n := range ctlNames {
		return "controller-view-mismatch", fmt.Sprintf("controller lists %s which should not run", n)
	}
	return "", ""
}

func checkGrpc(c grpcCase) (inf info, v *verdict) {
	rec := &recorder{}
	cur.Store(rec)
	srv, err := discsim.New()
	if err != nil {
		return inf, nil
	}
	defer srv.Close()
	srv.ResyncAll = c.ResyncAll
	switch {
	case c.KillCode < 0:
		srv.SetKillCode(codes.OK)
	case c.KillCode > 0:
		srv.SetKillCode(codes.Code(c.KillCode))
	}
	if err := srv.Start(); err != nil {
		return inf, nil
	}
	mkEp := func(e epRef) *service.Endpoint {
		if !c.ResyncAll {
			e.Backup = e.Addr%4 == 3
		}
		return mkEp(e)
	}
	b := &bootstrap.Bootstrap{
		Admin:               &bootstrap.Admin{Bind: &common.Address{Ip: "127.0.0.1", Port: 1}},
		Instance:            &common.Instance{Id: "verif-instance", Belong: "verif"},
		DynamicSourceConfig: &bootstrap.ConfigSource{Endpoint: srv.Addr},
	}
	if c.Static {
		b.StaticServices = []*bootstrap.StaticService{{Name: staticName, Config: mkCfg(6),
			Endpoints: []*service.Endpoint{mkEp(epRef{Addr: 40}), mkEp(epRef{Addr: 43})}}}
	}
	store, err := config.New(b)
	if err != nil {
		return inf, &verdict{"store-construct", err.Error()}
	}
	defer func() {
		done := make(chan struct{})
		go func() { store.VerifStopDynamic(); close(done) }()
		select {
		case <-done:
		case <-time.After(20 * time.Second):
			if v == nil {
				v = &verdict{"dynamic-source-stop-hangs", "DynamicSource.Stop did not return within 20s\n" + vh.Stacks()}
			}
		}
	}()
	ctl, _ := controller.New(store.Subscribe())
	ctl.Start()
	defer ctl.Stop()

	everEps := map[string]bool{}
	cfgValidSeen := map[string]bool{}
	faulted := false
	settle := func(where string) *verdict {
		if !srv.Up() {
			return nil
		}
		deadline := time.Now().Add(subDeadline)
		var last string
		for {
			last = subscriptionState(srv)
			if last == "" && srv.Idle() {
				break
			}
			if time.Now().After(deadline) {
				sig := "subscriptions-diverge"
				if strings.Contains(last, "no live stream") {
					sig = "stream-not-reestablished"
				}
				if last == "" {
					sig, last = "server-push-not-taken", "a live stream does not take the server's messages"
				}
				return &verdict{sig, fmt.Sprintf("%s: %v after the last change: %s\n%s", where, subDeadline, last, vh.Stacks())}
			}
			time.Sleep(5 * time.Millisecond)
		}
		deadline = time.Now().Add(convDeadline)
		for {
			sig, msg := converged(srv, store, ctl, rec, everEps)
			if sig == "" {
				return nil
			}
			if time.Now().After(deadline) {
				return &verdict{sig, fmt.Sprintf("%s: %v after everything was delivered: %s", where, convDeadline, msg)}
			}
			time.Sleep(5 * time.Millisecond)
		}
	}

	for i, o := range c.Ops {
		where := fmt.Sprintf("step %d (%s)", i, vh.JSON(o))
		switch o.Op {
		case "dep":
			var add, rem []string
			for _, s := range o.Add {
				add = append(add, svcName(s))
			}
			for _, s := range o.Rem {
				rem = append(rem, svcName(s))
			}
			if len(add)+len(rem) > 16 {
				inf.burst++
			}
			srv.SetDeps(add, rem)
			if faulted {
				inf.changesAfterFault++
			}
		case "cfg":
			n := svcName(o.Svc % nCore)
			if o.Cfg == 0 && cfgValidSeen[n] {
				continue // invalid configurations only before the first valid one
			}
			if o.Cfg != 0 {
				cfgValidSeen[n] = true
			}
			srv.SetConfig(n, mkCfg(o.Cfg))
		case "eps":
			n := svcName(o.Svc % nCore)
			var add, rem []*service.Endpoint
			for _, e := range o.EpAdd {
				add = append(add, mkEp(e))
			}
			for _, e := range o.EpRem {
				rem = append(rem, mkEp(e))
			}
			srv.UpdateEndpoints(n, add, rem)
			if _, eps := srv.Truth(n); len(eps) > 0 {
				everEps[n] = true
			}
		case "kill":
			if srv.Kill(o.Scope) > 0 {
				inf.faults++
				faulted = true
			}
		case "stop":
			if srv.Up() {
				srv.Stop()
				inf.faults++
				faulted = true
			}
		case "start":
			if err := srv.Start(); err != nil {
				return inf, nil
			}
		case "sleep":
			time.Sleep(time.Duration(o.Ms) * time.Millisecond)
		case "settle":
			if v := settle(where); v != nil {
				return inf, v
			}
		}
	}
	if err := srv.Start(); err != nil {
		return inf, nil
	}
	if v := settle("end of history"); v != nil {
		return inf, v
	}
	// stays equal after a quiet period
	time.Sleep(150 * time.Millisecond)
	if s := subscriptionState(srv); s != "" {
		return inf, &verdict{"subscriptions-diverge", "after a quiet period: " + s}
	}
	if sig, msg := converged(srv, store, ctl, rec, everEps); sig != "" {
		return inf, &verdict{sig, "after a quiet period: " + msg}
	}
	return inf, nil
}

func genEps(t *rapid.T, label string, max int) []epRef {
	n := rapid.IntRange(0, max).Draw(t, label+".n")
	var r []epRef
	for i := 0; i < n; i++ {
		r = append(r, epRef{Addr: rapid.IntRange(0, 5).Draw(t, label+".addr"), Backup: rapid.IntRange(0, 3).Draw(t, label+".backup") == 0})
	}
	return r
}

func genCase(t *rapid.T) grpcCase {
	var c grpcCase
	c.ResyncAll = rapid.Bool().Draw(t, "resync_all")
	c.KillCode = rapid.SampledFrom([]int{0, 0, 1, 1, 13, 4, -1}).Draw(t, "kill_code")
	c.Static = rapid.Bool().Draw(t, "static")
	// usually start with a few complete services so that later steps hit running processors
	for i, n := 0, rapid.IntRange(0, 3).Draw(t, "init"); i < n; i++ {
		c.Ops = append(c.Ops, gop{Op: "dep", Add: []int{i}}, gop{Op: "cfg", Svc: i, Cfg: 1 + i}, gop{Op: "eps", Svc: i, EpAdd: []epRef{{Addr: 0}, {Addr: 1, Backup: true}}})
	}
	if rapid.Bool().Draw(t, "settle0") {
		c.Ops = append(c.Ops, gop{Op: "settle"})
	}
	n := rapid.IntRange(2, 16).Draw(t, "n")
	down := false
	for i := 0; i < n; i++ {
		switch x := rapid.IntRange(0, 23).Draw(t, "op"); {
		case x <= 4:
			o := gop{Op: "dep"}
			switch rapid.IntRange(0, 4).Draw(t, "shape") {
			case 0:
				o.Rem = rapid.SliceOfN(rapid.IntRange(0, nCore-1), 1, 2).Draw(t, "rem")
			case 1:
				// remove and re-add right behind it
				s := rapid.IntRange(0, nCore-1).Draw(t, "bounce")
				c.Ops = append(c.Ops, gop{Op: "dep", Rem: []int{s}})
				o.Add = []int{s}
			case 2:
				// a burst: more changes than the client's 16-entry queues
				k := rapid.IntRange(10, nNames).Draw(t, "burst")
				for j := 0; j < k; j++ {
					o.Add = append(o.Add, nCore+j%(nNames-nCore))
				}
				if rapid.Bool().Draw(t, "burstrem") {
					c.Ops = append(c.Ops, o)
					o = gop{Op: "dep", Rem: o.Add}
				}
			default:
				o.Add = rapid.SliceOfN(rapid.IntRange(0, nCore+2), 1, 3).Draw(t, "add")
			}
			c.Ops = append(c.Ops, o)
		case x <= 8:
			cfg := rapid.IntRange(1, 6).Draw(t, "cfg")
			if rapid.IntRange(0, 6).Draw(t, "invalid") == 0 {
				cfg = 0
			}
			c.Ops = append(c.Ops, gop{Op: "cfg", Svc: rapid.IntRange(0, nCore-1).Draw(t, "svc"), Cfg: cfg})
		case x <= 14:
			o := gop{Op: "eps", Svc: rapid.IntRange(0, nCore-1).Draw(t, "svc")}
			switch rapid.IntRange(0, 5).Draw(t, "shape") {
			case 0:
				o.EpRem = genEps(t, "rem", 3)
			case 1, 2:
				o.EpAdd = genEps(t, "add", 4)
				o.EpRem = genEps(t, "rem", 3)
			default:
				o.EpAdd = genEps(t, "add", 4)
			}
			c.Ops = append(c.Ops, o)
		case x <= 17:
			c.Ops = append(c.Ops, gop{Op: "kill", Scope: rapid.SampledFrom([]string{discsim.Dep, discsim.Config, discsim.Endpoint}).Draw(t, "scope")})
		case x == 18:
			if down {
				c.Ops = append(c.Ops, gop{Op: "start"})
			} else {
				c.Ops = append(c.Ops, gop{Op: "stop"})
			}
			down = !down
		case x <= 20:
			c.Ops = append(c.Ops, gop{Op: "sleep", Ms: rapid.SampledFrom([]int{1, 5, 30, 200, 1300}).Draw(t, "ms")})
		default:
			c.Ops = append(c.Ops, gop{Op: "settle"})
		}
	}
	return c
}

func TestGrpcE2E(t *testing.T) {
	rapid.Check(t, func(t *rapid.T) {
		c := genCase(t)
		vh.CurrentCase(prop(), "grpc", c)
		inf, v := checkGrpc(c)
		vh.ClearCurrentCase()
		if v != nil {
			vh.Fail(t, vh.Failure{Property: prop(), Part: "grpc", Signature: v.sig, Message: v.msg, Case: c})
		}
		nt := inf.faults > 0 || inf.burst > 0
		vh.Rec().Case("grpc", nt, vh.JSON(c))
		if inf.faults > 0 {
			vh.Rec().Class("grpc", "stream_or_server_failure")
		}
		if inf.changesAfterFault > 0 {
			vh.Rec().Class("grpc", "dependency_change_after_a_failure")
		}
		if inf.burst > 0 {
			vh.Rec().Class("grpc", "burst_of_more_than_16_dependency_changes")
		}
		vh.Rec().Sample("grpc", nt, func() interface{} { return c })
	})
}

func init() {
	vh.RegisterReplay("grpc", func(t *testing.T, raw json.RawMessage) {
		var c grpcCase
		if err := json.Unmarshal(raw, &c); err != nil {
			t.Fatal(err)
		}
		for i := 0; i < 3; i++ {
			if _, v := checkGrpc(c); v != nil {
				vh.Fail(t, vh.Failure{Property: prop(), Part: "grpc", Signature: v.sig, Message: v.msg, Case: c})
			}
		}
	})
}

func TestReplay(t *testing.T) { vh.RunReplay(t) }
