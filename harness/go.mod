module verif/harness

go 1.23

require (
	github.com/golang/snappy v0.0.1
	github.com/kavu/go_reuseport v1.4.0
	github.com/samaritan-proxy/samaritan v0.0.0
	google.golang.org/grpc v1.23.1
	pgregory.net/rapid v1.3.0
)

require (
	github.com/envoyproxy/protoc-gen-validate v0.1.0 // indirect
	github.com/ghodss/yaml v1.0.0 // indirect
	github.com/gogo/protobuf v1.3.0 // indirect
	github.com/golang/mock v1.3.1 // indirect
	github.com/golang/protobuf v1.3.2 // indirect
	github.com/kirk91/stats v0.0.5-0.20191121064423-8a4d70fadb55 // indirect
	github.com/pkg/errors v0.8.1 // indirect
	github.com/samaritan-proxy/circonusllhist v0.1.4-0.20191028071046-9512360317cd // indirect
	github.com/tevino/log v0.0.0-20191011110715-a95875091fd9 // indirect
	github.com/tevino/tcp-shaker v0.0.0-20190306083616-9f5b7a96d888 // indirect
	go.uber.org/atomic v1.4.0 // indirect
	golang.org/x/net v0.0.0-20190311183353-d8887717615a // indirect
	golang.org/x/sys v0.0.0-20190907184412-d223b2b6db03 // indirect
	golang.org/x/text v0.3.0 // indirect
	google.golang.org/genproto v0.0.0-20180817151627-c66870c02cf8 // indirect
	gopkg.in/yaml.v2 v2.2.2 // indirect
)

replace github.com/samaritan-proxy/samaritan => /repo
