"""Per-property configuration of the ./check driver: which test binaries and
parts to run per tier, case counts, sharding, and the evidence texts."""

CHECKS = {}

CHECKS["C12"] = dict(
    technique='exhaustive enumeration of finite sub-spaces (all keys of length <= 3, all brace placements of length <= 9) + property-based testing (rapid) against an independent bit-serial CRC16 / HASH_SLOT reference',
    pkg="c12", level="exploration", exhaustive_claim=True,
    rule=("part crc3: exhaustive enumeration of all byte strings of length 0..3 (2^24+2^16+2^8+1 keys; the first two bytes "
          "drive the CRC register through all 2^16 states, the third covers every next byte in every state); part braces: "
          "exhaustive enumeration of all strings of length <= 9 over {'{','}','a','b'}; part random: rapid-generated keys of "
          "0..70000 bytes with planted braces/control bytes plus a generated pair of keys sharing a non-empty tag. Oracle: "
          "bit-serial CRC16/XMODEM + port of the specification's HASH_SLOT pseudo code, compared with the slot obtained "
          "through the real chooseHost on a routing table mapping slot i to address i. A case is non-trivial when the key "
          "contains '{'; distinct by key bytes (enumerations: distinct by construction). part tagrouting (end to end, simulated cluster of "
          "2..4 masters, real proxy): 1..4 generated hash tags with 8 keys each (different text before the tag), some present, some absent; "
          "the slots of some tags are half migrated (0..8 of the tag's keys already on the importing node); 1..40 sequential GET / SET / EXISTS / "
          "APPEND on these keys. Slot ownership never changes during a case. Oracle per command (node logs): the first node the command "
          "reaches is the owner of the tag's slot (independent CRC16 + tag rule), no node it reaches answers MOVED (ASK from a migrating owner "
          "is legitimate), the reply equals a single server's; MOVED counter unchanged over the case; the commands include EVAL in four spellings (routed by KEYS[1]). Non-trivial: a slot is half migrated."),
    assumptions=["the reference CRC is pinned by the standard check value 0x31C3 for '123456789' (slot 12739)",
                 "end-to-end routing of the same key families is checked by C03's routing oracle"],
    parts=[
        dict(name="selfcheck", test="TestSelfCheck", kind="plain"),
        dict(name="crc3", test="TestCRC3Exhaustive", kind="plain", shards=16, timeout=600),
        dict(name="braces", test="TestBracesExhaustive", kind="plain", shards=1, timeout=600),
        dict(name="random", test="TestSlotRandom", kind="rapid", checks={"quick": 15000, "thorough": 1500000},
             shards={"quick": 4, "thorough": 16}, timeout={"quick": 600, "thorough": 3000}),
        dict(name="tagrouting", test="TestTagRouting", kind="rapid", checks={"quick": 300, "thorough": 3000}, shards=16, timeout={"quick": 900, "thorough": 3400}, shrinktime="30s", gomaxprocs=4),
    ],
)

ENGINES = [
    dict(name="whitebox", path="harness/props", serves_properties=["C10", "C12", "C13", "C15", "C17", "C18", "C19"],
         kind_free_text="rapid property tests and exhaustive enumerations over verif-tagged re-exports of pure functions and small state machines"),
    dict(name="sim", path="harness/sim", serves_properties=["C01", "C02", "C03", "C04", "C07", "C09", "C11", "C12", "C13", "C14", "C18", "C19", "C20"],
         kind_free_text="in-process simulated Redis Cluster (real RESP over loopback TCP, MOVED/ASK/ASKING/CLUSTER NODES, reply gating, fault injection) with a reference keyspace executor; the proxy under test is the real one created through proc.New"),
]

NOTES = ("All checks are property-based tests / fuzzing (pgregory.net/rapid v1.3.0, exhaustive enumeration of finite sub-spaces, "
         "native go fuzzing in the thorough tier). ./check <ID> rebuilds the test binary from /repo's working tree with -tags verif. "
         "Exit 2 = inconclusive (build failure, time-out), never reported as a violation.")

NOT_CLAIMED = {}

CHECKS["C10"] = dict(
    technique='property-based testing (rapid) against an independent reference codec (round trip, differential, prefix) + exhaustive enumeration of small integer strings + native coverage-guided fuzzing (go test -fuzz, thorough tier)',
    pkg="c10", level="exploration",
    rule=("rapid-generated sequences of 1..30 recursive RESP values (simple/error strings of any bytes but LF, int64 biased to the "
          "encoder-table edges and the 64-bit limits, bulk strings null/empty/up to 70000 bytes around 511/512/8191/8192, arrays "
          "null/empty/nested <= 6), a generated partition of the encoded stream into reads (whole, byte-wise, after every CR, random "
          "cuts snapped into CRLF pairs) delivered by a net.Conn-like reader, decoder buffer in {32,33,64,100,512,4096,8192}. Oracles: "
          "independent reference encoder/parser (ref/resp.go): decodeAll(chunks(refEnc(vs))) == vs then clean EOF; values stay intact "
          "after later decodes; sutEnc == refEnc per value and per stream; sutEnc(decode(b)) == b; every strict prefix of a message "
          "yields a sticky error; inline line == its array form; btoi64/itoa vs strconv (exhaustive over short strings and "
          "[-70000,70000]). part longstream: 100..1500 small messages through ONE decoder and ONE encoder, dominated by 1..3 shapes "
          "drawn from a palette of early-return shapes (null array, null bulk, empty array/bulk, arrays holding nulls, nesting 3, a "
          "plain command) - state leaking from one message into later ones; same oracles. Non-trivial: the stream is split into >= 2 reads, or a line is longer than the buffer, or a bulk is >= 510 "
          "bytes, or nesting >= 2 (prefix/ints parts: every case); distinct by the canonical JSON of the case."),
    assumptions=["readers never return data together with EOF nor 0 bytes without error (net.Conn behaviour)",
                 "btoi64 is allowed to reject non-canonical integers that strconv accepts ('+5', '007'); it must accept canonical ones and never accept text strconv rejects"],
    parts=[
        dict(name="roundtrip", test="TestRoundTrip", kind="rapid", checks={"quick": 20000, "thorough": 400000}, shards=16, timeout={"quick": 600, "thorough": 3000}),
        dict(name="longstream", test="TestLongStream", kind="rapid", checks={"quick": 150, "thorough": 6000}, shards=16, timeout={"quick": 600, "thorough": 3000}),
        dict(name="prefix", test="TestPrefix", kind="rapid", checks={"quick": 30000, "thorough": 600000}, shards=4, timeout={"quick": 600, "thorough": 3000}),
        dict(name="inline", test="TestInline", kind="rapid", checks={"quick": 20000, "thorough": 400000}, shards=4, timeout={"quick": 600, "thorough": 3000}),
        dict(name="ints", test="TestIntsExhaustive", kind="plain"),
        dict(name="ints-random", test="TestIntsRandom", kind="rapid", checks={"quick": 20000, "thorough": 2000000}, shards=2, timeout={"quick": 600, "thorough": 3000}),
        dict(name="fuzz", test="FuzzDecode", kind="fuzz", fuzz_part="fuzz", tiers=["thorough"], fuzztime="180s", timeout=400, exclusive=True),
    ],
)

CHECKS["C19"] = dict(
    technique='stateful property-based testing (rapid) against a model map + exhaustive small-scope enumeration of counter histories + end-to-end HOTKEY report checks',
    pkg="c19", level="exploration",
    rule=("part counter: rapid-generated histories (1..120 steps) of Incr(key from a skewed pool of 1..2*capacity+3 names)/Latch/Free on a "
          "real hotkey.Counter of capacity 1..255, checked after every step against a model map (admitted at 1, +1 per access, reset on "
          "Latch/Free): len <= capacity, exact counts for tracked keys, exactly one minimal-count key evicted on admission when full, "
          "frequency list strictly increasing / no empty node / back-pointers and map<->list agreement (VerifDump walk), Latch returns "
          "exactly the tracked map. part counter-exhaustive: EVERY history of 8 (thorough 10) steps over {Incr k0..k3, Latch, Free} for the capacities "
          "1, 2 and 3 (6^8 = 1.7 million histories per capacity; all shorter ones are prefixes), same oracle. part collector: histories of accesses on 1..4 per-backend counters, collect, clock advance, evict, "
          "counter free on a real Collector; after every step HotKeys() has <= capacity entries, unique names, non-increasing heat, only "
          "accessed names. part concurrent: goroutines Incr/Latch one counter; latched sum <= accesses and == accesses when capacity >= "
          "distinct keys. part e2e: a real proxy (collect interval hooked to 15 ms) in front of 1..3 simulated masters, 1..4 rounds of 1..300 "
          "GETs over 1..120 distinct keys, HOTKEY after each round: parseable, <= 50 lines, unique names that were accessed, non-increasing "
          "counters. The collector part also draws capacities 127..255 (the largest the type allows) and floods of up to 2 x capacity + 10 distinct keys on one backend's counter. Non-trivial: an eviction happened or a frequency node was created/removed inside the list (counter); >=2 "
          "collections and the report reached capacity (collector); every concurrent case. Distinct by canonical JSON of the history."),
    assumptions=["capacity 0 is excluded: no caller can create it (the collector is built with 50)",
                 "report order is checked at quiescent points only (a HOTKEY read overlapping collect() is a schedule the harness does not own)",
                 "the minute clock is constant during one collect()/evictStale() call"],
    parts=[
        dict(name="counter", test="TestCounterModel", kind="rapid", checks={"quick": 4000, "thorough": 250000}, shards=16, timeout={"quick": 600, "thorough": 3000}),
        dict(name="counter-exhaustive", test="TestCounterExhaustive", kind="plain", shards=16, timeout={"quick": 600, "thorough": 3000}),
        dict(name="collector", test="TestCollectorModel", kind="rapid", checks={"quick": 3000, "thorough": 100000}, shards=8, timeout={"quick": 600, "thorough": 3000}),
        dict(name="concurrent", test="TestCounterConcurrent", kind="rapid", checks={"quick": 60, "thorough": 3000}, shards=4, timeout={"quick": 600, "thorough": 3000}),
        dict(name="e2e", test="TestHotkeyE2E", kind="rapid", checks={"quick": 12, "thorough": 600}, shards=8, timeout={"quick": 600, "thorough": 3000}, gomaxprocs=4),
    ],
)

CHECKS["C15"] = dict(
    technique='stateful property-based testing (rapid) against a sequential model + exhaustive small-scope enumeration of operation histories + concurrent invariants',
    pkg="c15", level="exploration",
    rule=("part set: rapid-generated histories (1..40 steps over 6 addresses x {main,backup}) of Add (fresh objects, also of a member "
          "address with the other type), Remove (stored object, or a fresh object with the same or the other type as the controller "
          "passes), ReplaceAll, MarkHostHealthy/Unhealthy on the current member object or on a retired object of that address (what a "
          "health round holding an old All() snapshot does), compared after every step with a model (addr -> current object): Healthy() == "
          "healthy members of the preferred tier, sorted, duplicate-free, current objects by pointer identity; All/Len/Exist == model; "
          "Random() in the usable set or nil iff empty. part set-exhaustive: EVERY history of 5 (thorough 6) operations over two addresses out "
          "of 22 operations (add with either type, remove with the stored or a fresh object of either type, mark healthy/unhealthy on the "
          "member or on the newest retired object, four replace-all lists): 5.1 million histories, same oracle after every step. part hysteresis: a real hc.Monitor with a scripted checker driven round by round "
          "(thresholds 0..5, generated result matrix, remove+re-add of a host between rounds): a flip needs >= threshold (>=1) consecutive "
          "contrary results and must happen by threshold+1. part concurrent: 2..8 goroutines mutate disjoint address ranges while readers "
          "assert sorted / single-tier / ever-member snapshots; the quiescent view is consistent. In a third of the hysteresis cases the health-check configuration is replaced 1..3 times at run time (ResetHealthCheck: new thresholds, same or another interval); later flips follow the new thresholds. Non-trivial: history has a type change "
          "of an address, a mark on a retired object or a removal with the other type (set); a contrary run was interrupted (hysteresis); "
          "all concurrent cases. part markrace: a health mark (MarkHostHealthy on an unhealthy member / MarkHostUnhealthy) released at the same "
          "instant as Remove(fresh object) / ReplaceAll / Add(replacing object) of the same address, 40000 (thorough 200000) pairs per "
          "case: at quiescence Healthy() contains only current members and every healthy member. part afterchange: sets of 1..20000 main "
          "hosts (+0..50 backups); after every generated change (remove with a fresh object, mark, add, retype, all mains down / one up, "
          "replace-all) has RETURNED, 2..8 readers are released at the same instant and call Healthy() 1..5 times each with no change in "
          "flight: every result must be exactly the model's usable view (pointer identity, order). Distinct by canonical JSON."),
    assumptions=["added hosts are always fresh objects (every production caller creates them with host.NewWithType)",
                 "'>' vs '>=' in the threshold comparison both satisfy 'at least threshold'"],
    parts=[
        dict(name="set", test="TestSetModel", kind="rapid", checks={"quick": 6000, "thorough": 300000}, shards=16, timeout={"quick": 600, "thorough": 3000}),
        dict(name="set-exhaustive", test="TestSetExhaustive", kind="plain", shards=16, timeout={"quick": 600, "thorough": 3000}),
        dict(name="hysteresis", test="TestHysteresis", kind="rapid", checks={"quick": 3000, "thorough": 150000}, shards=8, timeout={"quick": 600, "thorough": 3000}),
        dict(name="concurrent", test="TestSetConcurrent", kind="rapid", checks={"quick": 40, "thorough": 2000}, shards=4, timeout={"quick": 600, "thorough": 3000}),
        dict(name="markrace", test="TestMarkRace", kind="rapid", checks={"quick": 6, "thorough": 40}, shards=16, timeout={"quick": 600, "thorough": 3000}, shrinktime="5s"),
        dict(name="afterchange", test="TestAfterChange", kind="rapid", checks={"quick": 300, "thorough": 6000}, shards=16, timeout={"quick": 600, "thorough": 3000}, shrinktime="10s"),
    ],
)

CHECKS["C13"] = dict(
    technique='property-based testing (rapid): round trip and stored-form relation decoded by the snappy library directly; stateful end-to-end histories against a reference keyspace',
    pkg="c13", level="exploration",
    rule=("part unit: rapid-generated write requests of the supported commands (SET [EX|NX|PX..], GETSET, SETNX, SETEX, PSETEX, HSET, "
          "HSETNX, HMSET with 1..4 pairs; any letter case) with values of five entropy classes (constant, short period, text-like, "
          "incompressible, snappy-framed without our header) and lengths threshold-2..threshold+4000, 0..256 KiB, threshold 1..70000; the "
          "real compression filter is run 1..3 times on the same request (a resend after MOVED/ASK runs the chain again); oracle: every "
          "non-value argument untouched; each value argument is stored either unchanged or as header+stream where the stream is decoded "
          "with the snappy library directly (not the filter) to the original and the stored form is shorter; values below the threshold "
          "untouched; reading the stored bytes back through a fresh GET-like and an array-reply request (compression on or switched off "
          "with the config present) returns the original. part unit-concurrent: 2..8 such cases at once (pooled writers/readers). part "
          "banned: the six commands documented as disabled are stopped with an error iff compression is enabled. part e2e: a real proxy with "
          "compression in front of 1..3 simulated masters; histories (2..30 steps + final read-back) of writes by the nine commands (MSET "
          "over several nodes, HMSET), reads (GET, MGET, GETSET's old value, HGET, HMGET, HGETALL, HVALS, and HSCAN whose reply nests the values one array level deeper; the unit relation reads every stored value back through a bulk, a flat array and an HSCAN-shaped reply), toggling enable through "
          "OnSvcConfigUpdate (config kept present), forcing a MOVED or ASK redirection of the next write (the key's slot is migrated right "
          "before it), and the banned commands; oracle: every reply equals the reference keyspace's reply on the uncompressed data; the "
          "bytes stored in the simulated node satisfy the same stored-form relation (nothing compressed while disabled); banned commands "
          "get an error and no node logs an arrival. part e2e-concurrent: 1..6 writers re-writing and 1..6 readers reading 4..40 compressible "
          "values for 50..600 rounds at once over the same backend connections (the filter compresses on the backend writer and "
          "decompresses on the backend reader goroutine): every read equals what was written and the stored forms satisfy the relation. "
          "The e2e histories also start without a compression section (it arrives with the first toggle), use replicas and read strategies, and write with SET ... GET (the reply is a read-back of the old value). Non-trivial: some value was actually stored compressed (unit), and additionally the "
          "write was redirected, or happened after a toggle, or was a multi-value command (e2e); distinct by canonical JSON."),
    assumptions=["values that themselves start with the magic number '(P$' are excluded by construction (the statement excludes them)",
                 "the snappy library (github.com/golang/snappy) is trusted as the decoder of the stored stream"],
    parts=[
        dict(name="unit", test="TestUnit", kind="rapid", checks={"quick": 1500, "thorough": 60000}, shards=16, timeout={"quick": 600, "thorough": 3000}),
        dict(name="unit-concurrent", test="TestUnitConcurrent", kind="rapid", checks={"quick": 150, "thorough": 6000}, shards=4, timeout={"quick": 600, "thorough": 3000}),
        dict(name="banned", test="TestBanned", kind="rapid", checks={"quick": 500, "thorough": 5000}, shards=1),
        dict(name="e2e-concurrent", test="TestE2EConcurrent", kind="rapid", checks={"quick": 8, "thorough": 400}, shards=16, timeout={"quick": 900, "thorough": 3400}, shrinktime="30s", crash_is_violation=True),
        dict(name="e2e", test="TestE2E", kind="rapid", checks={"quick": 300, "thorough": 6000}, shards=16, timeout={"quick": 900, "thorough": 3400}, shrinktime="60s", gomaxprocs=4, crash_is_violation=True),
    ],
)

CHECKS["C17"] = dict(
    technique='property-based testing (rapid) of frames (round trip, hostile lengths) and request sequences; real-binary parts (scripted child, real parent/child hand-over) + native fuzzing of the frame reader (thorough tier)',
    pkg="c17", level="exploration",
    rule=("part frames: rapid-generated frames over a unix stream socketpair: well-formed (type 0..255, payload 0..4093 bytes) sent with the real "
          "sendMessage and read with the real readMessage must round-trip exactly; hostile raw frames (one write of 1..4096 bytes, declared "
          "length near the boundaries 0..4,4090..4097,65535, near the carried length +-3, or arbitrary): declared > carried must be an "
          "error, declared == carried must round-trip, declared < carried is accepted as exactly the declared prefix or rejected, < 3 "
          "bytes is an error, never a panic; part frame-boundaries enumerates 13 total lengths x 18 declared lengths. part sequences: "
          "hotrestart.New(scripted instance) as parent, 1..3 raw unix-socket children each sending 0..6 steps (the four requests with or "
          "without JSON payload, unknown types, malformed frames, child disappearing without reading the reply): recorded Instance calls / "
          "kill == requested steps in order, one per request, matching reply types, unknown -> unknown reply, next child served. part "
          "binary: the real samaritan binary (built from /repo through the harness module) with a generated bootstrap (admin port, one TCP "
          "service in front of an echo backend, one established client connection) driven over its abstract unix control socket with 0..6 "
          "generated steps (admin / localconf / drain with or without JSON payload, unknown types, malformed frames) followed by "
          "terminate: every reply matches, the process stays alive until terminate and then exits 0 within 15 s, after the admin step the "
          "admin port refuses, after the drain step new service connections are not served while the established one still echoes. "
          "part handover: TWO (or more) real samaritan processes: the old one serves a TCP echo service with 1..3 established connections "
          "(optionally with a half-sent request pending on its admin API); 0..2 new processes are started the way a hot restart starts them "
          "(parent pid in the environment) and SIGKILLed after 0..400 ms, then a last one is started with a terminate delay of 300..1200 ms and "
          "performs the child side of the hand-over itself (cmd/samaritan/samaritan.go). Oracle: the old process never crashes, is still "
          "running half the delay after the last child was started and exits cleanly within delay + 25 s; every established connection "
          "echoes as long as the old process runs; afterwards the new process is alive, serves a new connection to the service port and "
          "answers the admin API within 5 s. "
          "Non-trivial: declared != carried (frames); sequence contains a malformed/unknown frame or a child hand-over; handover: a child "
          "disappeared first or the admin API was busy. Distinct by "
          "(length, declared, type, fill) resp. canonical JSON."),
    assumptions=["each frame is written by one write of <= 4096 bytes and the next frame is only sent after the parent consumed the previous one "
                 "(SIOCOUTQ == 0) or replied: re-synchronisation of the byte stream after an oversized (> 4096 byte) frame is not decided",
                 "kill is replaced through the verif hook so the test process is not signalled"],
    parts=[
        dict(name="frames", test="TestFrames", kind="rapid", checks={"quick": 10000, "thorough": 400000}, shards=8, timeout={"quick": 600, "thorough": 3000}),
        dict(name="frame-boundaries", test="TestFrameBoundaries", kind="plain"),
        dict(name="sequences", test="TestSequences", kind="rapid", checks={"quick": 400, "thorough": 12000}, shards=8, timeout={"quick": 600, "thorough": 3000},
             crash_is_violation=True),
        dict(name="fuzz-frame", test="FuzzFrame", kind="fuzz", fuzz_part="frames", tiers=["thorough"], fuzztime="120s", timeout=400, exclusive=True),
        dict(name="ctldrain", test="TestCtlDrain", kind="rapid", checks={"quick": 25, "thorough": 1500}, shards=16, timeout={"quick": 900, "thorough": 3400}, shrinktime="20s"),
        dict(name="binary", test="TestBinary", kind="rapid", checks={"quick": 10, "thorough": 150}, shards=8, timeout={"quick": 600, "thorough": 3000},
             needs_binary=True, shrinktime="60s"),
        dict(name="handover", test="TestHandover", kind="rapid", checks={"quick": 3, "thorough": 60}, shards=8, timeout={"quick": 900, "thorough": 3000},
             needs_binary=True, shrinktime="90s"),
    ],
)

CHECKS["C08"] = dict(
    technique='stateful property-based testing (rapid): generated update histories and controller pacing against a fold model; end-to-end part over real gRPC streams',
    pkg="c08", level="exploration",
    rule=("rapid-generated histories (0..2 static bootstrap services, then 1..40 steps over services {a,b,c} and a never-added 'd') of "
          "dependency updates (added/removed lists, also both), service-config updates (an invalid first config, six valid variants), "
          "endpoint updates with generated added/removed lists over 6 addresses x {main,backup} (same address in both lists, removals "
          "before additions, duplicates, empty lists, unknown service) driven into the real config store through the verif wrappers of "
          "its three update handlers, and a pace action: the harness sits between the store's event channel and the unbuffered channel "
          "handed to the real controller, forwarding 0..6 events per pace step (the store runs ahead by up to ~28 events). Processors "
          "are recorded through the public registry (proc.RegisterBuilder(MySQL, recorder)). Oracle at quiescence (all events forwarded, "
          "two sentinel events taken): model = fold of the history (dependency set; latest config; endpoint set by address, removals then "
          "additions); store view (MarshalJSON) == model; running processors == {s: valid config and endpoints known}; each processor's "
          "config is the latest object and its folded host set == latest endpoint set; exactly one running processor per service; no call "
          "after Stop. part converge-concurrent: short histories (service announced, then 1..6 endpoint updates with both lists right "
          "behind it) with a concurrent forwarder instead of pacing, so store and controller really race as in production; each history is "
          "executed 40 times. part converge-streams: after a sequential prefix the configuration updates, the endpoint updates (services a, b) and "
          "dependency changes (services c, d) are delivered by three goroutines at once, as the three discovery streams do in production, while a "
          "forwarder that waits 0..1000 us per event lets the store's 32-slot event channel fill up so that handlers block in their sends; the streams touch "
          "disjoint parts of the state, so the fold model does not depend on their interleaving; same oracle at quiescence, each history executed 6 times. Endpoints carry generated states "
          "(UP / DOWN / UNKNOWN: kept whatever they say), and the invalid first configuration is either one that fails validation or one that passes it but cannot be built (a protocol without processor); "
          "part unbuildable: three directed histories of the latter. part grpc (package disc, shared with C16): the real dynamic source (config.New with a DynamicSourceConfig: grpc.Dial, the three real discovery clients, their retry loops and the dependency hook of config/dynamic.go + config/discovery.go), the real store and the real controller against an in-process gRPC discovery server; rapid-generated histories (2..16 steps after 0..3 complete services) of dependency pushes (also bursts of 10..24 names, remove and re-add back to back), configuration and endpoint pushes, killing the dependency / config / endpoint stream, stopping and restarting the server on its port, pauses 1..1300 ms, and settle points. The server answers every subscription with the service's full state (endpoints: current list as added, removed ones - or, in half of the cases, every endpoint it ever had - as removed). Oracle at every settle point and at the end: within 45 s every scope has a live stream whose folded requests (a name in both lists of one request accepted either way) equal the dependency set, every server message is taken, and within 15 s more the store's view equals the server's truth and there is exactly one running processor for every dependency with a valid configuration and a non-empty endpoint list, with that configuration and host set; it stays so after a quiet period. Non-trivial: an endpoint update with both lists hit a running service, or a dependency was removed and re-added, "
          "or the controller lagged >= 2 events; grpc: a stream or the server failed, or one push changed more than 16 dependencies. Distinct by canonical JSON of the history."),
    assumptions=["invalid configurations are generated only before a service's first valid one (what should happen to a running processor on an invalid update is not stated)",
                 "a service that has only ever received removal-only endpoint updates is accepted with or without a processor (ambiguous in the statement)"],
    parts=[
        dict(name="converge-concurrent", test="TestConvergeConcurrent", kind="rapid", crash_is_violation=True, checks={"quick": 40, "thorough": 2000}, shards=16, timeout={"quick": 900, "thorough": 3400}, records=["converge", "converge-concurrent"]),
        dict(name="converge-streams", test="TestConvergeStreams", kind="rapid", crash_is_violation=True, checks={"quick": 150, "thorough": 4000}, shards=16, timeout={"quick": 900, "thorough": 3400}, records=["converge-streams"], shrinktime="10s"),
        dict(name="converge", test="TestConverge", kind="rapid", crash_is_violation=True, checks={"quick": 2500, "thorough": 100000}, shards=16, timeout={"quick": 600, "thorough": 3000}),
        dict(name="unbuildable", test="TestUnbuildableFirstConfig", kind="plain", crash_is_violation=True, timeout=600),
        dict(name="grpc", pkg="disc", test="TestGrpcE2E", kind="rapid", checks={"quick": 4, "thorough": 150}, shards=16, timeout={"quick": 900, "thorough": 3400}, shrinktime="60s", gomaxprocs=4, crash_is_violation=True),
    ],
)

CHECKS["C16"] = dict(
    technique='stateful property-based testing (rapid) with injected stream failures against a fold of the requests per stream; end-to-end part over real gRPC streams',
    pkg="c16", level="exploration",
    rule=("rapid-generated histories (1..25 steps) against the real svcDiscoveryClient over a scripted stream factory: Subscribe/Unsubscribe "
          "of 1..4 names out of 24, bursts of 10..60 calls (more than the two 16-entry queues), stream creation failing 1..3 times, server "
          "down until brought up (also from the start), the j-th Send of the next stream failing (j=0: the snapshot itself), Recv failing, "
          "yields. The client's run loop is driven by the harness (run() in a loop = Run minus its ~1 s back-off); a second part uses the "
          "real Run. Calls are issued sequentially from one caller goroutine, like the dependency hook. The scripted stream mimics gRPC "
          "(after a failed Send, Recv fails too). Oracle: after the last change all faults are cleared; every call must return and the "
          "fold of the current stream's requests (subscribe minus unsubscribe, per request in order; a name in both lists of one request is "
          "ambiguous and accepted either way) must equal the dependency set within the hang deadline (15 s; a goroutine parked in "
          "Subscribe's channel send while the run loop waits for the lock in two dumps 1 s apart ends the wait early) and stay equal after a "
          "quiet period. part grpc (package disc, shared with C08): the real dynamic source (config.New with a DynamicSourceConfig: grpc.Dial, the three real discovery clients, their retry loops and the dependency hook of config/dynamic.go + config/discovery.go), the real store and the real controller against an in-process gRPC discovery server; rapid-generated histories (2..16 steps after 0..3 complete services) of dependency pushes (also bursts of 10..24 names, remove and re-add back to back), configuration and endpoint pushes, killing the dependency / config / endpoint stream, stopping and restarting the server on its port, pauses 1..1300 ms, and settle points. The server answers every subscription with the service's full state (endpoints: current list as added, removed ones - or, in half of the cases, every endpoint it ever had - as removed). Oracle at every settle point and at the end: within 45 s every scope has a live stream whose folded requests (a name in both lists of one request accepted either way) equal the dependency set, every server message is taken, and within 15 s more the store's view equals the server's truth and there is exactly one running processor for every dependency with a valid configuration and a non-empty endpoint list, with that configuration and host set; it stays so after a quiet period. Non-trivial: more than 16 changes were issued while no stream was up, or a Send failure hit the snapshot or the "
          "first batch; grpc: a stream or the server failed, or one push changed more than 16 dependencies. Scripted failures return a generated kind of error (plain, io.EOF, gRPC status "
          "Canceled / Unavailable / DeadlineExceeded / Internal, bare context errors) and killed gRPC streams end with a generated status (Unavailable, Canceled, Internal, DeadlineExceeded, clean EOF) "
          "while the client's own context is alive: retrying must go on whatever the error says. Distinct by canonical JSON."),
    assumptions=["Subscribe/Unsubscribe are called from one goroutine (the dependency hook), as in production",
                 "the order of a subscribe and an unsubscribe of the same name inside one request is undefined by the wire format"],
    parts=[
        dict(name="discovery", test="TestDiscovery", kind="rapid", checks={"quick": 400, "thorough": 20000}, shards=16, timeout={"quick": 900, "thorough": 3000}, shrinktime="60s"),
        dict(name="discovery-realrun", test="TestDiscoveryRealRun", kind="rapid", checks={"quick": 10, "thorough": 120}, shards=16, timeout={"quick": 900, "thorough": 3000}, shrinktime="60s"),
        dict(name="grpc", pkg="disc", test="TestGrpcE2E", kind="rapid", checks={"quick": 5, "thorough": 200}, shards=16, timeout={"quick": 900, "thorough": 3400}, shrinktime="60s", gomaxprocs=4, crash_is_violation=True),
    ],
)

CHECKS["C03"] = dict(
    technique='property-based testing (rapid): generated command programs against a reference keyspace executor (differential oracle) plus routing oracle from an independent CRC16/hash-tag implementation',
    pkg="c03", level="exploration",
    engine="sim: simulated Redis Cluster + reference keyspace executor; real proxy through proc.New",
    rule=("rapid-generated cases: a slot layout (1..6 masters, 0..2 replicas each; contiguous, striped, every-slot-random or random-range "
          "tables), 1..4 client connections with disjoint key pools (plain keys, hash tags incl. '{}' and nested braces, binary keys with "
          "CR/LF/NUL), per connection a program of 1..60 commands over ~60 executor-implemented commands (strings, hashes, lists, sets, "
          "sorted sets, TTL family, MGET/MSET/DEL/EXISTS/TOUCH/UNLINK over several nodes, same-tag multi-key commands, EVAL), every other "
          "forwarded command name through a digest rule, wrong arities, PING/SELECT/TIME/INFO, names in mixed letter case, values "
          "0..64 KiB (thorough: up to 3 MiB) incl. CR/LF/NUL; programs are sent synchronously or pipelined. Oracles: (i) every reply "
          "equals the reference keyspace's reply, split commands being defined as their per-key commands combined in argument order, "
          "errors compared as errors; (ii) the multiset of commands logged by the simulated nodes equals exactly the expected per-key "
          "commands with byte-identical arguments, (iii) each at the node owning ref.Slot(key) (independent CRC16 + tag rule), and no "
          "MOVED/ASK was issued after the first successful table load. part wide: MSET, then 5..60 rounds of EXISTS / TOUCH / MGET and a final "
          "DEL over 2..256 keys spread over 2..6 nodes on 1..4 concurrent connections: the sum / array must be exact every time (the "
          "children's answers arrive concurrently from several backend readers). Non-trivial: a split command spans >= 2 nodes, or a key/value "
          "contains CR/LF/NUL/braces, or a value >= 8 KiB, or >= 2 connections. Distinct by canonical JSON of the case."),
    assumptions=["commands handled only by the digest rule are checked for transport and routing, not for Redis semantics (the proxy does not interpret them either)",
                 "the simulator implements the cluster rules of the Redis Cluster specification that the proxy depends on; connections use disjoint key pools"],
    parts=[
        dict(name="wide", test="TestWideSplit", kind="rapid", crash_is_violation=True, checks={"quick": 12, "thorough": 600}, shards=16, timeout={"quick": 900, "thorough": 3400}, shrinktime="30s"),
        dict(name="stable", test="TestStable", kind="rapid", crash_is_violation=True, checks={"quick": 150, "thorough": 4000}, shards=16, timeout={"quick": 900, "thorough": 3400}, shrinktime="60s", gomaxprocs=4),
    ],
)

CHECKS["C01"] = dict(
    technique='property-based testing (rapid): generated pipelines, fragmentations and reply schedules against a reference keyspace executor (differential oracle) on a simulated cluster',
    pkg="c01", level="exploration",
    engine="sim: simulated Redis Cluster + reference keyspace executor; real proxy through proc.New",
    rule=("rapid-generated cases: layout (1..5 masters; even/striped/random/range tables), 1..4 concurrent client connections with "
          "disjoint key pools, per connection a pipeline of 1..80 (thorough: up to 400) requests from the grammar {the C03 command "
          "generator incl. MGET/MSET/DEL... over several nodes, unsupported names, names containing CR LF / NUL / RESP-looking text, "
          "inline form, arrays that are not commands (*0, *-1, nested, non-bulk, bare scalars)}, a fragmentation plan of the request "
          "bytes (whole, byte-wise, after every CR, random cuts snapped into CRLF), and a reply schedule (per node a cycled list of "
          "reply delays 0..4 ms, so nodes answer out of arrival order while each backend connection stays FIFO); in a quarter of the "
          "cases compression is enabled with a threshold no value reaches, so that APPEND/SETRANGE/GETRANGE/SETBIT/GETBIT/EVAL in the "
          "pipeline are stopped by the backend-side filter (expected reply: an error); the per-backend writer is held 0/50/300/2000 us "
          "per request at its pause point (requests queue behind it); the periodic slot refresh runs at its production rate. Oracle: the reference "
          "keyspace executes each connection's program in order; the observed reply stream must parse as well-formed RESP and equal it "
          "element by element (errors as errors); then a sentinel PING must be answered by exactly +PONG as the next reply and the "
          "connection must stay silent for 30 ms; a missing reply is a hang (20 s). part deep: 1..40 connections each writing 500..5000 requests in one "
          "go (GET / SET / INCR and, every 5th or 31st, an MGET over 3..120 keys - every key of an MGET is a backend request of its own, so "
          "tens of connections with 33 requests in flight each put more than 1024 requests on one backend connection's queues), values of "
          "1..5000 bytes, optionally all keys of a connection on one node, node reply delay / slow backend writer, and clients that start "
          "reading only after 0..400 ms (replies back up in the proxy); same oracle. part widepipe: 1..4 connections each writing in one go an MSET of its 8..512 keys (2..6 nodes), "
          "2..25 rounds of EXISTS / GET / MGET / TOUCH over all of them, DEL, EXISTS and PING: many wide split requests of several connections in flight at once; every reply must be "
          "exactly the sum / the array in argument order / the value of its own request. part partial: a client that awaits reply k before it completes request k+1: every write carries "
          "the rest of request k together with the first 1..1000 bytes of request k+1, then reply k must arrive (10 s) although the next request is incomplete. The pipeline part also sends the "
          "commands the proxy answers itself (PING, SELECT, INFO, TIME, HOTKEY) with arguments that contain line ends and RESP-looking text: one reply each, whatever it says. Non-trivial: >= 2 nodes and the node log shows a "
          "later-arrived command of one node answered before an earlier one of another. pipeline: in a quarter of the cases every slot moves after the table was loaded and the table stays stale (every keyed request takes a MOVED hop); widepipe: the same in a tenth of the cases, with nodes answering 0/20/100 us late (known finding redirected-resend-blocks-backend-readers: identified by a goroutine inside handleRedirection blocked in client.Send when a reply is 12 s overdue; every other missing or wrong reply is a violation). Distinct by canonical JSON."),
    assumptions=["a missing reply is judged by a deadline (20 s; 150 s in the deep part, whose cases are bounded to a few seconds of backend work)"],
    parts=[
        dict(name="deep", test="TestDeepPipeline", kind="rapid", crash_is_violation=True, checks={"quick": 2, "thorough": 120}, shards=16, timeout={"quick": 900, "thorough": 3400}, shrinktime="60s", gomaxprocs=4),
        dict(name="partial", test="TestPartial", kind="rapid", checks={"quick": 40, "thorough": 1500}, shards=16, timeout={"quick": 900, "thorough": 3400}, shrinktime="30s", crash_is_violation=True),
        dict(name="widepipe", test="TestWidePipe", kind="rapid", checks={"quick": 30, "thorough": 500}, shards=16, timeout={"quick": 900, "thorough": 3400}, shrinktime="30s", crash_is_violation=True),
        dict(name="pipeline", test="TestPipeline", kind="rapid", crash_is_violation=True, checks={"quick": 100, "thorough": 2500}, shards=16, timeout={"quick": 900, "thorough": 3400}, shrinktime="60s", gomaxprocs=4),
    ],
)

CHECKS["C07"] = dict(
    technique='stateful property-based testing (rapid) with injected faults (connection loss, restarts, black-holed connects, re-layouts) against a recovery model',
    pkg="c07", level="fault_enumeration",
    engine="sim: simulated Redis Cluster with fault injection; real proxy through proc.New",
    rule=("rapid-generated fault histories (1..8 steps + final recovery) over a simulated cluster of 2..4 masters (0..1 replica each), optionally "
          "with a master down when the proxy starts: traffic bursts (1..60 pipelined writes spread over all nodes), drop of a node's "
          "established connections (FIN or RST), connection killed after the k-th command (k 1..20, optionally after 0/1/3 reply bytes) "
          "during a burst, node stop ... start on the same port, slot re-layout over the live masters (shifted ranges, striped, random, "
          "swap; optionally keeping slot-less masters slot-less), adding a master (with every 5th slot or without slots), fail-over "
          "(master dies, replica promoted, the failed master stays listed without slots as Redis does). Oracle: every request is "
          "answered (20 s hang deadline); once a node has been reachable again for the recovery allowance (250 ms > max(connect "
          "time-out 100 ms, 200 ms)) a SET/GET probe for a key of every reachable master must succeed and read back the written value, "
          "and a node whose connections were dropped shows a new accepted connection; after a layout change two successful slot "
          "refreshes must happen within 10 s of redirected traffic and a sweep over up to 40 moved slots then causes 0 new MOVED/ASK; "
          "after a fail-over writes for the promoted replica's slots must succeed within 10 s. Half of the cases run under the read strategy REPLICA or BOTH "
          "(0..2 replicas per master); op reparent: a replica is re-pointed to another master (every master keeps its address and slots): two successful "
          "refreshes within 10 s, then 60 reads of keys of both masters cause 0 MOVED/ASK and answer correctly. A third of the cases run the periodic refresh at its production rate (2 min: never during a case), so that "
          "only refreshes triggered by a redirection or by a failed connect can teach the proxy a new layout (convergence = a sweep without redirections); in a quarter of the cases 1..2 live masters are reported as "
          "master,fail? (PFAIL) by the other nodes. Part overlap (periodic refresh at its production rate): 2..4 masters whose CLUSTER NODES replies are written 40..200 ms after they were composed; a slot moves, one read is "
          "redirected and starts a refresh; 0..60 % of the delay after that refresh's request arrived 1..3 further slots move, each followed by one redirected read while the refresh composed before the move is in flight; "
          "then no traffic until no refresh has completed for 1.5 delays + 150 ms: reading every moved key once more must cause 0 MOVED/ASK. Non-trivial: a fault was followed by "
          "traffic to the same address, or a layout change moved slots; (overlap) a redirected read was answered while a refresh asked before the change had not been installed. Distinct by canonical JSON of the history."),
    assumptions=["the periodic slot refresh runs every 50 ms and its minimum spacing is 5 ms in the harness (2 min / 5 s in production): recovery after a fail-over without any redirection is bounded by that period",
                 "connect time-outs against black-holed addresses are not generated (refused connects and resets are)"],
    parts=[
        dict(name="heal", test="TestHeal", kind="rapid", checks={"quick": 30, "thorough": 500}, shards=16, timeout={"quick": 900, "thorough": 3400}, shrinktime="90s", gomaxprocs=4, crash_is_violation=True),
        dict(name="overlap", test="TestOverlap", kind="rapid", checks={"quick": 15, "thorough": 250}, shards=16, timeout={"quick": 900, "thorough": 3400}, shrinktime="60s", gomaxprocs=4, crash_is_violation=True),
    ],
)

CHECKS["C02"] = dict(
    technique='property-based testing (rapid) with generated schedules over named pause points and injected faults (directed + enumerated grid), plus hook-free stress/chaos generation; oracle: exactly one reply per request, hang confirmed by goroutine dumps',
    pkg="c02", level="fault_enumeration",
    engine="sim + verifpoint pause points: the harness owns the schedule at named points of the backend client and the session",
    rule=("part directed: rapid-generated cases: 1..3 masters, 1..3 client connections each pipelining 1..30 requests (GET/SET and MGET/MSET "
          "spanning two nodes), and 1..2 schedule directives (pause point x n-th hit on the connection to a chosen node x fault x hold "
          "time): points = Send entry, Send after the quit check before the enqueue, backend writer after taking a request, backend "
          "writer with the encoded request in hand before the hand-over to the sent queue, backend reader before pairing a reply, "
          "connection shutdown before / after the final drain, client-facing writer before waiting; faults = backend drops the "
          "connection (FIN / RST), backend stops and restarts, OnSvcHostRemove(host), OnSvcAllHostReplace, proxy Stop, none; hold 0..30 ms; "
          "a quarter of the cases run on half-migrated slots so that every command is redirected by ASK (ASKING+command pairs). part "
          "directed-ask: half-migrated slots, 2..4 connections x 10..60 requests, one directive that makes a backend connection quit and "
          "a second one that holds that client for 5..50 ms in its shutdown window (before / after the final drain) while redirections "
          "keep arriving for it. "
          "part directed-grid enumerates 8 points x 6 faults x hit index {1,2,3,5,8} x hold {2,20 ms} = 480 schedules. part stress (no "
          "hooks): 2..12 connections x 2000..20000 windowed requests while node connections are killed after a random number of commands "
          "(optionally mid-reply / RST) again and again. part chaos (no hooks): 2..10 connections x 1000..8000 requests with 1..64 in flight "
          "(GET / SET / MGET / MSET over six hash tags, with compression also APPEND, which the backend-side filter stops) while a fault thread "
          "keeps drawing from a generated subset of {connection killed after k commands, connections dropped, node restarted, endpoint set "
          "replaced, member removed and re-added, slot migrated with MOVED/ASK redirections} every 0.1..3 ms. part simultaneous: 5..60 rounds per case of ONE split request (MSET / MGET / DEL / EXISTS, "
          "1..5 keys on each of 2..4 nodes) whose children are completed by different backend goroutines at the same instant: all involved backend connections are dropped while the nodes hold "
          "their replies, the clients are held at the pause point before their final drain until all of them are there and released together by a spinning barrier (fail+fail), or one node answers and its "
          "reader is held before it takes the request from the sent queue and released with the others (fail+ok). Oracle: every request written on a connection the harness keeps open receives "
          "exactly one reply (value or error) within the hang deadline (10 s, confirmed by two goroutine dumps 1 s apart), no surplus "
          "bytes, well-formed reply stream; a crash of the test process (close of closed channel = double completion) is a violation. "
          "Non-trivial: a directive fired (the fault hit a request queued / in the writer's hand / awaiting its answer); stress: kills "
          "were armed. Distinct by canonical JSON."),
    assumptions=["interleavings are explored through the named pause points and natural scheduling, not exhaustively",
                 "when the proxy itself closes the client connection (proxy Stop) no further reply is owed"],
    parts=[
        dict(name="directed", test="TestDirected", kind="rapid", checks={"quick": 150, "thorough": 3000}, shards=16, timeout={"quick": 900, "thorough": 3400}, shrinktime="60s", gomaxprocs=4, crash_is_violation=True),
        dict(name="directed-ask", test="TestDirectedAsk", kind="rapid", checks={"quick": 80, "thorough": 3000}, shards=16, timeout={"quick": 900, "thorough": 3400}, shrinktime="60s", gomaxprocs=4, crash_is_violation=True, records=["directed", "directed-ask"]),
        dict(name="directed-grid", test="TestDirectedGrid", kind="plain", shards=16, timeout={"quick": 900, "thorough": 1800}, gomaxprocs=4, crash_is_violation=True, records=["directed", "directed-grid"]),
        dict(name="simultaneous", test="TestSimultaneous", kind="rapid", checks={"quick": 25, "thorough": 300}, shards=16, timeout={"quick": 900, "thorough": 3400}, shrinktime="30s", crash_is_violation=True, gomaxprocs=8),
        dict(name="chaos", test="TestChaos", kind="rapid", checks={"quick": 5, "thorough": 250}, shards=8, timeout={"quick": 900, "thorough": 3400}, shrinktime="30s", crash_is_violation=True),
        dict(name="stress", test="TestStress", kind="rapid", checks={"quick": 6, "thorough": 100}, shards=8, timeout={"quick": 900, "thorough": 3400}, shrinktime="30s", crash_is_violation=True),
    ],
)

CHECKS["C04"] = dict(
    technique='stateful property-based testing (rapid): generated migration / fail-over histories against a reference model; directed scenarios for the known finding',
    pkg="c04", level="exploration",
    engine="sim: simulated Redis Cluster with per-key migration state; real proxy through proc.New",
    rule=("part migration: rapid-generated histories (3..40 steps) over a simulated cluster of 2..4 masters (0..1 replica each; every node is "
          "a seed host): client commands on keys of three hot slots ({a},{b},{c}; SET/APPEND/INCRBY/LPUSH with unique payloads, GET, "
          "STRLEN, LRANGE, MGET/MSET/DEL/EXISTS over several slots) sent synchronously or as pipelined bursts of 2..25 (each key at most "
          "once per burst) with 0/20/100 concurrent background requests on a second connection (to interleave with ASKING+command "
          "pairs), migration steps (set migrating/importing, move 1..3 keys, finalise, abort) and fail-overs (master dies, replica "
          "promoted, failed master stays listed). Oracle after every reply: no reply (also inside arrays) starts with MOVED/ASK; the "
          "reply equals the reference keyspace's (split commands as per-key commands); an error is accepted only inside the recovery "
          "window of a fail-over (until two slot refreshes succeeded, <= 10 s), after which the model adopts the cluster's data for "
          "that key; at the end every migration is finalised and the union of all nodes' data equals the reference data with each key "
          "on exactly one node (unique payloads make a lost or duplicated execution visible). part overtake: directed scenario of the "
          "known finding (see known_findings.json). part burstorder: a slot has just moved (MOVED) or started migrating (ASK, keys absent) and no refresh can fall into the burst "
          "(refreshes spaced 5 s apart, table loaded moments ago; a case in which the refresh counter moved all the same is discarded): 1..3 connections each write 2..200 APPENDs on one key of "
          "that slot in one go; the whole burst is redirected command by command, in two thirds of the cases to a node the proxy has no connection to yet; reply i must be :i. part failover: "
          "2..4 masters with 1..2 replicas, the periodic refresh at its production rate (never during a case): a master dies (optionally with 1..40 requests in flight, with or without warm connections, any read strategy) "
          "and its replica is promoted; requests for the promoted node's slots, retried every 5 ms, must succeed within 10 s and stay served. In a quarter of the migrations of part migration a new master "
          "joins first (it owns no slot and is not a configured host) and the slot is migrated to it. Non-trivial: a node issued MOVED/ASK for a client command while a slot was "
          "half-migrated, or a fail-over happened. Distinct by canonical JSON of the history."),
    assumptions=["the periodic refresh runs every 50 ms in the harness (2 min in production); recovery after a fail-over is bounded by it",
                 "each pipelined burst touches a key at most once: same-key pipelines across a table refresh are the recorded known finding and are excluded by construction (decided separately by the overtake part)",
                 "fail-overs happen between client operations (replication in the simulator is synchronous)"],
    parts=[
        dict(name="migration", test="TestMigration", kind="rapid", checks={"quick": 120, "thorough": 6000}, shards=16, timeout={"quick": 900, "thorough": 3400}, shrinktime="90s", gomaxprocs=4, crash_is_violation=True),
        dict(name="failover", test="TestFailoverRecovery", kind="rapid", checks={"quick": 60, "thorough": 400}, shards=16, timeout={"quick": 900, "thorough": 3400}, shrinktime="30s", crash_is_violation=True),
        dict(name="burstorder", test="TestBurstOrder", kind="rapid", checks={"quick": 60, "thorough": 500}, shards=16, timeout={"quick": 900, "thorough": 3400}, shrinktime="20s", crash_is_violation=False),
        dict(name="overtake", test="TestKnownOvertake", kind="plain", timeout=600),
    ],
)

CHECKS["C14"] = dict(
    technique="enumeration of the full Redis 5.0 command table x letter cases x strategies + property-based testing (rapid) with topology changes; oracle from the simulated nodes' logs",
    pkg="c14", level="exploration",
    engine="sim: simulated Redis Cluster with replicas; real proxy through proc.New",
    rule=("part names: enumeration of every name of the Redis 5.0 command table (transcribed with Redis's own write/readonly flags), of the "
          "proxy's documented tables and a few others (~230 names) x 3 letter-case variants and the inline form x 3 read strategies x {0,1,2} replicas per "
          "master, each sent with 1..3 arguments; part random: rapid-generated batches of 1..25 commands (names from those tables or "
          "random, random letter case, 0..6 arguments, hash-tagged keys; every 1st/2nd/3rd command in inline form in 3 of 5 cases) against 1..3 masters with 0..2 replicas under a generated "
          "read strategy; in a third of the layouts with replicas, 1..2 replica re-parentings (the k-th replica becomes a replica of "
          "another master) happen between commands, and the commands continue after the proxy refreshed its table twice; in a third of the cases the read strategy is switched 1..3 times "
          "at run time through OnSvcConfigUpdate, and every later command is judged by the strategy in force. Oracle per "
          "command from the simulated nodes' logs (against the current replica sets): a name outside the documented supported set is answered by "
          "an error and no backend logs an arrival; PING/QUIT/SELECT/INFO/TIME/HOTKEY are answered with no arrival; every arrival of a "
          "forwarded command is at the master owning ref.Slot(key) or one of its replicas; a command Redis flags as write (and EVAL) "
          "arrives only at that master under every strategy (an arrival at a replica that answers MOVED counts); a read-only command "
          "arrives at a replica only under REPLICA/BOTH. Names are also sent in spellings that Unicode case folding maps onto supported names (U+212A for k, U+0130 for i): such a name is not a supported name. Non-trivial: a real Redis command outside the supported set, or a forwarded "
          "command on a layout with replicas under REPLICA/BOTH. Distinct by canonical JSON (names part: by construction)."),
    assumptions=["the supported set is frozen in ref/commands.go from the proxy's tables at the pinned commit and docs/src/arch/protocol/redis/redis.md",
                 "a read-only command kept on the master under REPLICA/BOTH is allowed (the statement only restricts what may go to replicas)"],
    parts=[
        dict(name="names", test="TestAllNames", kind="plain", shards=9, timeout=900, gomaxprocs=4),
        dict(name="random", test="TestRandomCommands", kind="rapid", checks={"quick": 200, "thorough": 4000}, shards=16, timeout={"quick": 900, "thorough": 3400}, shrinktime="60s", gomaxprocs=4, crash_is_violation=True),
    ],
)

CHECKS["C18"] = dict(
    technique='property-based testing (rapid): cursor round trip; generated multi-node iterations with scripted cursor chains, oracle from node logs and key sets',
    pkg="c18", level="exploration",
    engine="verif hooks over the cursor code + sim with scripted per-node SCAN cursor chains",
    rule=("part cursor: rapid-generated (node index 0..65535, node cursor < 2^48 biased to edges 0, 1, 2^32, 2^47, 2^48-1, next cursor, "
          "MATCH/COUNT arguments, keys): parse(gen(i,c)) == (i,c); for i < 32768 the decimal text sent through the real request parser "
          "and conversion addresses node i with cursor text c, passes MATCH/COUNT and the keys through unchanged and returns gen(i,next) "
          "or gen(i+1,0) when the node is done. part badcursor: cursors >= 2^63, negative, non-numeric, over-long: never a panic. part "
          "iteration: 1..6 simulated nodes, each with a scripted chain of 1..5 pages (distinct arbitrary cursors < 2^48, last one 0) and "
          "a generated partition of its keys (pages may be empty, keys may repeat), optional MATCH/COUNT; the client loops from cursor 0 "
          "through a real proxy. Oracle: cursor 0 is reached within pages+nodes+1 calls; returned keys == stored keys as sets; every "
          "node's log shows exactly its chain 0,c1,... once and in order with MATCH/COUNT unchanged; a cursor past the last node yields "
          "[\"0\", []] twice identically; zero nodes (a service that never had a host, or whose hosts are all removed after the "
          "iteration): the cursors 0, 5, 2^48, 3*2^48+77, 32767*2^48 each yield the terminating reply. MATCH patterns also look like option names, numbers, cursors, blanks and CR LF; a quarter of the services have 1..2 Backup hosts (replicas without keys of their own) next to the main ones. Non-trivial: node index > 0 with a node cursor >= 2^32 (cursor); >= 2 nodes and a node with >= 2 "
          "pages (iteration). Distinct by canonical JSON."),
    assumptions=["client cursors are read as int64, so node indices >= 32768 cannot be fed back as decimal text (far beyond any real node count); they are only checked at the gen/parse level",
                 "SCAN iterates the service's hosts sorted by address; the seed hosts are the masters"],
    parts=[
        dict(name="cursor", test="TestCursor", kind="rapid", checks={"quick": 20000, "thorough": 600000}, shards=8, timeout={"quick": 600, "thorough": 3000}),
        dict(name="badcursor", test="TestBadCursor", kind="rapid", checks={"quick": 5000, "thorough": 100000}, shards=2, timeout={"quick": 600, "thorough": 3000}),
        dict(name="iteration", test="TestIteration", kind="rapid", checks={"quick": 100, "thorough": 3000}, shards=16, timeout={"quick": 900, "thorough": 3400}, gomaxprocs=4, crash_is_violation=True),
    ],
)

CHECKS["C11"] = dict(
    technique='property-based testing (rapid) with generated and mutated hostile inputs at parser and socket level (robustness oracle: alive, still serving, bounded allocation) + native coverage-guided fuzzing (thorough tier)',
    pkg="c11", level="exploration",
    engine="verif hooks over the parsers/handlers (layer 1) + sim with a hostile node and hostile clients (layer 2); SUT in a child process the driver can afford to lose",
    rule=("layer 1 (hooks, recover around each call, debug.SetMaxStack(64 MiB) so unbounded recursion is a cheap observable crash): part decoder: "
          "generated and mutated byte strings into the real decoder (array nesting up to 400000, thorough 2000000; hostile constants; valid "
          "messages with byte/insert/delete/truncate mutations; declared lengths around and beyond the limits; junk over the RESP alphabet): "
          "no panic, sticky error, no more messages than bytes, an over-limit or negative declared length allocates < 8 MiB; part "
          "clusternodes: generated CLUSTER NODES text (valid lines with dropped fields, unknown / self / replica master ids, bad and huge "
          "slot ranges, markers) into parseClusterNodes; part backendreply: generated MOVED/ASK/CLUSTERDOWN error texts (missing fields, "
          "extra spaces, wrong case, non-addresses) and arbitrary values through the real handleResp/handleRedirection; part scanreply: "
          "arbitrary values as SCAN reply through the real rewriting hooks; part requestvalue: arbitrary decoded values and supported names "
          "with hostile argument shapes through the real handleRequest (must answer within 3 s); part decompress: replies holding bulk "
          "strings that look like (parts of) a compressed value (strict header prefixes, header with another algorithm byte, header + "
          "garbage / truncated stream / huge declared length) through the reply path of the compression filter, compression option "
          "present and enabled or disabled. layer 2 part sockets (compression option absent / disabled / enabled): a real proxy in "
          "front of two simulated nodes; 1..5 steps in which node 0 answers the next CLUSTER NODES / READONLY / SCAN / keyed command with "
          "generated bytes (optionally closing) or a client sends generated bytes; after every step a fresh connection must get +PONG and "
          "a SET on the untouched node must succeed within 10 s. part clusternodes-socket: the genuine CLUSTER NODES text of the simulated "
          "cluster with 1..3 edited tokens (slot tokens at and beyond the boundary 16383/16384/16385, reversed/huge/negative ranges, "
          "unknown master ids, broken addresses) is served by every node for three refresh periods through the real refresh loop; the "
          "proxy must stay alive and serve again within 10 s after the genuine text is back. part storm: for 20..400 ms a node answers EVERY request "
          "- the proxy's own ASKING, READONLY and CLUSTER NODES included - with a well-formed redirection (ASK or MOVED to itself, ASK to the other "
          "node, MOVED/ASK ping-pong between both nodes) while 1..4 clients pipeline 1..200 requests for its keys, then behaves again (optionally "
          "dropping its connections): afterwards a fresh connection gets +PONG, the other backend serves a SET within 10 s, the heap grew by "
          "less than 512 MiB and Stop returns within 20 s. A crash of the test process is attributed to the case being executed and "
          "is a violation. part requestvalue: decoded request values handed to the real request handler: generated RESP values, supported names with hostile argument shapes, "
          "and a numeric sweep - one argument position (plus random others) of a command carries the decimal text of an integer within 3 of a limit of a 64/63/48/32/31/16-bit "
          "integer, a small / negative / signed / over-long number or a non-number (gen.HostileInt); the commands whose arguments the proxy interprets itself (EVAL key counts, SCAN "
          "cursors, SELECT, multi-key lists) are drawn half of the time: no panic, answered within 3 s. Non-trivial: the input is not valid RESP / not a well-formed reply and differs from every corpus constant. "
          "Distinct by input bytes resp. canonical JSON."),
    assumptions=["heap amplification by wide AND deep arrays (*1048576 nested d times costs d x 64 MiB) is not explored: the statement's memory bound is decided for stack depth and for single over-limit lengths only",
                 "an incomplete reply that is never completed and never closed is a slow backend, not a hostile byte sequence: hostile backends close after incomplete replies"],
    parts=[
        dict(name="decoder", test="TestDecoderBytes", kind="rapid", checks={"quick": 1500, "thorough": 60000}, shards=16, timeout={"quick": 900, "thorough": 3400}, crash_is_violation=True),
        dict(name="clusternodes", test="TestClusterNodesText", kind="rapid", checks={"quick": 10000, "thorough": 400000}, shards=4, timeout={"quick": 900, "thorough": 3400}, crash_is_violation=True),
        dict(name="backendreply", test="TestBackendReplies", kind="rapid", checks={"quick": 300, "thorough": 10000}, shards=8, timeout={"quick": 900, "thorough": 3400}, crash_is_violation=True),
        dict(name="decompress", test="TestDecompressReplies", kind="rapid", checks={"quick": 1500, "thorough": 60000}, shards=8, timeout={"quick": 900, "thorough": 3400}, crash_is_violation=True),
        dict(name="scanreply", test="TestScanReplies", kind="rapid", checks={"quick": 5000, "thorough": 200000}, shards=2, timeout={"quick": 900, "thorough": 3400}, crash_is_violation=True),
        dict(name="requestvalue", test="TestRequestValues", kind="rapid", checks={"quick": 50000, "thorough": 1000000}, shards=4, timeout={"quick": 900, "thorough": 3400}, crash_is_violation=True),
        dict(name="clusternodes-socket", test="TestHostileClusterNodes", kind="rapid", checks={"quick": 20, "thorough": 800}, shards=16, timeout={"quick": 900, "thorough": 3400}, gomaxprocs=4, crash_is_violation=True),
        dict(name="fuzz-decoder", test="FuzzDecoder", kind="fuzz", fuzz_part="decoder", tiers=["thorough"], fuzztime="150s", timeout=400, exclusive=True),
        dict(name="fuzz-clusternodes", test="FuzzClusterNodes", kind="fuzz", fuzz_part="clusternodes", tiers=["thorough"], fuzztime="120s", timeout=400, exclusive=True),
        dict(name="storm", test="TestRedirectionStorm", kind="rapid", checks={"quick": 12, "thorough": 400}, shards=16, timeout={"quick": 900, "thorough": 3400}, gomaxprocs=4, crash_is_violation=True),
        dict(name="sockets", test="TestHostileSockets", kind="rapid", checks={"quick": 40, "thorough": 1500}, shards=16, timeout={"quick": 900, "thorough": 3400}, gomaxprocs=4, crash_is_violation=True),
    ],
)

CHECKS["C05"] = dict(
    technique='property-based testing (rapid): generated byte streams, chunkings, pacing and close scripts; oracle: position-dependent patterns received exactly',
    pkg="c05", level="exploration",
    engine="tcpsim: real TCP processor through proc.New, scripted clients and backends over loopback",
    rule=("rapid-generated cases: 1..16 concurrent connections through ONE proxy (shared 16 KiB buffer pool), each with a client->backend and a "
          "backend->client stream (length 0, 1, 16383..16385, 32768/9, 65536, 0..70000, up to 1 MiB, thorough 16 MiB; every byte is a "
          "function of connection id, direction and position), a write plan (sizes 1..65536 cycled, gaps 0..2 ms), reader sizes 1..65536, and "
          "a close script: both sides half-close after sending; client half-closes first and the backend sends 0..70000 more bytes only "
          "after it has seen the client's EOF; the mirror image; one side finishing only after the other's EOF. Oracle: each side receives "
          "exactly the peer's bytes (length and content, position-checked) and sees EOF only after all of them; data sent after the peer's "
          "half-close still arrives; nothing from another connection's pattern appears. part pingpong: request/response traffic against an echo backend: 1..12 messages of 1, 2, 3, 5, 100, 16383..16385, 32769 or 70000 bytes, each echoed completely (10 s) before the next is sent. Non-trivial: both directions exceed one 16 KiB "
          "buffer, or data is sent after the peer's half-close. Paced cases (idle time-out 1.2 s, one side streams 30 KiB over about 3 s): the side that says little either half-closes at once or stays open and silent until it has seen the streaming side's EOF, so that its own direction runs into the idle time-out while the other direction is busy - the stream must still arrive completely. Distinct by canonical JSON."),
    assumptions=["the idle time-out (10 min) is larger than every generated gap: the idle cut-off itself is not exercised",
                 "abortive closes (RST with unread data) are not generated: TCP itself then drops data"],
    parts=[
        dict(name="pingpong", test="TestPingPong", kind="rapid", checks={"quick": 200, "thorough": 2000}, shards=16, timeout={"quick": 900, "thorough": 3400}, shrinktime="30s"),
        dict(name="relay", test="TestRelay", kind="rapid", checks={"quick": 10, "thorough": 1200}, shards=16, timeout={"quick": 900, "thorough": 3400}, shrinktime="60s", gomaxprocs=4),
    ],
)

CHECKS["C06"] = dict(
    technique='property-based testing (rapid): policy-level laws (exact round robin, scripted random values) and stateful end-to-end histories with a membership / health model',
    pkg="c06", level="exploration",
    engine="verif re-export of the balancers (policy level) + tcpsim: real TCP processor with the real TCP health checker and scripted backends",
    rule=("part roundrobin: n in 1..16 hosts, k in 1..50, g in 1..16 goroutines performing n*k consecutive picks in total after 0..40 warm-up picks: "
          "every host exactly k. part pick: random / least-connection with scripted randInt values (small and up to 2^62) over 0..8 hosts "
          "with generated connection counts: the pick is a member (nil iff the list is empty), least-connection returns one of its two "
          "samples and never the strictly busier one. part e2e: rapid-generated histories (2..14 steps) against a real TCP processor with "
          "the real TCP health checker (interval 15 ms, fall/rise 1..3): add hosts (main/backup), remove hosts exactly as the controller "
          "does (fresh host objects for the address), replace all, backend down/up (listener closed/reopened), open 1..6 connections "
          "(sequentially or concurrently; round robin: n*k), close a connection. Oracle after the health state has had (threshold+3) "
          "intervals + 60 ms to converge: every relayed connection reaches a backend that is a member, up, and in the preferred tier "
          "(backup only when no main host is up); with no usable host the client connection is closed, with a usable host none is "
          "refused; round robin over n unchanged hosts gives each exactly k of n*k; established connections to a removed host are closed "
          "within 5 s. Further ops of part e2e (fifth session): blip (a member's backend is unreachable for a moment, shorter than the health checker needs to notice, while connections arrive), "
          "slowremove (the member's address is black-holed, connections arrive and some are picked for it, the host is removed, the backend accepts again: a connection that ends up relayed to the removed host must be closed), "
          "config (OnSvcConfigUpdate at run time: another policy, other health-check thresholds, or no health check at all - then every member counts as healthy); after every removal the established connections to the "
          "OTHER hosts must still be open; the health state is awaited by polling the health flag of the host objects handed to the processor. Non-trivial: >1 goroutine and >1 host (roundrobin); >= 2 hosts (pick); a removal or health flip while a connection "
          "is established (e2e). Part concurrentpick: RANDOM and LEAST_CONNECTION with their real random source (the pick part replaces it), 1..16 hosts, 1..16 goroutines that start together and pick 1..100000 times each: every pick is a member of the list, no pick panics. Distinct by canonical JSON."),
    assumptions=["the usable set is judged only after the health-check detection window has passed since the last flip",
                 "hosts are never added twice for one address (the config store filters that)"],
    parts=[
        dict(name="roundrobin", test="TestRoundRobin", kind="rapid", checks={"quick": 3000, "thorough": 100000}, shards=4, timeout={"quick": 600, "thorough": 3000}),
        dict(name="pick", test="TestPick", kind="rapid", checks={"quick": 20000, "thorough": 1000000}, shards=4, timeout={"quick": 600, "thorough": 3000}),
        dict(name="concurrentpick", test="TestConcurrentPick", kind="rapid", checks={"quick": 1200, "thorough": 10000}, shards=8, timeout={"quick": 600, "thorough": 3000}, gomaxprocs=8),
        dict(name="e2e", test="TestE2E", kind="rapid", checks={"quick": 100, "thorough": 1500}, shards=16, timeout={"quick": 900, "thorough": 3400}, shrinktime="60s", gomaxprocs=4, crash_is_violation=True),
    ],
)

CHECKS["C09"] = dict(
    technique='property-based testing (rapid) with generated lifecycle scripts placed at named pause points and injected backend behaviours; oracles: bounded-time return, closed connections, goroutine baseline',
    pkg="c09", level="fault_enumeration",
    engine="sim / tcpsim + verifpoint pause points in listener.Serve: the harness places Stop/Drain at named points of the bind loop",
    rule=("part stop: rapid-generated cases: service kind {TCP, Redis}; port free or held by a plain listener during the first bind retry; backend "
          "{responsive, silent (accepts, never answers), closed, chatty (surplus / unsolicited replies)}; Stop or StopListen+Stop placed "
          "{before Start, immediately after Start, at the pause points before-bind / in the retry sleep / after-bind (before the listener is "
          "published) / before the first Accept, or while serving 0..5 connections with 0..5 requests in flight each}, holding Serve at the "
          "point for 0..30 ms. Oracle: Stop returns within 10 s (TCP with a silent backend: the configured idle time-out of 1 s + slack); "
          "afterwards a connect to the listener address is not served, every client connection sees EOF/reset within 5 s, every backend "
          "connection is closed and the number of goroutines with frames in samaritan/proc (listener, redis, tcp, hc monitor) is back to "
          "the baseline within 5 s. part limit: connection limit L in {0,1,2,3,5,8} with generated bursts of 1..6 simultaneous opens, closes "
          "and one StopListen: served-concurrently <= L at all times, connections under the limit are served (retried up to 5 s because a "
          "client close is noticed asynchronously), after StopListen new connects are not served while every established connection still "
          "is. part arrivals: 5..25 trials per case of Stop called 0..3 ms after 1..8 dialer goroutines started connecting non-stop "
          "(connections left idle, 0..30 established before): Stop returns within 10 s and every connection the clients ever got "
          "established sees EOF/reset within 5 s. part redirect: a Redis service that only knows node 0; the slot of the test key is moved (MOVED) or "
          "half-migrated (ASK) to node 1, 1..3 connections pipeline 1..8 GETs; the first request on its way to node 1 is held at the pause point "
          "between the upstream's quit check and the connection lookup, Stop is called 0..2000 us after the hit and the request is released "
          "0..60 ms later; variants without the pause point and with node 1 accepting only after ~1 s (accept queue full: the connect is "
          "pending while Stop sweeps the connections); in two thirds of the cases a host update is delivered right before Stop - the node that answered the redirection "
          "is removed (OnSvcHostRemove), or all hosts are replaced by the new node / by an equal list (OnSvcAllHostReplace) - from the same goroutine as Stop, which "
          "is called 0..20 ms after the update returned, as the controller's event loop does (if the update has not returned after 10 s Stop is called all the same, and only a Stop that does not return either is a verdict). Oracle: Stop returns within 10 s, every client connection is closed, no backend "
          "connection (also none that completes after Stop) and no service goroutine remains. part removeall: 2..6 masters, 1..4 clients keeping 1..30 requests in flight for keys of every node; one update removes 1..all hosts "
          "(OnSvcHostRemove, or OnSvcAllHostReplace with the rest) after 1..20 ms of traffic, Stop follows 0..20 ms after it returned, from the same goroutine: same oracle. The stop part also draws 32..400 requests in "
          "flight per connection (more than a session queue holds) and, rarely, 64..90 connections x 40 (more than both queues of a backend connection hold). Non-trivial: the stop is placed before the bind completed, or with >= 1 connection open, or with a non-responsive backend; "
          "limit: more simultaneous attempts than L, or a drain. Distinct by canonical JSON."),
    assumptions=["'not served' after Stop means connect refused or the connection closed without data (the port may be rebound by others)",
                 "process-wide singletons (the shared TCP checker loop) are part of the goroutine baseline"],
    parts=[
        dict(name="stop", test="TestStop", kind="rapid", checks={"quick": 40, "thorough": 2500}, shards=16, timeout={"quick": 900, "thorough": 3400}, shrinktime="60s", gomaxprocs=4, crash_is_violation=True),
        dict(name="limit", test="TestLimitAndDrain", kind="rapid", checks={"quick": 40, "thorough": 2500}, shards=16, timeout={"quick": 900, "thorough": 3400}, shrinktime="60s", gomaxprocs=4, crash_is_violation=True),
        dict(name="removeall", test="TestRemoveAllThenStop", kind="rapid", checks={"quick": 40, "thorough": 400}, shards=16, timeout={"quick": 900, "thorough": 3400}, shrinktime="30s", crash_is_violation=False),
        dict(name="redirect", test="TestStopDuringRedirect", kind="rapid", checks={"quick": 10, "thorough": 400}, shards=16, timeout={"quick": 900, "thorough": 3400}, shrinktime="60s", gomaxprocs=4, crash_is_violation=True),
        dict(name="arrivals", test="TestStopUnderArrivals", kind="rapid", checks={"quick": 6, "thorough": 300}, shards=16, timeout={"quick": 900, "thorough": 3400}, shrinktime="20s", gomaxprocs=4, crash_is_violation=True),
    ],
)

CHECKS["C20"] = dict(
    technique='stateful property-based testing (rapid): generated traffic / fault histories ending in quiescence; conservation invariants over the public statistics',
    pkg="c20", level="exploration",
    engine="sim / tcpsim; the statistics are read through the public stats package by name",
    rule=("rapid-generated histories (2..20 steps) against a real Redis processor in front of 1..3 simulated masters, or a real TCP processor in "
          "front of an echo backend, with connection limit 0..3: open / close / abort (RST) up to 5 client connections, a client that requests 2..14 MB of replies without reading and goes away (RST or FIN) while the proxy is blocked writing to it, pipelined command "
          "batches (GET/SET/MGET/MSET/DEL/INCR/LPUSH with wrong-type errors, PING, the unsupported KEYS, an invalid arity), backend "
          "connection drops (FIN/RST), a backend connection killed after 1..5 commands, slot migrations that force MOVED or ASK "
          "redirections; for the TCP service: the backend going down and coming back (connects fail meanwhile) and the host leaving and "
          "re-joining the endpoint set (no usable host meanwhile; established connections are closed); the history ends in quiescence either by closing all clients or by Stop() with connections open. Oracle (polled "
          "for up to 5 s at quiescence): downstream cx_active == 0 and cx_total == cx_destroy_total (TCP: upstream alike); downstream and "
          "upstream rq_total == rq_success_total + rq_failure_total; per Redis command total == success + error; cx_restricted lies between the "
          "number of connections opened while the model itself was at the limit and the number of all connections closed without "
          "service (equal in almost every case); no cx_active gauge above 2^62 at any sampling point. op mass: 4..48 connections opened together and either closed at the same "
          "instant (FIN/RST mixed; when nothing else is open this is a quiescent point inside the history and the equations are checked there) or kept until the end, where everything open ends together "
          "or is open at Stop. part churn: a Redis service on an in-memory listener (package memnet through the hook VerifSetListenFunc), 1..400 rounds of 1..64 connections that send one "
          "PING each and whose peers then vanish at exactly the same instant (one channel close wakes every reader; optionally in two groups 0..40 us apart, optionally the last round ended by Stop, "
          "optionally a connection limit of 1/3/8; op replace: the endpoint set of a Redis service is replaced by an equal list while backend connections are open; the upstream connection equations are checked for both kinds): after every round the service is quiescent: cx_total == cx_destroy_total, cx_active == 0, rq_total == success + failure, and cx_restricted equals exactly the number of "
          "connections the service closed without serving; never more than the limit served at once. Non-trivial: "
          "the history includes a redirection, a backend failure, a limit rejection, or a Stop with >= 1 open connection. Distinct by "
          "canonical JSON."),
    assumptions=["a connection closed without service while the model is below the limit may or may not be a limit rejection (the proxy notices client closes asynchronously; a backend connect can time out on a busy machine), hence the two-sided bound",
                 "the Redis processor keeps no upstream connection counters; only its request counters are checked upstream"],
    parts=[
        dict(name="stats", test="TestStats", kind="rapid", checks={"quick": 300, "thorough": 5000}, shards=16, timeout={"quick": 900, "thorough": 3400}, shrinktime="60s", gomaxprocs=4, crash_is_violation=True),
        dict(name="churn", test="TestChurn", kind="rapid", checks={"quick": 60, "thorough": 1500}, shards=16, timeout={"quick": 900, "thorough": 3400}, shrinktime="15s", crash_is_violation=False),
    ],
)
