"""Per-property configuration of the ./check driver: which test binaries and
parts to run per tier, case counts, sharding, and the evidence texts."""

CHECKS = {}

CHECKS["C12"] = dict(
    pkg="c12", level="exploration", exhaustive_claim=True,
    rule=("part crc3: exhaustive enumeration of all byte strings of length 0..3 (2^24+2^16+2^8+1 keys; the first two bytes "
          "drive the CRC register through all 2^16 states, the third covers every next byte in every state); part braces: "
          "exhaustive enumeration of all strings of length <= 9 over {'{','}','a','b'}; part random: rapid-generated keys of "
          "0..70000 bytes with planted braces/control bytes plus a generated pair of keys sharing a non-empty tag. Oracle: "
          "bit-serial CRC16/XMODEM + port of the specification's HASH_SLOT pseudo code, compared with the slot obtained "
          "through the real chooseHost on a routing table mapping slot i to address i. A case is non-trivial when the key "
          "contains '{'; distinct by key bytes (enumerations: distinct by construction)."),
    assumptions=["the reference CRC is pinned by the standard check value 0x31C3 for '123456789' (slot 12739)",
                 "end-to-end routing of the same key families is checked by C03's routing oracle"],
    parts=[
        dict(name="selfcheck", test="TestSelfCheck", kind="plain"),
        dict(name="crc3", test="TestCRC3Exhaustive", kind="plain", shards=16, timeout=600),
        dict(name="braces", test="TestBracesExhaustive", kind="plain", shards=1, timeout=600),
        dict(name="random", test="TestSlotRandom", kind="rapid", checks={"quick": 15000, "thorough": 1500000},
             shards={"quick": 4, "thorough": 16}, timeout={"quick": 600, "thorough": 3000}),
    ],
)

ENGINES = [
    dict(name="whitebox", path="harness/props", serves_properties=["C10", "C12", "C13", "C15", "C17", "C18", "C19"],
         kind_free_text="rapid property tests and exhaustive enumerations over verif-tagged re-exports of pure functions and small state machines"),
    dict(name="sim", path="harness/sim", serves_properties=["C01", "C02", "C03", "C04", "C07", "C11", "C13", "C14", "C18", "C20"],
         kind_free_text="in-process simulated Redis Cluster (real RESP over loopback TCP, MOVED/ASK/ASKING/CLUSTER NODES, reply gating, fault injection) with a reference keyspace executor; the proxy under test is the real one created through proc.New"),
]

NOTES = ("All checks are property-based tests / fuzzing (pgregory.net/rapid v1.3.0, exhaustive enumeration of finite sub-spaces, "
         "native go fuzzing in the thorough tier). ./check <ID> rebuilds the test binary from /repo's working tree with -tags verif. "
         "Exit 2 = inconclusive (build failure, time-out), never reported as a violation.")

NOT_CLAIMED = {}
