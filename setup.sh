#!/bin/sh
# Offline setup: warm the Go build cache for the harness (nothing is fetched).
set -e
cd "$(dirname "$0")/harness"
export GOFLAGS=-mod=mod GOPROXY=off GOSUMDB=off GOTOOLCHAIN=local
mkdir -p ../.build ../evidence ../replays
# keep go.sum a superset of /repo's
if [ -f /repo/go.sum ]; then sort -u /repo/go.sum go.sum -o go.sum; fi
go build ./vh ./ref 2>&1 | tail -5
go vet -tags verif ./vh >/dev/null 2>&1 || true
for d in props/*/; do
  p=$(basename "$d")
  go test -c -tags verif -vet=off -o ../.build/$p.test ./props/$p >/dev/null 2>&1 || echo "warning: $p did not build"
done
echo setup done
